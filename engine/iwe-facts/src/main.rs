//! iwe-facts: rustc_private driver that dumps a fact base (typed HIR expression trees,
//! mini-MIR with CFG, ADT tables, impl tables, visibility) for the workspace crates of
//! iwe-org/iwe. Injected through RUSTC_WORKSPACE_WRAPPER under `cargo +nightly check`.
//! It never runs any iwe code; it only reads what the compiler has type-checked.
#![feature(rustc_private)]
#![allow(clippy::all)]

extern crate rustc_abi;
extern crate rustc_ast;
extern crate rustc_driver;
extern crate rustc_hir;
extern crate rustc_interface;
extern crate rustc_middle;
extern crate rustc_session;
extern crate rustc_span;

mod json;

use json::J;
use rustc_hir as hir;
use rustc_hir::def::{DefKind, Res};
use rustc_hir::def_id::{DefId, LocalDefId};
use rustc_middle::mir;
use rustc_middle::ty::{self, Instance, Ty, TyCtxt, TypingEnv};
use rustc_span::Span;
use std::collections::HashMap;

struct Cb;

impl rustc_driver::Callbacks for Cb {
    fn after_analysis<'tcx>(
        &mut self,
        _c: &rustc_interface::interface::Compiler,
        tcx: TyCtxt<'tcx>,
    ) -> rustc_driver::Compilation {
        let out_dir = match std::env::var("IWE_FACTS_OUT") {
            Ok(d) => d,
            Err(_) => return rustc_driver::Compilation::Continue,
        };
        let crate_name = tcx.crate_name(rustc_hir::def_id::LOCAL_CRATE).to_string();
        let want = std::env::var("IWE_FACTS_CRATES").unwrap_or_else(|_| "liwe,iwe,iwes".into());
        if !want.split(',').any(|c| c == crate_name) {
            return rustc_driver::Compilation::Continue;
        }
        let mut cx = Cx { tcx, types: Vec::new(), type_ix: HashMap::new() };
        let doc = cx.dump_crate(&crate_name);
        let mut s = String::with_capacity(1 << 24);
        doc.write(&mut s);
        let ctype = crate_type(tcx);
        let path = format!("{}/{}-{}-{}.json", out_dir, crate_name, ctype, std::process::id());
        let tmp = format!("{}.tmp", path);
        std::fs::write(&tmp, s).expect("write facts");
        std::fs::rename(&tmp, &path).expect("rename facts");
        rustc_driver::Compilation::Continue
    }
}

fn crate_type(tcx: TyCtxt<'_>) -> &'static str {
    use rustc_session::config::CrateType;
    if tcx.crate_types().iter().any(|t| matches!(t, CrateType::Executable)) {
        "bin"
    } else {
        "lib"
    }
}

struct Cx<'tcx> {
    tcx: TyCtxt<'tcx>,
    types: Vec<String>,
    type_ix: HashMap<String, usize>,
}

fn full<R>(f: impl FnOnce() -> R) -> R {
    ty::print::with_resolve_crate_name!(ty::print::with_no_trimmed_paths!(f()))
}

impl<'tcx> Cx<'tcx> {
    fn path(&self, did: DefId) -> String {
        full(|| self.tcx.def_path_str(did))
    }

    fn ty(&mut self, t: Ty<'tcx>) -> J {
        let s = full(|| t.to_string());
        if let Some(&i) = self.type_ix.get(&s) {
            return J::n(i);
        }
        let i = self.types.len();
        self.types.push(s.clone());
        self.type_ix.insert(s, i);
        J::n(i)
    }

    fn span(&self, sp: Span) -> J {
        J::Arr(vec![J::n(sp.lo().0), J::n(sp.hi().0)])
    }

    fn line(&self, sp: Span) -> J {
        let sp = sp.source_callsite();
        let loc = self.tcx.sess.source_map().lookup_char_pos(sp.lo());
        J::n(loc.line)
    }

    fn file(&self, sp: Span) -> String {
        let sp = sp.source_callsite();
        let loc = self.tcx.sess.source_map().lookup_char_pos(sp.lo());
        format!("{}", loc.file.name.prefer_local_unconditionally())
    }

    fn mac(&self, sp: Span) -> J {
        if !sp.from_expansion() {
            return J::Null;
        }
        let mut names: Vec<String> = Vec::new();
        for d in sp.macro_backtrace() {
            match d.kind {
                rustc_span::ExpnKind::Macro(_, name) => names.push(name.to_string()),
                rustc_span::ExpnKind::Desugaring(k) => names.push(format!("desugar:{:?}", k)),
                rustc_span::ExpnKind::AstPass(_) => names.push("astpass".into()),
                rustc_span::ExpnKind::Root => {}
            }
        }
        if names.is_empty() {
            J::Null
        } else {
            J::s(names.join(">"))
        }
    }

    fn vis(&self, did: DefId) -> J {
        match self.tcx.def_kind(did) {
            DefKind::Closure | DefKind::AnonConst | DefKind::InlineConst => return J::Null,
            _ => {}
        }
        let v = self.tcx.visibility(did);
        if v.is_public() {
            J::s("pub")
        } else {
            match v {
                ty::Visibility::Restricted(m) => J::s(format!("in:{}", self.path(m))),
                _ => J::s("pub"),
            }
        }
    }

    fn exported(&self, did: LocalDefId) -> J {
        let ev = self.tcx.effective_visibilities(());
        J::Bool(ev.is_reachable(did))
    }

    fn dump_crate(&mut self, crate_name: &str) -> J {
        let tcx = self.tcx;
        let mut adts = Vec::new();
        let mut impls = Vec::new();
        let mut mods = Vec::new();
        let mut consts = Vec::new();
        let items = tcx.hir_crate_items(());
        for ldid in items.definitions() {
            let did = ldid.to_def_id();
            match tcx.def_kind(did) {
                DefKind::Struct | DefKind::Enum | DefKind::Union => {
                    adts.push(self.dump_adt(ldid));
                }
                DefKind::Impl { .. } => {
                    let self_ty = tcx.type_of(did).instantiate_identity().skip_norm_wip();
                    let tr = tcx
                        .impl_opt_trait_ref(did)
                        .map(|t| self.path(t.instantiate_identity().skip_norm_wip().def_id));
                    let sp = tcx.def_span(did);
                    impls.push(J::Obj(vec![
                        ("self", J::s(full(|| self_ty.to_string()))),
                        ("trait", tr.map(J::s).unwrap_or(J::Null)),
                        ("derived", J::Bool(sp.from_expansion())),
                        ("file", J::s(self.file(sp))),
                        ("line", self.line(sp)),
                    ]));
                }
                DefKind::Mod => {
                    mods.push(J::Obj(vec![
                        ("path", J::s(self.path(did))),
                        ("vis", self.vis(did)),
                        ("exported", self.exported(ldid)),
                    ]));
                }
                DefKind::Const { .. } | DefKind::Static { .. } => {
                    consts.push(J::Obj(vec![
                        ("path", J::s(self.path(did))),
                        ("vis", self.vis(did)),
                    ]));
                }
                _ => {}
            }
        }

        let mut fns = Vec::new();
        for ldid in tcx.hir_body_owners() {
            let did = ldid.to_def_id();
            let dk = tcx.def_kind(did);
            let kind = match dk {
                DefKind::Fn => "fn",
                DefKind::AssocFn => "method",
                DefKind::Closure => "closure",
                DefKind::Const { .. } | DefKind::AssocConst { .. } => "const",
                DefKind::Static { .. } => "static",
                DefKind::AnonConst | DefKind::InlineConst => continue,
                _ => continue,
            };
            // skip bodies that come entirely from derive expansions (no repo logic in them)
            let dspan = tcx.def_span(did);
            let derived = dk != DefKind::Closure && {
                // only bodies generated by #[derive(..)] (marked #[automatically_derived]) are skipped;
                // attribute macros such as #[tracing::instrument] keep their (user-written) body
                let root = tcx.typeck_root_def_id(did);
                let in_derived_impl = match tcx.def_kind(root) {
                    DefKind::AssocFn | DefKind::AssocConst { .. } => tcx
                        .impl_of_assoc(root)
                        .map(|i| tcx.is_automatically_derived(i))
                        .unwrap_or(false),
                    _ => false,
                };
                in_derived_impl
                    || (dspan.from_expansion()
                        && dspan.macro_backtrace().any(|d| {
                            matches!(d.kind, rustc_span::ExpnKind::Macro(rustc_span::MacroKind::Derive, _))
                        }))
            };
            let mut f: Vec<(&'static str, J)> = Vec::new();
            f.push(("def", J::s(self.path(did))));
            f.push(("kind", J::s(kind)));
            f.push(("derived", J::Bool(derived)));
            f.push(("vis", self.vis(did)));
            if dk != DefKind::Closure {
                f.push(("exported", self.exported(ldid)));
            }
            f.push(("file", J::s(self.file(dspan))));
            f.push(("line", self.line(dspan)));
            f.push(("s", self.span(dspan)));
            // outermost enclosing fn for closures
            if dk == DefKind::Closure {
                let root = tcx.typeck_root_def_id(did);
                f.push(("parent", J::s(self.path(root))));
            }
            if let DefKind::AssocFn = dk {
                if let Some(imp) = tcx.impl_of_assoc(did) {
                    let self_ty = tcx.type_of(imp).instantiate_identity().skip_norm_wip();
                    f.push(("impl_self", J::s(full(|| self_ty.to_string()))));
                    if let Some(tr) = tcx.impl_opt_trait_ref(imp) {
                        let trd = tr.instantiate_identity().skip_norm_wip().def_id;
                        f.push(("impl_trait", J::s(self.path(trd))));
                        // which trait item does it implement
                        if let Some(ti) = tcx.associated_item(did).trait_item_def_id() {
                            f.push(("trait_item", J::s(self.path(ti))));
                        }
                    }
                } else if let Some(tr) = tcx.trait_of_assoc(did) {
                    f.push(("in_trait", J::s(self.path(tr))));
                }
            }
            if !derived && dk != DefKind::Closure {
                let body = tcx.hir_body_owned_by(ldid);
                let tr = tcx.typeck(ldid);
                let mut hx = Hx { cx: self, tr, owner: ldid };
                let params: Vec<J> = body
                    .params
                    .iter()
                    .map(|p| {
                        let t = hx.tr.pat_ty(p.pat);
                        let tj = hx.cx.ty(t);
                        J::Obj(vec![("pat", hx.pat(p.pat)), ("ty", tj)])
                    })
                    .collect();
                let bj = hx.expr(body.value);
                f.push(("params", J::Arr(params)));
                f.push(("body", bj));
                if matches!(dk, DefKind::Fn | DefKind::AssocFn) {
                    let sig = tcx.fn_sig(did).instantiate_identity().skip_norm_wip().skip_binder();
                    let rt = self.ty(sig.output());
                    f.push(("ret", rt));
                }
            }
            if matches!(dk, DefKind::Fn | DefKind::AssocFn | DefKind::Closure)
                && !derived
                && tcx.is_mir_available(did)
            {
                f.push(("mir", self.dump_mir(ldid)));
            }
            fns.push(J::Obj(f));
        }

        let types = std::mem::take(&mut self.types);
        J::Obj(vec![
            ("crate", J::s(crate_name)),
            ("crate_type", J::s(crate_type(tcx))),
            ("adts", J::Arr(adts)),
            ("impls", J::Arr(impls)),
            ("mods", J::Arr(mods)),
            ("consts", J::Arr(consts)),
            ("fns", J::Arr(fns)),
            ("types", J::Arr(types.into_iter().map(J::Str).collect())),
        ])
    }

    fn dump_adt(&mut self, ldid: LocalDefId) -> J {
        let tcx = self.tcx;
        let did = ldid.to_def_id();
        let adt = tcx.adt_def(did);
        let kind = if adt.is_enum() {
            "enum"
        } else if adt.is_union() {
            "union"
        } else {
            "struct"
        };
        let mut variants = Vec::new();
        for v in adt.variants() {
            let mut fields = Vec::new();
            for fd in v.fields.iter() {
                let t = tcx.type_of(fd.did).instantiate_identity().skip_norm_wip();
                let fexp = fd.did.as_local().map(|l| self.exported(l)).unwrap_or(J::Null);
                fields.push(J::Obj(vec![
                    ("name", J::s(fd.name.to_string())),
                    ("ty", J::s(full(|| t.to_string()))),
                    ("vis", if fd.vis.is_public() { J::s("pub") } else { J::s("restricted") }),
                    ("exported", fexp),
                ]));
            }
            variants.push(J::Obj(vec![
                ("name", J::s(v.name.to_string())),
                ("path", J::s(self.path(v.def_id))),
                ("ctor", match v.ctor_kind() {
                    Some(rustc_hir::def::CtorKind::Fn) => J::s("fn"),
                    Some(rustc_hir::def::CtorKind::Const) => J::s("const"),
                    None => J::s("struct"),
                }),
                ("fields", J::Arr(fields)),
            ]));
        }
        let sp = tcx.def_span(did);
        J::Obj(vec![
            ("path", J::s(self.path(did))),
            ("kind", J::s(kind)),
            ("vis", self.vis(did)),
            ("exported", self.exported(ldid)),
            ("file", J::s(self.file(sp))),
            ("line", self.line(sp)),
            ("variants", J::Arr(variants)),
        ])
    }

    // ------------------------------------------------------------------ MIR

    fn dump_mir(&mut self, ldid: LocalDefId) -> J {
        let tcx = self.tcx;
        let did = ldid.to_def_id();
        let body = tcx.optimized_mir(did);
        let tenv = TypingEnv::post_analysis(tcx, did);
        let mut locals = Vec::new();
        for (_l, d) in body.local_decls.iter_enumerated() {
            locals.push(self.ty(d.ty));
        }
        let mut vars = Vec::new();
        for v in body.var_debug_info.iter() {
            if let mir::VarDebugInfoContents::Place(p) = &v.value {
                vars.push(J::Obj(vec![
                    ("name", J::s(v.name.to_string())),
                    ("place", J::s(self.place(p))),
                ]));
            }
        }
        let mut blocks = Vec::new();
        for (_bb, data) in body.basic_blocks.iter_enumerated() {
            let mut stmts = Vec::new();
            for st in data.statements.iter() {
                match &st.kind {
                    mir::StatementKind::Assign(b) => {
                        let (pl, rv) = &**b;
                        let rvj = self.rvalue(rv, body);
                        stmts.push(J::Obj(vec![
                            ("l", J::s(self.place(pl))),
                            ("rv", rvj),
                            ("s", self.span(st.source_info.span)),
                        ]));
                    }
                    mir::StatementKind::SetDiscriminant { place, variant_index } => {
                        stmts.push(J::Obj(vec![
                            ("l", J::s(self.place(place))),
                            ("rv", J::Obj(vec![
                                ("k", J::s("setdiscr")),
                                ("v", J::n(variant_index.as_u32())),
                            ])),
                        ]));
                    }
                    _ => {}
                }
            }
            let term = data.terminator();
            let tj = self.terminator(term, body, tenv);
            blocks.push(J::Obj(vec![
                ("stmts", J::Arr(stmts)),
                ("term", tj),
                ("cleanup", if data.is_cleanup { J::Bool(true) } else { J::Null }),
            ]));
        }
        J::Obj(vec![
            ("argc", J::n(body.arg_count)),
            ("locals", J::Arr(locals)),
            ("vars", J::Arr(vars)),
            ("blocks", J::Arr(blocks)),
        ])
    }

    fn place(&self, p: &mir::Place<'tcx>) -> String {
        let mut s = format!("_{}", p.local.as_u32());
        for e in p.projection.iter() {
            match e {
                mir::ProjectionElem::Deref => s.push_str(".*"),
                mir::ProjectionElem::Field(f, _) => s.push_str(&format!(".{}", f.as_u32())),
                mir::ProjectionElem::Index(l) => s.push_str(&format!("[_{}]", l.as_u32())),
                mir::ProjectionElem::ConstantIndex { offset, from_end, .. } => {
                    s.push_str(&format!("[{}{}]", if from_end { "-" } else { "" }, offset))
                }
                mir::ProjectionElem::Subslice { .. } => s.push_str("[..]"),
                mir::ProjectionElem::Downcast(name, idx) => match name {
                    Some(n) => s.push_str(&format!("@{}", n)),
                    None => s.push_str(&format!("@{}", idx.as_u32())),
                },
                _ => s.push_str(".?"),
            }
        }
        s
    }

    fn operand(&mut self, o: &mir::Operand<'tcx>) -> J {
        match o {
            mir::Operand::Copy(p) => J::s(format!("copy {}", self.place(p))),
            mir::Operand::Move(p) => J::s(format!("move {}", self.place(p))),
            mir::Operand::Constant(c) => {
                let t = c.const_.ty();
                match t.kind() {
                    ty::FnDef(did, _) => J::s(format!("fn {}", self.path(*did))),
                    _ => {
                        let v = full(|| format!("{}", c.const_));
                        let v = if v.len() > 120 { format!("{}…", &v[..v.char_indices().nth(100).map(|x| x.0).unwrap_or(v.len())]) } else { v };
                        J::s(format!("const {}", v))
                    }
                }
            }
            _ => J::s("runtime_checks"),
        }
    }

    fn rvalue(&mut self, rv: &mir::Rvalue<'tcx>, _body: &mir::Body<'tcx>) -> J {
        use mir::Rvalue::*;
        match rv {
            Use(o, ..) => J::Obj(vec![("k", J::s("use")), ("ops", J::Arr(vec![self.operand(o)]))]),
            Repeat(o, _) => J::Obj(vec![("k", J::s("repeat")), ("ops", J::Arr(vec![self.operand(o)]))]),
            Ref(_, bk, p) => J::Obj(vec![
                ("k", J::s("ref")),
                ("mut", J::Bool(matches!(bk, mir::BorrowKind::Mut { .. }))),
                ("p", J::s(self.place(p))),
            ]),
            RawPtr(_, p) => J::Obj(vec![("k", J::s("rawptr")), ("p", J::s(self.place(p)))]),
            Cast(ck, o, t) => {
                let tj = self.ty(*t);
                J::Obj(vec![
                    ("k", J::s("cast")),
                    ("ck", J::s(format!("{:?}", ck))),
                    ("ops", J::Arr(vec![self.operand(o)])),
                    ("to", tj),
                ])
            }
            BinaryOp(op, b) => {
                let (a, c) = &**b;
                J::Obj(vec![
                    ("k", J::s("binop")),
                    ("op", J::s(format!("{:?}", op))),
                    ("ops", J::Arr(vec![self.operand(a), self.operand(c)])),
                ])
            }
            UnaryOp(op, o) => J::Obj(vec![
                ("k", J::s("unop")),
                ("op", J::s(format!("{:?}", op))),
                ("ops", J::Arr(vec![self.operand(o)])),
            ]),
            Discriminant(p) => J::Obj(vec![("k", J::s("discr")), ("p", J::s(self.place(p)))]),
            Aggregate(kind, ops) => {
                let (ak, def) = match &**kind {
                    mir::AggregateKind::Array(_) => ("array", None),
                    mir::AggregateKind::Tuple => ("tuple", None),
                    mir::AggregateKind::Adt(did, vidx, _, _, _) => {
                        let adt = self.tcx.adt_def(*did);
                        let v = adt.variant(*vidx);
                        ("adt", Some(self.path(v.def_id)))
                    }
                    mir::AggregateKind::Closure(did, _) => ("closure", Some(self.path(*did))),
                    mir::AggregateKind::Coroutine(did, _) => ("coroutine", Some(self.path(*did))),
                    mir::AggregateKind::CoroutineClosure(did, _) => ("coroutine_closure", Some(self.path(*did))),
                    mir::AggregateKind::RawPtr(..) => ("rawptr", None),
                };
                let opsj: Vec<J> = ops.iter().map(|o| self.operand(o)).collect();
                J::Obj(vec![
                    ("k", J::s("aggr")),
                    ("ak", J::s(ak)),
                    ("def", def.map(J::s).unwrap_or(J::Null)),
                    ("ops", J::Arr(opsj)),
                ])
            }
            CopyForDeref(p) => J::Obj(vec![("k", J::s("use")), ("ops", J::Arr(vec![J::s(format!("copy {}", self.place(p)))]))]),
            _ => J::Obj(vec![("k", J::s("other"))]),
        }
    }

    fn terminator(&mut self, term: &mir::Terminator<'tcx>, body: &mir::Body<'tcx>, tenv: TypingEnv<'tcx>) -> J {
        use mir::TerminatorKind::*;
        let sp = term.source_info.span;
        let mut o: Vec<(&'static str, J)> = Vec::new();
        match &term.kind {
            Goto { target } => {
                o.push(("k", J::s("goto")));
                o.push(("t", J::n(target.as_u32())));
            }
            SwitchInt { discr, targets } => {
                o.push(("k", J::s("switch")));
                o.push(("d", self.operand(discr)));
                let mut vals = Vec::new();
                let mut ts = Vec::new();
                for (v, t) in targets.iter() {
                    vals.push(J::n(v as i64));
                    ts.push(J::n(t.as_u32()));
                }
                o.push(("vals", J::Arr(vals)));
                o.push(("ts", J::Arr(ts)));
                o.push(("o", J::n(targets.otherwise().as_u32())));
            }
            UnwindResume => o.push(("k", J::s("resume"))),
            UnwindTerminate(_) => o.push(("k", J::s("terminate"))),
            Return => o.push(("k", J::s("ret"))),
            Unreachable => o.push(("k", J::s("unreachable"))),
            Drop { place, target, unwind, .. } => {
                o.push(("k", J::s("drop")));
                o.push(("p", J::s(self.place(place))));
                o.push(("t", J::n(target.as_u32())));
                if let mir::UnwindAction::Cleanup(b) = unwind {
                    o.push(("uw", J::n(b.as_u32())));
                }
            }
            Call { func, args, destination, target, unwind, fn_span, .. } => {
                o.push(("k", J::s("call")));
                let fty = func.ty(body, self.tcx);
                match fty.kind() {
                    ty::FnDef(did, gargs) => {
                        o.push(("f", J::s(self.path(*did))));
                        if let Ok(Some(inst)) = Instance::try_resolve(self.tcx, tenv, *did, gargs) {
                            let rd = inst.def_id();
                            if rd != *did {
                                o.push(("res", J::s(self.path(rd))));
                            }
                            if let ty::InstanceKind::Virtual(..) = inst.def {
                                o.push(("virt", J::Bool(true)));
                            }
                        } else {
                            o.push(("unres", J::Bool(true)));
                        }
                        // self type / first generic arg, useful for trait calls
                        if let Some(a0) = gargs.types().next() {
                            o.push(("a0", self.ty(a0)));
                        }
                    }
                    _ => {
                        o.push(("fop", self.operand(func)));
                        o.push(("fty", self.ty(fty)));
                    }
                }
                let aj: Vec<J> = args.iter().map(|a| self.operand(&a.node)).collect();
                o.push(("args", J::Arr(aj)));
                o.push(("dest", J::s(self.place(destination))));
                if let Some(t) = target {
                    o.push(("t", J::n(t.as_u32())));
                }
                if let mir::UnwindAction::Cleanup(b) = unwind {
                    o.push(("uw", J::n(b.as_u32())));
                }
                o.push(("fs", self.span(*fn_span)));
            }
            TailCall { .. } => o.push(("k", J::s("tailcall"))),
            Assert { cond, expected, msg, target, unwind } => {
                o.push(("k", J::s("assert")));
                o.push(("c", self.operand(cond)));
                o.push(("exp", J::Bool(*expected)));
                let m = match &**msg {
                    mir::AssertKind::BoundsCheck { .. } => "bounds".to_string(),
                    mir::AssertKind::Overflow(op, ..) => format!("overflow:{:?}", op),
                    mir::AssertKind::OverflowNeg(_) => "overflow:Neg".into(),
                    mir::AssertKind::DivisionByZero(_) => "div0".into(),
                    mir::AssertKind::RemainderByZero(_) => "rem0".into(),
                    mir::AssertKind::MisalignedPointerDereference { .. } => "misaligned".into(),
                    mir::AssertKind::NullPointerDereference => "nullptr".into(),
                    _ => "other".into(),
                };
                o.push(("msg", J::s(m)));
                o.push(("t", J::n(target.as_u32())));
                if let mir::UnwindAction::Cleanup(b) = unwind {
                    o.push(("uw", J::n(b.as_u32())));
                }
            }
            Yield { .. } => o.push(("k", J::s("yield"))),
            CoroutineDrop => o.push(("k", J::s("coroutine_drop"))),
            FalseEdge { real_target, .. } => {
                o.push(("k", J::s("goto")));
                o.push(("t", J::n(real_target.as_u32())));
            }
            FalseUnwind { real_target, .. } => {
                o.push(("k", J::s("goto")));
                o.push(("t", J::n(real_target.as_u32())));
            }
            InlineAsm { .. } => o.push(("k", J::s("asm"))),
        }
        o.push(("s", self.span(sp)));
        o.push(("ln", self.line(sp)));
        o.push(("m", self.mac(sp)));
        J::Obj(o)
    }
}

// ---------------------------------------------------------------------- HIR

struct Hx<'a, 'tcx> {
    cx: &'a mut Cx<'tcx>,
    tr: &'tcx ty::TypeckResults<'tcx>,
    owner: LocalDefId,
}

impl<'a, 'tcx> Hx<'a, 'tcx> {
    fn res_def(&mut self, res: Res, o: &mut Vec<(&'static str, J)>) {
        match res {
            Res::Local(hid) => {
                o.push(("res", J::s("local")));
                o.push(("id", J::n(hid.local_id.as_u32())));
                let name = self.cx.tcx.hir_name(hid);
                o.push(("name", J::s(name.to_string())));
            }
            Res::Def(dk, did) => {
                o.push(("res", J::s("def")));
                o.push(("dk", J::s(format!("{:?}", dk).split(|c: char| !c.is_alphanumeric()).next().unwrap_or("").to_string())));
                // constructors: name the variant / struct rather than the ctor
                let did2 = match dk {
                    DefKind::Ctor(..) => self.cx.tcx.parent(did),
                    _ => did,
                };
                o.push(("def", J::s(self.cx.path(did2))));
            }
            Res::SelfCtor(did) | Res::SelfTyAlias { alias_to: did, .. } => {
                o.push(("res", J::s("self")));
                o.push(("def", J::s(self.cx.path(did))));
            }
            _ => {
                o.push(("res", J::s("other")));
            }
        }
    }

    fn resolve_call(&mut self, did: DefId, args: ty::GenericArgsRef<'tcx>, o: &mut Vec<(&'static str, J)>) {
        let tcx = self.cx.tcx;
        let tenv = TypingEnv::post_analysis(tcx, self.owner.to_def_id());
        if tcx.generics_of(did).count() != args.len() {
            return;
        }
        if let Ok(Some(inst)) = Instance::try_resolve(tcx, tenv, did, args) {
            let rd = inst.def_id();
            if rd != did {
                o.push(("rdef", J::s(self.cx.path(rd))));
            }
        }
    }

    fn pat(&mut self, p: &'tcx hir::Pat<'tcx>) -> J {
        use hir::PatKind::*;
        let mut o: Vec<(&'static str, J)> = Vec::new();
        match p.kind {
            Wild | Missing => o.push(("k", J::s("p_wild"))),
            Binding(mode, hid, ident, sub) => {
                o.push(("k", J::s("p_bind")));
                o.push(("name", J::s(ident.name.to_string())));
                o.push(("id", J::n(hid.local_id.as_u32())));
                let by = format!("{:?}", mode);
                if by.contains("Ref") {
                    o.push(("byref", J::Bool(true)));
                }
                if let Some(s) = sub {
                    o.push(("sub", self.pat(s)));
                }
                let t = self.tr.pat_ty(p);
                o.push(("ty", self.cx.ty(t)));
            }
            Struct(ref qp, fields, rest) => {
                o.push(("k", J::s("p_struct")));
                let res = self.tr.qpath_res(qp, p.hir_id);
                self.res_def(res, &mut o);
                let fj: Vec<J> = fields
                    .iter()
                    .map(|f| J::Obj(vec![("name", J::s(f.ident.name.to_string())), ("pat", self.pat(f.pat))]))
                    .collect();
                o.push(("fields", J::Arr(fj)));
                o.push(("rest", J::Bool(rest.is_some())));
            }
            TupleStruct(ref qp, pats, ddpos) => {
                o.push(("k", J::s("p_tstruct")));
                let res = self.tr.qpath_res(qp, p.hir_id);
                self.res_def(res, &mut o);
                let pj: Vec<J> = pats.iter().map(|x| self.pat(x)).collect();
                o.push(("pats", J::Arr(pj)));
                if let Some(n) = ddpos.as_opt_usize() {
                    o.push(("ddpos", J::n(n)));
                }
            }
            Or(pats) => {
                o.push(("k", J::s("p_or")));
                let pj: Vec<J> = pats.iter().map(|x| self.pat(x)).collect();
                o.push(("pats", J::Arr(pj)));
            }
            Never => o.push(("k", J::s("p_never"))),
            Tuple(pats, ddpos) => {
                o.push(("k", J::s("p_tuple")));
                let pj: Vec<J> = pats.iter().map(|x| self.pat(x)).collect();
                o.push(("pats", J::Arr(pj)));
                if let Some(n) = ddpos.as_opt_usize() {
                    o.push(("ddpos", J::n(n)));
                }
            }
            Box(x) | Deref(x) | Ref(x, ..) => {
                o.push(("k", J::s("p_ref")));
                o.push(("pat", self.pat(x)));
            }
            Expr(pe) => match &pe.kind {
                hir::PatExprKind::Lit { lit, negated } => {
                    o.push(("k", J::s("p_lit")));
                    o.push(("v", J::s(format!("{}{}", if *negated { "-" } else { "" }, lit_str(lit)))));
                }
                hir::PatExprKind::Path(qp) => {
                    o.push(("k", J::s("p_path")));
                    let res = self.tr.qpath_res(qp, pe.hir_id);
                    self.res_def(res, &mut o);
                }
            },
            Guard(x, g) => {
                o.push(("k", J::s("p_guard")));
                o.push(("pat", self.pat(x)));
                o.push(("guard", self.expr(g)));
            }
            Range(..) => o.push(("k", J::s("p_range"))),
            Slice(a, m, b) => {
                o.push(("k", J::s("p_slice")));
                let mut pj: Vec<J> = a.iter().map(|x| self.pat(x)).collect();
                if let Some(m) = m {
                    pj.push(self.pat(m));
                }
                pj.extend(b.iter().map(|x| self.pat(x)));
                o.push(("pats", J::Arr(pj)));
            }
            Err(_) => o.push(("k", J::s("p_err"))),
        }
        J::Obj(o)
    }

    fn block(&mut self, b: &'tcx hir::Block<'tcx>) -> J {
        let mut stmts = Vec::new();
        for st in b.stmts.iter() {
            match st.kind {
                hir::StmtKind::Let(l) => {
                    let mut o: Vec<(&'static str, J)> = Vec::new();
                    o.push(("k", J::s("let")));
                    o.push(("pat", self.pat(l.pat)));
                    if let Some(i) = l.init {
                        o.push(("init", self.expr(i)));
                    }
                    if let Some(e) = l.els {
                        o.push(("els", self.block(e)));
                    }
                    o.push(("ln", self.cx.line(l.span)));
                    o.push(("s", self.cx.span(l.span)));
                    o.push(("m", self.cx.mac(l.span)));
                    stmts.push(J::Obj(o));
                }
                hir::StmtKind::Expr(e) => stmts.push(self.expr(e)),
                hir::StmtKind::Semi(e) => {
                    let mut j = self.expr(e);
                    if let J::Obj(ref mut v) = j {
                        v.push(("semi", J::Bool(true)));
                    }
                    stmts.push(j);
                }
                hir::StmtKind::Item(_) => {}
            }
        }
        let mut o: Vec<(&'static str, J)> = Vec::new();
        o.push(("k", J::s("block")));
        o.push(("stmts", J::Arr(stmts)));
        if let Some(e) = b.expr {
            o.push(("e", self.expr(e)));
        }
        o.push(("ln", self.cx.line(b.span)));
        o.push(("s", self.cx.span(b.span)));
        J::Obj(o)
    }

    fn expr(&mut self, e: &'tcx hir::Expr<'tcx>) -> J {
        use hir::ExprKind::*;
        let tcx = self.cx.tcx;
        let mut o: Vec<(&'static str, J)> = Vec::new();
        match e.kind {
            DropTemps(x) | Use(x, _) => return self.expr(x),
            ConstBlock(_) => o.push(("k", J::s("constblock"))),
            Array(es) => {
                o.push(("k", J::s("array")));
                let v: Vec<J> = es.iter().map(|x| self.expr(x)).collect();
                o.push(("es", J::Arr(v)));
            }
            Tup(es) => {
                o.push(("k", J::s("tup")));
                let v: Vec<J> = es.iter().map(|x| self.expr(x)).collect();
                o.push(("es", J::Arr(v)));
            }
            Call(f, args) => {
                o.push(("k", J::s("call")));
                // resolved callee
                if let hir::ExprKind::Path(ref qp) = f.kind {
                    let res = self.tr.qpath_res(qp, f.hir_id);
                    if let Res::Def(dk, did) = res {
                        let did2 = match dk {
                            DefKind::Ctor(..) => tcx.parent(did),
                            _ => did,
                        };
                        o.push(("def", J::s(self.cx.path(did2))));
                        if let DefKind::Ctor(..) = dk {
                            o.push(("ctor", J::Bool(true)));
                        }
                        if matches!(dk, DefKind::Fn | DefKind::AssocFn) {
                            let ga = self.tr.node_args(f.hir_id);
                            self.resolve_call(did, ga, &mut o);
                        }
                    }
                }
                o.push(("f", self.expr(f)));
                let v: Vec<J> = args.iter().map(|x| self.expr(x)).collect();
                o.push(("args", J::Arr(v)));
            }
            MethodCall(seg, recv, args, _sp) => {
                o.push(("k", J::s("mcall")));
                o.push(("name", J::s(seg.ident.name.to_string())));
                if let Some(did) = self.tr.type_dependent_def_id(e.hir_id) {
                    o.push(("def", J::s(self.cx.path(did))));
                    let ga = self.tr.node_args(e.hir_id);
                    self.resolve_call(did, ga, &mut o);
                }
                let rt = self.tr.expr_ty(recv);
                o.push(("rty", self.cx.ty(rt)));
                let rta = self.tr.expr_ty_adjusted(recv);
                o.push(("rtya", self.cx.ty(rta)));
                o.push(("recv", self.expr(recv)));
                let v: Vec<J> = args.iter().map(|x| self.expr(x)).collect();
                o.push(("args", J::Arr(v)));
            }
            Binary(op, l, r) => {
                o.push(("k", J::s("binary")));
                o.push(("op", J::s(op.node.as_str())));
                if let Some(did) = self.tr.type_dependent_def_id(e.hir_id) {
                    o.push(("def", J::s(self.cx.path(did))));
                }
                o.push(("l", self.expr(l)));
                o.push(("r", self.expr(r)));
            }
            Unary(op, x) => {
                o.push(("k", J::s("unary")));
                o.push(("op", J::s(op.as_str())));
                if let Some(did) = self.tr.type_dependent_def_id(e.hir_id) {
                    o.push(("def", J::s(self.cx.path(did))));
                }
                o.push(("e", self.expr(x)));
            }
            Lit(l) => {
                o.push(("k", J::s("lit")));
                o.push(("v", J::s(lit_str(&l))));
            }
            Cast(x, _) | Type(x, _) => {
                o.push(("k", J::s("cast")));
                o.push(("e", self.expr(x)));
            }
            Let(l) => {
                o.push(("k", J::s("letx")));
                o.push(("pat", self.pat(l.pat)));
                o.push(("init", self.expr(l.init)));
            }
            If(c, t, el) => {
                o.push(("k", J::s("if")));
                o.push(("c", self.expr(c)));
                o.push(("t", self.expr(t)));
                if let Some(x) = el {
                    o.push(("e", self.expr(x)));
                }
            }
            Loop(b, _, src, _) => {
                o.push(("k", J::s("loop")));
                o.push(("src", J::s(format!("{:?}", src))));
                o.push(("body", self.block(b)));
            }
            Match(scrut, arms, src) => {
                o.push(("k", J::s("match")));
                o.push(("src", J::s(format!("{:?}", src).split('(').next().unwrap_or("").to_string())));
                let st = self.tr.expr_ty(scrut);
                o.push(("sty", self.cx.ty(st)));
                o.push(("e", self.expr(scrut)));
                let mut aj = Vec::new();
                for a in arms.iter() {
                    let mut ao: Vec<(&'static str, J)> = Vec::new();
                    ao.push(("pat", self.pat(a.pat)));
                    if let Some(g) = a.guard {
                        ao.push(("guard", self.expr(g)));
                    }
                    ao.push(("body", self.expr(a.body)));
                    ao.push(("ln", self.cx.line(a.span)));
                    aj.push(J::Obj(ao));
                }
                o.push(("arms", J::Arr(aj)));
            }
            Closure(c) => {
                o.push(("k", J::s("closure")));
                o.push(("def", J::s(self.cx.path(c.def_id.to_def_id()))));
                o.push(("move", J::Bool(matches!(c.capture_clause, hir::CaptureBy::Value { .. }))));
                let body = tcx.hir_body(c.body);
                let params: Vec<J> = body.params.iter().map(|p| self.pat(p.pat)).collect();
                o.push(("params", J::Arr(params)));
                // captures
                let mut caps = Vec::new();
                for cap in self.tr.closure_min_captures_flattened(c.def_id) {
                    let pty = cap.place.ty();
                    let base = match cap.place.base {
                        rustc_middle::hir::place::PlaceBase::Upvar(u) => {
                            let hid = u.var_path.hir_id;
                            (tcx.hir_name(hid).to_string(), hid.local_id.as_u32() as i64)
                        }
                        _ => ("?".into(), -1),
                    };
                    let mode = match cap.info.capture_kind {
                        ty::UpvarCapture::ByValue => "value",
                        ty::UpvarCapture::ByUse => "use",
                        ty::UpvarCapture::ByRef(bk) => match bk {
                            ty::BorrowKind::Immutable => "ref",
                            _ => "refmut",
                        },
                    };
                    caps.push(J::Obj(vec![
                        ("name", J::s(base.0)),
                        ("id", J::n(base.1)),
                        ("nproj", J::n(cap.place.projections.len())),
                        ("mode", J::s(mode)),
                        ("ty", self.cx.ty(pty)),
                    ]));
                }
                o.push(("caps", J::Arr(caps)));
                o.push(("body", self.expr(body.value)));
            }
            Block(b, _) => return self.block(b),
            Assign(l, r, _) => {
                o.push(("k", J::s("assign")));
                o.push(("l", self.expr(l)));
                o.push(("r", self.expr(r)));
            }
            AssignOp(op, l, r) => {
                o.push(("k", J::s("assignop")));
                o.push(("op", J::s(op.node.as_str())));
                o.push(("l", self.expr(l)));
                o.push(("r", self.expr(r)));
            }
            Field(x, id) => {
                o.push(("k", J::s("field")));
                o.push(("name", J::s(id.name.to_string())));
                let bt = self.tr.expr_ty_adjusted(x);
                o.push(("bty", self.cx.ty(bt)));
                o.push(("e", self.expr(x)));
            }
            Index(x, i, _) => {
                o.push(("k", J::s("index")));
                o.push(("ovl", J::Bool(self.tr.is_method_call(e))));
                let bt = self.tr.expr_ty_adjusted(x);
                o.push(("bty", self.cx.ty(bt)));
                o.push(("e", self.expr(x)));
                o.push(("i", self.expr(i)));
            }
            Path(ref qp) => {
                o.push(("k", J::s("path")));
                let res = self.tr.qpath_res(qp, e.hir_id);
                self.res_def(res, &mut o);
            }
            AddrOf(_, m, x) => {
                o.push(("k", J::s("addrof")));
                o.push(("mut", J::Bool(m.is_mut())));
                o.push(("e", self.expr(x)));
            }
            Break(_, x) => {
                o.push(("k", J::s("break")));
                if let Some(x) = x {
                    o.push(("e", self.expr(x)));
                }
            }
            Continue(_) => o.push(("k", J::s("continue"))),
            Ret(x) => {
                o.push(("k", J::s("ret")));
                if let Some(x) = x {
                    o.push(("e", self.expr(x)));
                }
            }
            Become(x) => {
                o.push(("k", J::s("become")));
                o.push(("e", self.expr(x)));
            }
            InlineAsm(_) => o.push(("k", J::s("asm"))),
            OffsetOf(..) => o.push(("k", J::s("offsetof"))),
            Struct(qp, fields, tail) => {
                o.push(("k", J::s("struct")));
                let res = self.tr.qpath_res(qp, e.hir_id);
                self.res_def(res, &mut o);
                let fj: Vec<J> = fields
                    .iter()
                    .map(|f| {
                        J::Obj(vec![
                            ("name", J::s(f.ident.name.to_string())),
                            ("short", if f.is_shorthand { J::Bool(true) } else { J::Null }),
                            ("e", self.expr(f.expr)),
                        ])
                    })
                    .collect();
                o.push(("fields", J::Arr(fj)));
                if let hir::StructTailExpr::Base(b) = tail {
                    o.push(("base", self.expr(b)));
                }
            }
            Repeat(x, _) => {
                o.push(("k", J::s("repeat")));
                o.push(("e", self.expr(x)));
            }
            Yield(x, _) => {
                o.push(("k", J::s("yield")));
                o.push(("e", self.expr(x)));
            }
            UnsafeBinderCast(_, x, _) => return self.expr(x),
            Err(_) => o.push(("k", J::s("err"))),
        }
        let t = self.tr.expr_ty(e);
        o.push(("ty", self.cx.ty(t)));
        o.push(("s", self.cx.span(e.span)));
        o.push(("ln", self.cx.line(e.span)));
        o.push(("m", self.cx.mac(e.span)));
        J::Obj(o)
    }
}

fn lit_str(l: &hir::Lit) -> String {
    use rustc_ast::LitKind::*;
    match &l.node {
        Str(s, _) => format!("s:{}", s),
        ByteStr(b, _) => {
            // format_args! templates are lowered to byte strings: keep the printable part
            let txt: String = b
                .as_byte_str()
                .iter()
                .map(|c| if (0x20..0x7f).contains(c) { *c as char } else { '\u{b7}' })
                .collect();
            format!("bs:{}", txt)
        }
        CStr(..) => "bytes".into(),
        Byte(b) => format!("b:{}", b),
        Char(c) => format!("c:{}", c),
        Int(n, _) => format!("i:{}", n),
        Float(s, _) => format!("f:{}", s),
        Bool(b) => format!("bool:{}", b),
        Err(_) => "err".into(),
    }
}

fn main() {
    let mut args: Vec<String> = std::env::args().collect();
    // RUSTC_WORKSPACE_WRAPPER passes the real rustc path as argv[1]
    if args.len() > 1 && (args[1].ends_with("rustc") || args[1].contains("/rustc")) {
        args.remove(1);
    }
    let mut cb = Cb;
    rustc_driver::run_compiler(&args, &mut cb);
}
