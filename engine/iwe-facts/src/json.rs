//! Minimal JSON value + serialiser (the driver has zero Cargo dependencies).

pub enum J {
    Null,
    Bool(bool),
    Num(i64),
    Str(String),
    Arr(Vec<J>),
    Obj(Vec<(&'static str, J)>),
}

impl J {
    pub fn s<S: Into<String>>(s: S) -> J {
        J::Str(s.into())
    }
    pub fn n<N: TryInto<i64>>(n: N) -> J {
        J::Num(n.try_into().unwrap_or(-1))
    }
    pub fn write(&self, out: &mut String) {
        match self {
            J::Null => out.push_str("null"),
            J::Bool(b) => out.push_str(if *b { "true" } else { "false" }),
            J::Num(n) => out.push_str(&n.to_string()),
            J::Str(s) => write_str(s, out),
            J::Arr(v) => {
                out.push('[');
                for (i, x) in v.iter().enumerate() {
                    if i > 0 {
                        out.push(',');
                    }
                    x.write(out);
                }
                out.push(']');
            }
            J::Obj(v) => {
                out.push('{');
                let mut first = true;
                for (k, x) in v.iter() {
                    if let J::Null = x {
                        continue;
                    }
                    if !first {
                        out.push(',');
                    }
                    first = false;
                    write_str(k, out);
                    out.push(':');
                    x.write(out);
                }
                out.push('}');
            }
        }
    }
}

fn write_str(s: &str, out: &mut String) {
    out.push('"');
    for c in s.chars() {
        match c {
            '"' => out.push_str("\\\""),
            '\\' => out.push_str("\\\\"),
            '\n' => out.push_str("\\n"),
            '\r' => out.push_str("\\r"),
            '\t' => out.push_str("\\t"),
            c if (c as u32) < 0x20 => out.push_str(&format!("\\u{:04x}", c as u32)),
            c => out.push(c),
        }
    }
    out.push('"');
}
