#!/usr/bin/env python3
"""Regenerates /verif/MANIFEST.json from the table below (kept in one place so it stays valid)."""
import json
import os

VERIF = os.path.dirname(os.path.dirname(os.path.abspath(__file__)))

TRUST = ("Decides the named structural clauses (necessary conditions of the property), not the full behaviour. Trusted: rustc's "
         "type checker / HIR / MIR / Instance::try_resolve; dependencies (pulldown-cmark, url, relative-path, rayon, crossbeam, "
         "lsp-server) are outside the analysed set.")

CLAIMED = {
    "C01": ("match-arm coverage tables (reader / stage-to-stage forwarding / sibling-walk reachability) joined with ADT field tables; sibling-printer agreement",
            "A construct is lost for *every* document containing it iff some stage of the five-stage pipeline has no forwarding arm for it, drops a "
            "payload field, or stops walking siblings; those are shape facts decided per enum variant. Word-for-word preservation is not decided.", "§4 C01"),
    "C03": ("call-graph reachability + audited panic-site inventory (MIR asserts / panicking calls / unwrap-expect with local guard discharge) + recursion (SCC) inventory",
            "Over-approximate 'cannot panic / cannot diverge': every panicking construct and every recursion cycle reachable from the input-facing roots "
            "is either discharged by an enumerated local guard idiom or listed in an audited table (invariant / guarded / finding); a new reachable "
            "site is reported. Complexity and dependency internals are not decided.", "§4 C03"),
    "C04": ("who-may-call over resolved callees, match-arm x field-table join, insert/remove edge pairing, MIR dominance (must-pass-through)",
            "Static rules over the compiler's typed HIR/MIR for the five kinds of state that survive an update (tombstones, merge-only "
            "index, per-key caches, Database.paths/content, arena ids): raw index reads outside the filtering wrappers, holes in the "
            "index walker, caches without a remove edge, the update protocol's order/dominance, push-only arena. Each is a necessary "
            "condition tied to one kind of stale state; equality of all answers with a fresh build is not decided.", "§4 C04"),
    "C05": ("index-walker arm table + argument-provenance rule for key construction (who-may-call with provenance) + sibling agreement on the internal/external decision",
            "Backlinks are wrong for every library containing the construct when the walker skips a node kind, when a link url is turned "
            "into a key without the linking note's directory, when reader/graph/writer disagree on what a reference is, or when a handler "
            "reads the wrong reference kind: all four are decided from the code's shape. Set equality with an independent scan is not decided.", "§4 C05"),
    "C06": ("match-arm classification (kind -> text class) with sibling agreement across three sites + positional provenance of rebuilt links",
            "Which text a link gets is chosen per link kind at three sites, and destinations are rebuilt at three sites; the rules decide that the "
            "three kind tables agree and that url/title/kind are positional copies (never computed), that the extension is appended only for "
            "references, and that the title is the first heading. Final link texts for every library are not decided.", "§4 C06"),
    "C07": ("constructor-correspondence chain (ordered/bullet) across 8 sites + argument classes of the recursive heading-level walk",
            "Thin: list kind is carried by a chain of same-shaped match arms (a crossed pair compiles), and heading level = nesting depth + 1 "
            "is visible as the argument class {same, +1, reset 0} of each recursive projector call. The splitter's range arithmetic is not decided.", "§4 C07"),
    "C08": ("MIR dominance of the taken-name guard + provenance of affected set / new key + match-arm x field-table join for change_key",
            "Rename is wrong for every library with the construct when the guard does not dominate the edit, when a referrer kind is missing from "
            "the affected set, when a node kind holding links is not rewritten, or when two derivations of the new key differ.", "§4 C08"),
    "C09": ("provenance of created keys (fresh-name source) + tree-rewrite shape rules (filter-one / insert-one) + render-directory rule",
            "Thin: every created/extracted key comes from random_key(parent of the source), whose accepting branch tests freshness of the same "
            "candidate; extract/inline rewrites remove exactly the target and insert exactly one replacement. Conservation of text is not decided.", "§4 C09"),
    "C10": ("finite arm->constructor map (involution check) + guarded-rewrite shape of the tree transformers",
            "Thin: change_list_type's arm map composed with itself is the identity; rewrites are guarded by id_eq(target) with map_children on the "
            "other edge and map_children is order/length preserving. Markdown-level invertibility is not decided.", "§4 C10"),
    "C11": ("ownership/effect rule over typed HIR (fallible exclusivity probe on thread-shared state) + call-graph panic inventory + who-may-construct",
            "The property fails for a schedule iff the notification path can observe other owners of the server state and then drop the "
            "message; that is visible in the code's shape: a fallible probe (Arc::get_mut ...) on a value whose clone is moved into a "
            "spawned worker, panics below on_notification (caught and dropped by Router::run), or a second copy of the state.", "§4 C11"),
    "C12": ("MIR must-pass-through (every path of the dispatcher to return passes exactly one respond) + unwind-guard presence + dispatch-arm agreement + panic inventory outside the guard",
            "Exactly-one-response is a path property of the dispatcher's CFG; 'a worker panic becomes an error response' is the presence of a "
            "catch_unwind whose Err edge reaches respond; sibling dispatch arms must share the deserialize->handle->serialize shape.", "§4 C12"),
    "C13": ("provenance rule for the line table (must derive from terminator byte offsets) + unit discipline at the LSP boundary (who-may-construct Position) + line plumbing provenance",
            "Positions are wrong for every CRLF / non-ASCII document when line starts are derived from lines()+1 or when byte columns cross the "
            "LSP boundary without a UTF-16 conversion; both are shape facts. Column arithmetic of individual spans is not decided.", "§4 C13"),
    "C14": ("who-may-call with argument classification (repeated-pattern trim APIs on path/url/key strings) + sibling agreement of url constructors + decode/encode pairing",
            "trim_*_matches with a multi-char pattern strips all repetitions (a.md.md -> a); url->key must decode what key->url encodes; the url "
            "constructors must agree. Behaviour of the url crate for every file name is not decided.", "§4 C14"),
    "C15": ("render-directory provenance rule (every produced text for key K is relativised against K.parent())",
            "Thin: the one shape fact behind the law - each site that renders text for a note passes that note's own directory. The path algebra "
            "law of relative-path is not decided.", "§4 C15"),
    "C16": ("hash-order taint analysis (interprocedural fixpoint over typed HIR) + rayon chain discipline + confinement of explicit nondeterminism (who-may-call)",
            "Nondeterminism has three sources in this code base (hash-ordered iteration, rayon, explicit randomness/fs order), all visible as calls; "
            "every source's fate is computed and must be an order-insensitive sink or an audited entry. Near-complete for the observables named.", "§4 C16"),
    "C17": ("classification of recursive calls (structural vs cross-note by pointer provenance) + guarded strictly-decreasing counter rule + dead-alternative who-may-call",
            "Termination on cyclic reference graphs holds iff every cross-note recursive step passes depth-c (c>=1) under a positive-depth guard; "
            "that is decided on the recursive calls of Tree::squash_from_pointer. The expansion equation is not decided.", "§4 C17"),
    "C18": ("typestate of the visited set on the statement order of paths_for_node + arm table + comparator operand provenance + chain shape (sort before take(100))",
            "The cycle guard, the two step kinds, the tombstone filter, the documented search order/limit and the name rendering are shape facts; "
            "completeness/soundness of the listing for every library is not decided.", "§4 C18"),
    "C19": ("who-may-call over mutating std::fs APIs + write-then-rename must-pass-through + reader/writer suffix agreement + error propagation",
            "A damaged file is possible for every write failure when the final path is written in place; nothing else is touched iff no other fs "
            "mutator is reachable from normalize. OS failure semantics are trusted.", "§4 C19"),
    "C20": ("who-may-call (linking primitives), argument provenance at every node construction, accessor x field-table agreement, statement-order rule for tombstoning",
            "Forest well-formedness is maintained by very little code (accessors, five linking fns, arena, privacy); each syntactic premise of "
            "the inductive step is decided. The induction over histories is not.", "§4 C20"),
}

NOT_APPLICABLE = {
    "C02": "Fixpoint of formatting is a relation between the writer's emitted bytes and pulldown-cmark's grammar on those bytes (escaping, lazy continuation, tight/loose lists, marker widths): no dataflow/typestate/exhaustiveness rule over iwe's source bounds it, and pinning today's literals would be a frozen-fragment proxy. Its only structural ingredient (determinism) is decided under C16.",
}

READY = {"C01", "C07", "C08", "C09", "C10", "C03", "C04", "C05", "C06", "C11", "C12", "C13", "C14", "C15", "C16", "C17", "C18", "C19", "C20"}

PENDING = "rules for this property are being built in this session (see DESIGN.md §4); not claimed until the check exists"


def main():
    checks = []
    for pid in sorted(READY):
        tech, text, ref = CLAIMED[pid]
        checks.append({
            "property_id": pid,
            "quick_cmd": "./check %s --tier quick" % pid,
            "thorough_cmd": "./check %s --tier thorough" % pid,
            "evidence_file": "/verif/evidence/%s.json" % pid,
            "replay_cmd_template": "./check %s --replay {path}" % pid,
            "engine": "iwe-facts + rules/%s.py" % pid.lower(),
            "level_claimed": {"category": "other", "text": text, "design_ref": "DESIGN.md " + ref},
            "level_note": TRUST,
            "technique": "static analysis: " + tech,
        })
    na = []
    for i in range(1, 21):
        pid = "C%02d" % i
        if pid in READY:
            continue
        na.append({"property_id": pid, "reason": NOT_APPLICABLE.get(pid, PENDING)})
    m = {
        "version": 1,
        "setup_cmd": "cd /verif/engine/iwe-facts && CARGO_NET_OFFLINE=true cargo build --offline --release && cd /verif && python3 vlib/build_facts.py",
        "hooks": {
            "guard": "iwe_org_iwe_verif",
            "enable": "none needed: static analysis reads the source as it is (no instrumentation in /repo)",
            "baseline_off_cmd": "cd /repo && cargo test --workspace --no-fail-fast --offline",
            "source_commits": [],
            "add_only": True,
        },
        "engines": [
            {"name": "iwe-facts", "path": "/verif/engine/iwe-facts", "serves_properties": sorted(READY),
             "kind_free_text": "nightly rustc_private driver (RUSTC_WORKSPACE_WRAPPER under cargo +nightly check): typed HIR expression trees, mini-MIR CFG with resolved callees, ADT/impl/visibility tables -> JSON facts, content-hash cached"},
            {"name": "rules", "path": "/verif/rules", "serves_properties": sorted(READY),
             "kind_free_text": "python3 (stdlib) rule scripts over the fact base: who-may-call, match-arm tables, provenance, dominance / must-pass-through, audited inventories with floors and a known-findings protocol"},
        ],
        "checks": checks,
        "not_applicable": na,
        "notes": "Technique family: static analysis only. Every check rebuilds its facts from /repo's current working tree (content-addressed cache under /verif/.cache). Genuine defects found are either repaired in /repo ('fix:' commits) or listed in /verif/known_findings.json.",
    }
    with open(os.path.join(VERIF, "MANIFEST.json"), "w") as fh:
        json.dump(m, fh, indent=1)
    print("MANIFEST.json: %d checks, %d not_applicable" % (len(checks), len(na)))


if __name__ == "__main__":
    main()
