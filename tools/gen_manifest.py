#!/usr/bin/env python3
"""Regenerates /verif/MANIFEST.json from the table below (kept in one place so it stays valid)."""
import json
import os

VERIF = os.path.dirname(os.path.dirname(os.path.abspath(__file__)))

TRUST = ("Decides the named structural clauses (necessary conditions of the property), not the full behaviour. Trusted: rustc's "
         "type checker / HIR / MIR / Instance::try_resolve; dependencies (pulldown-cmark, url, relative-path, rayon, crossbeam, "
         "lsp-server) are outside the analysed set.")

CLAIMED = {
    "C04": ("custom rustc_private driver facts + who-may-call, match-arm x field-table join, insert/remove edge pairing, MIR dominance (must-pass-through)",
            "Static rules over the compiler's typed HIR/MIR for the five kinds of state that survive an update (tombstones, merge-only "
            "index, per-key caches, Database.paths/content, arena ids): raw index reads outside the filtering wrappers, holes in the "
            "index walker, caches without a remove edge, the update protocol's order/dominance, push-only arena. Each is a necessary "
            "condition tied to one kind of stale state; equality of all answers with a fresh build is not decided.", "§4 C04"),
    "C11": ("ownership/effect rule over typed HIR (fallible exclusivity probe on thread-shared state) + call-graph panic inventory + who-may-construct",
            "The property fails for a schedule iff the notification path can observe other owners of the server state and then drop the "
            "message; that is visible in the code's shape: a fallible probe (Arc::get_mut ...) on a value whose clone is moved into a "
            "spawned worker, panics below on_notification (caught and dropped by Router::run), or a second copy of the state.", "§4 C11"),
}

NOT_APPLICABLE = {
    "C02": "Fixpoint of formatting is a relation between the writer's emitted bytes and pulldown-cmark's grammar on those bytes (escaping, lazy continuation, tight/loose lists, marker widths): no dataflow/typestate/exhaustiveness rule over iwe's source bounds it, and pinning today's literals would be a frozen-fragment proxy. Its only structural ingredient (determinism) is decided under C16.",
}

READY = {"C04"}

PENDING = "rules for this property are being built in this session (see DESIGN.md §4); not claimed until the check exists"


def main():
    checks = []
    for pid in sorted(READY):
        tech, text, ref = CLAIMED[pid]
        checks.append({
            "property_id": pid,
            "quick_cmd": "./check %s --tier quick" % pid,
            "thorough_cmd": "./check %s --tier thorough" % pid,
            "evidence_file": "/verif/evidence/%s.json" % pid,
            "replay_cmd_template": "./check %s --replay {path}" % pid,
            "engine": "iwe-facts + rules/%s.py" % pid.lower(),
            "level_claimed": {"category": "other", "text": text, "design_ref": "DESIGN.md " + ref},
            "level_note": TRUST,
            "technique": "static analysis: " + tech,
        })
    na = []
    for i in range(1, 21):
        pid = "C%02d" % i
        if pid in READY:
            continue
        na.append({"property_id": pid, "reason": NOT_APPLICABLE.get(pid, PENDING)})
    m = {
        "version": 1,
        "setup_cmd": "cd /verif/engine/iwe-facts && CARGO_NET_OFFLINE=true cargo build --offline --release && cd /verif && python3 vlib/build_facts.py",
        "hooks": {
            "guard": "iwe_org_iwe_verif",
            "enable": "none needed: static analysis reads the source as it is (no instrumentation in /repo)",
            "baseline_off_cmd": "cd /repo && cargo test --workspace --no-fail-fast --offline",
            "source_commits": [],
            "add_only": True,
        },
        "engines": [
            {"name": "iwe-facts", "path": "/verif/engine/iwe-facts", "serves_properties": sorted(READY),
             "kind_free_text": "nightly rustc_private driver (RUSTC_WORKSPACE_WRAPPER under cargo +nightly check): typed HIR expression trees, mini-MIR CFG with resolved callees, ADT/impl/visibility tables -> JSON facts, content-hash cached"},
            {"name": "rules", "path": "/verif/rules", "serves_properties": sorted(READY),
             "kind_free_text": "python3 (stdlib) rule scripts over the fact base: who-may-call, match-arm tables, provenance, dominance / must-pass-through, audited inventories with floors and a known-findings protocol"},
        ],
        "checks": checks,
        "not_applicable": na,
        "notes": "Technique family: static analysis only. Every check rebuilds its facts from /repo's current working tree (content-addressed cache under /verif/.cache). Genuine defects found are either repaired in /repo ('fix:' commits) or listed in /verif/known_findings.json.",
    }
    with open(os.path.join(VERIF, "MANIFEST.json"), "w") as fh:
        json.dump(m, fh, indent=1)
    print("MANIFEST.json: %d checks, %d not_applicable" % (len(checks), len(na)))


if __name__ == "__main__":
    main()
