#!/usr/bin/env python3
"""Regenerates the generated part of DESIGN.md (between the BEGIN/END GENERATED markers) from the evidence files,
known_findings.json and seeded/*/meta.json, so that the tables in DESIGN.md always describe the committed machinery."""
import glob, json, os, re
V = os.path.dirname(os.path.dirname(os.path.abspath(__file__)))
BEGIN, END = "<!-- BEGIN GENERATED STATUS -->", "<!-- END GENERATED STATUS -->"
out = []
out.append("## G1. Rules as implemented (from the evidence of the last run on /repo)\n")
out.append("Instance counts are measured by the checks; `kf` = matched known findings.\n")
for p in sorted(glob.glob(os.path.join(V, "evidence", "C*.json"))):
    e = json.load(open(p))
    c = e["coverage"]
    out.append("### %s — %d rule instances, %d discharged, %d known findings, %d undecided (%d fns analysed)\n" % (
        e["property_id"], c["obligations"], c["discharged"], c.get("known_findings_matched", 0), c.get("undecided", 0), c.get("functions_analysed", 0)))
    out.append("| rule | instances (ok / kf / other) | what it decides |")
    out.append("|---|---|---|")
    for rid in sorted(c["rules"], key=lambda r: [int(x) if x.isdigit() else x for x in re.split(r"(\d+)", r)]):
        pr = c["per_rule"].get(rid, {})
        txt = c["rules"][rid].replace("|", "\\|")
        out.append("| %s | %d / %d / %d | %s |" % (rid, pr.get("ok", 0), pr.get("known-finding", 0), pr.get("violation", 0) + pr.get("undecided", 0), txt))
    out.append("")
k = json.load(open(os.path.join(V, "known_findings.json")))
out.append("## G2. Genuine defects found on the pinned tree\n")
out.append("### Repaired in /repo (one unguarded `fix:` commit each; the unedited suite passes with each)\n")
for f in k["fixed"]:
    out.append("* " + f.replace("fixed: ", ""))
out.append("\n### Recorded, not repaired (known_findings.json; suppressed by exact key only)\n")
seen = {}
for f in k["findings"]:
    seen.setdefault(f["what"], []).append(f)
for what, fs in seen.items():
    out.append("* **%s** — keys: %s" % (what, "; ".join("`%s`" % x["key"] for x in fs)))
    out.append("  * failing input: %s" % fs[0]["input"])
    out.append("  * why not repaired: %s" % fs[0]["why_not_fixed"])
out.append("\n## G3. Seeded breaking changes and which checks report them\n")
out.append("| id | property | change (author's title) | reported by |")
out.append("|---|---|---|---|")
for m in sorted(glob.glob(os.path.join(V, "seeded", "*", "meta.json"))):
    d = json.load(open(m))
    cb = d.get("caught_by")
    fires = ", ".join(cb["checks_that_report_it"]) if isinstance(cb, dict) else "?"
    rnd = d.get("round", 1)
    out.append("| %s | %s | %s | %s |" % (d["id"], d["property"], d["title"].replace("|", "/")[:110], fires))
out.append("")
s = open(os.path.join(V, "DESIGN.md")).read()
gen = BEGIN + "\n\n" + "\n".join(out) + "\n" + END
if BEGIN in s:
    s = s[:s.index(BEGIN)] + gen + s[s.index(END) + len(END):]
else:
    s = s.rstrip("\n") + "\n\n" + gen + "\n"
open(os.path.join(V, "DESIGN.md"), "w").write(s)
print("DESIGN.md regenerated (%d lines generated)" % len(out))
