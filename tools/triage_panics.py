#!/usr/bin/env python3
"""Produces tables/panics.json: the audited classification of every panic site found on the pinned tree.

This is a *maintenance tool*, not part of a check: the checks read the exact-key JSON it writes.  The patterns below encode the
reading that was done for each group of sites; a site that matches no pattern is printed and left out of the table (the check will
then report it as a new site).  Classes: invariant / guarded / benign / finding  (see rules/panics.py).
"""
import json
import os
import re
import sys

VERIF = os.path.dirname(os.path.dirname(os.path.abspath(__file__)))
sys.path.insert(0, VERIF)
from vlib import build_facts, factbase as fb  # noqa: E402
from rules import panics  # noqa: E402

STARTUP = "startup / environment (log file, cwd, config file, client handshake): independent of note content and of request values"
CONFIG = "configuration error (models / actions / templates in .iwe/config.toml), independent of note content and request values; inside a request it is answered with an error response (C12-R2)"
LLM = "external LLM service / its environment (api key, network, response shape); only reached by custom actions and the generate command"
ARENA = "C20 invariant: node/line ids handed out by the arena are positions < len, ids are never reused (C04-R5) and the builder only addresses nodes it created"
LIVE = "C20 invariant: the id comes from the graph structure itself (keys map / child / next / prev links / tombstone-filtered index), which only names live nodes"
CLIENT = "value supplied by the client in a request (unknown URI, stale or foreign code-action object, malformed command arguments), not note content: C12's quantifier; the handler runs under catch_unwind and the request is answered with an error response (C12-R2)"
BALANCED = "pulldown-cmark emits balanced Start/End events and inline events only inside a block; the reader's push/pop pairing per tag is checked by C03-R3"
ONE = "the callee returns `vec![..]` with exactly one element on every path"
USIZE1 = "usize/u32 counter + small constant: overflow would need 2^32..2^64 elements; debug-only assert (release wraps)"
TREEIDS = "the id was taken from this same tree / from nodes_map of the same note a moment earlier (same immutable snapshot)"

# (fn regex, kind regex, origin regex) -> (class, reason [, {prop: (class, reason)}])
RULES = [
    (r"^iwes?::main$|^iwe::get_library_path$|^iwe::get_configuration|^iwes::main_loop$|^iwe::init_command|^iwe::(load_graph|write_graph)", r".*", r".*", ("benign", STARTUP)),
    (r"all_action_types$", r"expect", r".*", ("benign", CONFIG)),
    (r"default_model$", r"unwrap", r".*", ("benign", CONFIG)),
    (r"llm::templates::block_action_prompt$", r"unwrap|expect", r".*", ("benign", CONFIG)),
    (r"llm::templates::block_action_prompt$", r"std-panicking-call", r"Vec::insert", ("invariant", "Vec::insert(0, _) is always in bounds")),
    (r"llm::apply_prompt$", r".*", r".*", ("benign", LLM)),
    (r"llm_query$", r"expect", r"fs::write", ("benign", "debug dump of the prompt under ./.iwe, only when that directory exists; environment, not content")),
    (r"UpdateBlockAction as .*>::changes$", r"unwrap", r"Graph::maybe_key", ("invariant", "the key \"new\" was inserted into the patch graph by from_markdown on the line above")),
    (r"SectionExtract::extract$", r"unwrap", r"slice::first", ("invariant", ONE)),
    (r"SectionExtract::extract_rec$", r"std-panicking-call", r"Vec::insert", ("guarded", "insert position = number of leading non-section children; the removed child is a section (changes() is guarded by tree.is_header(target)), so the filtered vector still has at least that many elements")),
    (r"SectionExtract::extract_rec$", r"expect", r"Tree::find", ("guarded", "parent_id comes from get_surrounding_section_id(extract_id), i.e. extract_id is a child of this tree node")),
    (r"SubSectionsExtract as .*>::changes$", r"unwrap", r"Tree\.id", ("invariant", "trees collected from the graph carry Some(id) on every node (Tree::from_pointer)")),
    (r"SubSectionsExtract as .*>::changes$", r"expect", r"Tree::find", ("invariant", TREEIDS)),
    (r"ListChangeType as .*>::action$", r"unwrap", r"Option::map", ("invariant", TREEIDS)),
    (r"identifier_to_action_kind$", r"unwrap", r"Mutex::lock", ("benign", "poisoning needs a panic inside the critical section, which only does HashMap::entry/or_insert_with/clone")),
    (r"command::CommandType::from_string$|command::Command::from_params$", r".*", r".*", ("benign", CLIENT)),
    (r"RangeExt>::", r"arith", r".*", ("benign", USIZE1 + " (line = u32::MAX from the client)")),
    (r"nested_render$", r"unwrap", r".*", ("guarded", "callers drop_first() only paths with more than one id (handle_document_symbols filters ids().len() > 1), so ids() is non-empty")),
    (r"to_nested_symbol$|path_to_symbol$", r"arith", r".*", ("benign", USIZE1)),
    (r"BasePath::(key_to_url|relative_to_full_path|name_to_url|file_url)$", r"unwrap|expect", r".*", ("guarded", "the base is a fixed hierarchical file:// url built at startup; Url::join / parse on such a base only fails on authority (host/port) syntax, which needs a leading `//` that RelativePath normalisation and the fixed `file://…/` prefix rule out (C14's domain, not note content)")),
    (r"Server::handle_did_change_text_document$", r"unwrap", r"slice::first", ("benign", "an empty contentChanges array carries no edit (FULL sync sends exactly one change); nothing is lost when it is dropped")),
    (r"Router::on_notification$", r"unwrap", r"Deserialize::deserialize", ("benign", "malformed notification params: not a well-typed edit notification")),
    (r"Server::handle_plus_completions$", r"unwrap", r"serde_json::to_value", ("benign", "serialising a struct of three Strings cannot fail")),
    (r"Server::handle_document_formatting$", r"unwrap", r"Graph::export_key", ("invariant", "Graph::export_key always returns Some")),
    (r"Server::handle_rename$", r"expect", r"Graph::export_key", ("invariant", "Graph::export_key always returns Some (the failing site for a missing key is GraphContext::collect)")),
    (r"Server::handle_code_action_resolve$", r"unwrap", r".*", ("benign", CLIENT)),
    (r"Router::send$", r"unwrap", r"Sender::send", ("benign", "the outgoing channel is closed only when the client / IO thread is gone: nobody is left to answer")),
    (r"Router::(on_request|handle_request)$", r"unwrap", r"serde_json::to_value", ("benign", "serialising lsp_types response structs to a serde_json::Value cannot fail (string keys only); in handle_request it additionally runs under catch_unwind")),
    (r"Database::global_search$", r"explicit-assert_eq", r".*", ("invariant", "assertion on constants (\"abc\" vs \"abx\")")),
    (r"liwe::fs::new_for_path_rec$", r"unwrap", r".*", ("benign", "startup directory scan: unreadable directory / non-UTF-8 directory name; file-system state, not note content")),
    (r"liwe::fs::to_file_name$|Key::from_path$", r"unwrap", r"Path::file_name", ("invariant", "paths produced by read_dir always have a file name")),
    (r"arena::Arena::(node|get_line|delete_branch|node_mut)$", r"index", r".*", ("invariant", ARENA, {"C12": ("benign", CLIENT)})),
    (r"arena::Arena::set_node$", r"index", r".*", ("guarded", "else-branch of `if id >= self.nodes.len()`")),
    (r"arena::Arena::node_mut$", r"explicit-panic", r".*", ("invariant", "the builder cursor is always a live node it created in the same build")),
    (r"arena::Arena as std::cmp::PartialEq>::eq$", r"index", r".*", ("guarded", "lengths are compared before the loops")),
    (r"GraphBuilder::to_parent$", r"unwrap", r".*", ("invariant", "only called on non-root cursors (test helper API)")),
    (r"GraphBuilder::add_new_node_and$", r"explicit-panic", r".*", ("invariant", "Node::Document occurs only as a tree root, which insert_from_iter/append_from_visitor unwrap before calling add_new_node_and")),
    (r"GraphBuilder::(append_from_visitor|insert_from_iter)$", r"unwrap", r"NodeIter::child", ("guarded", "reached with TreeIter / a freshly built document: TreeIter::child() is Some whenever node() is Some; a GraphNodePointer document root with no child is not passed here (collect() goes through Tree)")),
    (r"graph_node::GraphNode::(id|next_id)$", r"explicit-panic", r".*", ("invariant", "called only on live nodes: import indexes a fresh arena, graph_to_paths filters Empty first, delete_branch walks a live tree once", {"C12": ("benign", CLIENT)})),
    (r"graph_node::GraphNode::(set_next_id|set_child_id)$", r"explicit-panic", r".*", ("invariant", "the builder links a child only when the cursor is insertable() (has a child field) and a next only on non-root cursors (C20-R2/R3)")),
    (r"graph_node::GraphNode::ref_text$", r"explicit-panic", r".*", ("invariant", "no caller outside tests")),
    (r"path::NodePath::(target|first_id|last_id)$", r"unwrap", r".*", ("invariant", "paths handed out by graph_to_paths are non-empty (empty ones are filtered before first_id is used)")),
    (r"path::NodePath::drop_first$", r"std-panicking-call", r".*", ("guarded", "handle_document_symbols filters ids().len() > 1 before drop_first")),
    (r"path::graph_to_paths$", r"unwrap", r"NodePointer::to_parent", ("invariant", "the first id of a path is a Section, which always has a parent")),
    (r"path::paths_for_node$", r"unwrap", r"NodePointer::id", ("invariant", "GraphNodePointer::id() is always Some")),
    (r"SectionsBuilder::process_blocks$", r"index", r".*", ("invariant", "ranges handed to process_blocks/process_section are sub-ranges of 0..content.len() (0..len at the root, start+1..end below)")),
    (r"SectionsBuilder::process_section$", r"index", r".*", ("guarded", "after `if range.is_empty() { return }`, and range is a sub-range of 0..blocks.len()")),
    (r"SectionsBuilder::process_section$", r"arith", r".*", ("benign", USIZE1)),
    (r"SectionsBuilder::(section_block|block)$", r"unwrap", r"slice::first", ("invariant", "DocumentBlock::Div is never produced by the reader")),
    (r"SectionsBuilder::section_block$", r"explicit-panic", r".*", ("finding", "a list item whose first block is a code block, quote, table, rule or raw block reaches the fall-through panic! (e.g. `- > q`): loading or updating such a note panics (D8)")),
    (r"SectionsBuilder::block$", r"unwrap", r"DocumentBlock::(url|ref_text|ref_type)", ("guarded", "inside `if block.is_ref()`, which requires exactly one inline that is a link")),
    (r"SectionsBuilder::block$", r"explicit-panic", r".*", ("invariant", "block() is only applied to the pre-header range, which by construction ends at the first Header")),
    (r"sections_builder::ranges$", r"arith|index", r".*", ("guarded", "after `if positions.is_empty() { return }`: len-1 does not underflow and i, i+1 <= len-1")),
    (r"sections_builder::(first_header_level|first_header)$", r"index", r".*", ("invariant", "the range is a sub-range of 0..content.len()")),
    (r"squash_iter::SquashIter", r".*", r".*", ("benign", "SquashIter is never constructed (C17-R2 keeps SquashIter::new caller-free); reachable only through the trait fan-out of the call graph")),
    (r"Graph::node_key$", r"expect", r".*", ("invariant", LIVE, {"C12": ("benign", CLIENT)})),
    (r"Graph::get_document_id$", r"expect", r".*", ("invariant", "called by extract_ref_text right after the key was registered by build_key")),
    (r"Graph::node_fmt$", r"arith", r".*", ("benign", "Debug output only")),
    (r"Graph::get_block_references_in$", r"expect", r".*", ("benign", CLIENT)),
    (r"GraphPatch>::add_key$", r"expect", r".*", ("invariant", "no caller in the workspace")),
    (r"GraphContext>::collect$", r"expect", r".*", ("finding", "collect(key) panics for a key that is not in the library; reached with note content only: the inline-section / inline-quote actions are offered on a block reference to a missing note and their resolve calls collect(<missing key>)")),
    (r"GraphContext>::squash$", r"expect", r".*", ("benign", "CLI --key argument / generate command keys naming a missing note: argument value, not note content")),
    (r"GraphContext>::get_node_id_at$", r"expect", r".*", ("benign", CLIENT)),
    (r"GraphContext>::get_container_document_ref_text$", r"unwrap", r".*", ("invariant", LIVE)),
    (r"GraphContext>::random_key$", r"arith", r".*", ("benign", USIZE1)),
    (r"reader::MarkdownEventsReader::(top_block|pop_inline|pop_block)$", r"unwrap|expect", r".*", ("invariant", BALANCED)),
    (r"reader::MarkdownEventsReader::to_inline_range$", r"arith", r"overflow:Sub", ("guarded", "`range.x - line_start` under `if line_start <= range.x`")),
    (r"reader::MarkdownEventsReader::to_line_range$|reader::line_starts$", r"arith", r".*", ("benign", USIZE1)),
    (r"writer::MarkdownWriter::write$", r"unwrap", r".*", ("benign", "fmt::Write into a String cannot fail")),
    (r"document::DocumentBlock::is_ref$", r"index", r".*", ("guarded", "right of `para.inlines.len() == 1 &&`")),
    (r"document::DocumentBlock::url$", r"index", r".*", ("guarded", "only called under `if block.is_ref()` (inlines.len() == 1)")),
    (r"document::DocumentBlock::append_block$", r"unwrap|explicit-panic", r".*", ("invariant", BALANCED + "; blocks are appended only to containers (is_container) and a list always has an open item")),
    (r"document::DocumentBlock::(append_row|append_cell|append_item)$", r"explicit-panic", r".*", ("invariant", BALANCED + "; TableRow/TableCell/Item events occur only directly inside Table/List, which is then on top of the stack")),
    (r"document::DocumentBlock::append_inline$", r"unwrap", r".*", ("guarded", "a paragraph is pushed just above when the item/quote is empty; a list always has an open item when an inline arrives")),
    (r"document::DocumentInline::apppen$", r"explicit-panic", r".*", ("invariant", "leaf inlines (Str, Code, Math, breaks) are pushed and popped immediately, so the top of the inline stack is always a container inline")),
    (r"document::DocumentInline::key_range$", r"arith", r".*", ("guarded", "a link's source span has at least one character on its last line, so end.character >= 1 (holds once line starts are real byte offsets, C13-R1)")),
    (r"model::graph::GraphBlock::to_markdown$", r"arith", r".*", ("benign", USIZE1)),
    (r"node::NodePointer::node_key$", r"unwrap", r".*", ("invariant", LIVE, {"C12": ("benign", CLIENT)})),
    (r"node::NodePointer::collect_tree$", r"expect", r".*", ("invariant", LIVE)),
    (r"node::NodePointer::squash_tree$", r"unwrap", r".*", ("invariant", ONE)),
    (r"node::NodePointer::(get_sub_sections|to_first_section_at_the_same_level)$", r".*", r".*", ("invariant", "no caller in the workspace")),
    (r"projector::Projector::project_node$", r"unwrap", r"NodeIter::(ref_type|ref_key2)", ("guarded", "inside the `Node::Reference(_)` arm of the match on iter.node()")),
    (r"projector::Projector::project_node$", r"arith", r".*", ("benign", "heading depth + 1: nesting depth of sections is bounded by the input's nesting; u8 overflow would need 255 nested sections")),
    (r"projector::Projector::project_list_item$", r"unwrap", r".*", ("guarded", "an item was pushed onto `items` a few lines above")),
    (r"rank::node_rank$", r"arith", r".*", ("benign", USIZE1)),
    (r"tree::Tree::extract_sections$", r"expect", r".*", ("guarded", "under `.filter(|id| keys.contains_key(&id))`")),
    (r"tree::Tree::mark_node$", r".*", r".*", ("invariant", "position(id) <= children.len() by construction (take_while count); no caller outside tests")),
    (r"tree::Tree::(append_pre_header|append_after)$", r"std-panicking-call", r".*", ("invariant", "insert position is a take_while count over the same vector, hence <= len")),
    (r"tree::Tree::squash_from_pointer$", r"unwrap", r"NodeIter::node", ("invariant", LIVE)),
    (r"tree::Tree::squash_from_pointer$", r"arith", r".*", ("guarded", "`depth - 1` under `.filter(|_| depth > 0)` (C17-R1)")),
    (r"tree::Tree::squash_from_pointer$", r"unwrap", r"slice::first", ("invariant", ONE)),
    (r"tree::Tree::get$", r"unwrap", r".*", ("invariant", TREEIDS, {"C12": ("benign", CLIENT)})),
    (r"liwe::state::", r".*", r".*", ("benign", "test helpers")),
    (r"^iwe::squash_command$", r"unwrap", r"Graph::export_key", ("invariant", "Graph::export_key always returns Some")),
]


def main():
    d, sha, info = build_facts.build()
    F = fb.Facts(d)
    table = {}
    unmatched = []
    for f in F.fn_list:
        if f.kind == "closure" or f.body is None:
            continue
        for s in panics.sites_of(F, f):
            if s.auto:
                continue
            hit = None
            for fre, kre, ore, val in RULES:
                if re.search(fre, s.fn) and re.fullmatch(kre, s.kind) and re.search(ore, s.origin):
                    hit = val
                    break
            if hit is None:
                unmatched.append(s)
                continue
            ent = {"class": hit[0], "reason": hit[1], "at": s.loc, "what": s.detail[:120]}
            if len(hit) > 2:
                ent["props"] = {p: {"class": v[0], "reason": v[1]} for p, v in hit[2].items()}
            table[s.key] = ent
    os.makedirs(os.path.join(VERIF, "tables"), exist_ok=True)
    with open(os.path.join(VERIF, "tables", "panics.json"), "w") as fh:
        json.dump(table, fh, indent=1, sort_keys=True, ensure_ascii=False)
    print("classified %d sites; %d unmatched" % (len(table), len(unmatched)))
    for s in unmatched:
        print("  UNMATCHED", s.key, "@", s.loc, "::", s.detail[:100])
    from collections import Counter
    print(Counter(v["class"] for v in table.values()))


if __name__ == "__main__":
    main()
