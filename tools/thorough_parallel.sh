#!/bin/bash
# Runs every claimed check's thorough tier at once.  The self-test serialises on a lock under $TMPDIR/iwe-verif-selftest, so each property gets its own TMPDIR
# (scratch copies live there and are removed afterwards).  Evidence is written to /verif/evidence as usual.  Prints one line per property; exit 1 if any check fails.
cd /verif
export IWE_VERIF_TARGET_KEEP=${IWE_VERIF_TARGET_KEEP:-80} IWE_VERIF_CACHE_KEEP=${IWE_VERIF_CACHE_KEEP:-1500}
BASE=$(mktemp -d /tmp/iwe-thorough.XXXXXX)
for p in $(python3 -c "import json;print(' '.join(c['property_id'] for c in json.load(open('MANIFEST.json'))['checks']))"); do
  mkdir -p "$BASE/$p"
  ( TMPDIR="$BASE/$p" ./check "$p" --tier thorough > "$BASE/$p.log" 2>&1; echo "exit=$?" >> "$BASE/$p.log" ) &
done
wait
rc=0
for f in "$BASE"/*.log; do
  grep -hE "^C[0-9][0-9]:|selftest:|^VIOLATION" "$f" | cut -c1-200
  grep -q "^exit=0" "$f" || { rc=1; echo "FAILED: $f"; tail -5 "$f"; }
done
[ $rc -eq 0 ] && rm -rf "$BASE"
exit $rc
