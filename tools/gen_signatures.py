#!/usr/bin/env python3
"""Maintenance tool: records the fn signatures of /repo's current tree in tables/signatures.json (see vlib/renames.py)."""
import glob, json, os, sys
V = os.path.dirname(os.path.dirname(os.path.abspath(__file__)))
sys.path.insert(0, V)
from vlib import build_facts, renames, adt_renames
d, sha, _ = build_facts.build(os.environ.get("IWE_REPO", "/repo"))
out = {}
adts = {}
for p in sorted(glob.glob(os.path.join(d, "*.json"))):
    u = json.load(open(p))
    out["%s-%s" % (u["crate"], u["crate_type"])] = renames.signatures_of(u)
    adts["%s-%s" % (u["crate"], u["crate_type"])] = adt_renames.adts_of(u)
json.dump(adts, open(os.path.join(V, "tables", "adts.json"), "w"), indent=0, sort_keys=True)
json.dump(out, open(os.path.join(V, "tables", "signatures.json"), "w"), indent=0, sort_keys=True)
print("signatures of %d fns recorded (facts %s)" % (sum(len(v) for v in out.values()), sha))
