#!/bin/bash
# usage: tools/mutant.sh <patch.diff> <PROP> [<PROP> ...]
# Applies the patch to a scratch copy of /repo (outside /repo and /verif), runs the given checks against the copy,
# prints one line per property, removes the copy.  Evidence of /repo is never touched.
set -u
PATCH=$(realpath "$1"); shift
W=${MUT_WORK:-/tmp/iwe-mut/work}
rm -rf "$W"; mkdir -p "$W"
rsync -a --exclude target --exclude .git "${MUT_BASE:-/repo}"/ "$W"/
( cd "$W" && git init -q . 2>/dev/null && git apply --whitespace=nowarn "$PATCH" ) || { echo "PATCH-DOES-NOT-APPLY $PATCH"; rm -rf "$W"; exit 3; }
rm -rf "$W/.git"
rc=0
for P in "$@"; do
  out=$(cd ${VERIF_DIR:-/verif} && IWE_VERIF_CACHE=/verif/.cache ./check "$P" --repo "$W" 2>&1)
  code=$?
  echo "$P exit=$code $(echo "$out" | grep -c '^VIOLATION') violation(s)"
  echo "$out" | grep -A4 '^VIOLATION' | grep -E 'instance:|why:' | sed 's/^/    /' | cut -c1-400
  [ $code -eq 2 ] && echo "$out" | tail -5
done
rm -rf "$W"
