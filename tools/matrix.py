#!/usr/bin/env python3
"""Summarise $MUT_RESULTS/*.txt (default /tmp/iwe-mut/results; output of tools/mutant.sh per seeded change) as a catch matrix."""
import glob, os, re, sys, json
RES = os.environ.get("MUT_RESULTS", "/tmp/iwe-mut/results")
rows = []
for f in sorted(glob.glob(RES + "/*.txt")):
    n = os.path.basename(f)[:-4]
    own = n.split('_')[0]
    txt = open(f).read()
    fires = re.findall(r"^(C\d\d) exit=1", txt, re.M)
    err = re.findall(r"^(C\d\d) exit=2", txt, re.M)
    inst = {}
    cur = None
    for line in txt.splitlines():
        m = re.match(r"^(C\d\d) exit=", line)
        if m:
            cur = m.group(1)
        m = re.match(r"\s+instance: (.*)", line)
        if m and cur:
            inst.setdefault(cur, []).append(m.group(1))
    rows.append((n, own, fires, err, inst))
if len(sys.argv) > 1 and sys.argv[1] == "json":
    print(json.dumps({n.replace('_', '-'): {"own": own, "fires": fires, "instances": inst} for n, own, fires, err, inst in rows}, indent=1))
    sys.exit(0)
for n, own, fires, err, inst in rows:
    print("%-6s own=%-4s fires: %-40s %s" % (n, "HIT" if own in fires else "miss", " ".join(fires), ("ERR " + " ".join(err)) if err else ""))
hit = sum(1 for r in rows if r[1] in r[2]); anyc = sum(1 for r in rows if r[2])
print("own-property check fires: %d/%d; some check fires: %d/%d" % (hit, len(rows), anyc, len(rows)))
