#!/bin/bash
# Runs every claimed check's quick tier against /repo; prints one line per property and any VIOLATION.
cd /verif
rc=0
for p in $(python3 -c "import json;print(' '.join(c['property_id'] for c in json.load(open('MANIFEST.json'))['checks']))"); do
  out=$(./check $p --tier ${1:-quick} 2>&1); code=$?
  echo "$out" | grep -E "^$p:|^VIOLATION|^no rules|cannot|crashed" 
  [ $code -ne 0 ] && { rc=1; echo "$out" | grep -A4 "^VIOLATION" | grep -E "instance|why" | cut -c1-300; }
done
exit $rc
