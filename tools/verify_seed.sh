#!/bin/bash
# usage: tools/verify_seed.sh <seed-dir (patch.diff, demo/...)> <scratch-worktree-name>
# Confirms, in a scratch worktree of /repo (outside /repo and /verif):
#   A. the demonstration passes on the unmodified tree
#   B. the demonstration fails with the patch applied (and the tree still compiles)
#   C. the existing test suite, unedited, still passes with the patch applied
# Prints RESULT lines; removes the worktree and its build output.
set -u
SEED=$(realpath "$1"); NAME=$2
WT=/tmp/iwe-seedverify/$NAME
export CARGO_NET_OFFLINE=true
rm -rf "$WT"; git -C /repo worktree prune
git -C /repo worktree add --detach "$WT" HEAD -q || exit 3
cp -a "${WARM_TARGET:-/repo/target}" "$WT/target" 2>/dev/null
cd "$WT"
demos=$(cd "$SEED/demo" && find . -type f | sed 's|^\./||')
for d in $demos; do mkdir -p "$(dirname "$d")"; cp "$SEED/demo/$d" "$d"; done
run_demos() {
  local fail=0
  for d in $demos; do
    case "$d" in *fixture.rs) continue;; esac
    crate=$(echo "$d" | sed -n 's|crates/\([^/]*\)/tests/.*|\1|p'); t=$(basename "$d" .rs)
    [ -z "$crate" ] && continue
    cargo test --offline -p "$crate" --test "$t" > "/tmp/iwe-seedverify/$NAME.$t.$1.log" 2>&1 || fail=1
  done
  return $fail
}
if run_demos A; then echo "RESULT A demo-passes-without-patch: yes"; else echo "RESULT A demo-passes-without-patch: NO"; fi
if git apply --whitespace=nowarn "$SEED/patch.diff"; then echo "RESULT patch-applies: yes"; else echo "RESULT patch-applies: NO"; fi
if cargo build --offline --workspace > "/tmp/iwe-seedverify/$NAME.build.log" 2>&1; then echo "RESULT compiles-with-patch: yes"; else echo "RESULT compiles-with-patch: NO"; fi
if run_demos B; then echo "RESULT B demo-fails-with-patch: NO (it passed)"; else echo "RESULT B demo-fails-with-patch: yes"; fi
for d in $demos; do rm -f "$d"; done
cargo test --offline --workspace --no-fail-fast > "/tmp/iwe-seedverify/$NAME.suite.log" 2>&1
p=$(grep -E "^test result" "/tmp/iwe-seedverify/$NAME.suite.log" | awk '{s+=$4} END {print s}')
f=$(grep -E "^test result" "/tmp/iwe-seedverify/$NAME.suite.log" | awk '{s+=$6} END {print s}')
echo "RESULT C suite-with-patch: passed=$p failed=$f"
cd /; git -C /repo worktree remove --force "$WT"; rm -rf "$WT"
