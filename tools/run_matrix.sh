#!/bin/bash
# usage: tools/run_matrix.sh <todo-file> [lanes]   (todo lines: "<name> <patch path>")
# Runs every claimed check against a scratch copy of /repo with each patch applied (tools/mutant.sh), <lanes> patches at a time.
# Results: $MUT_RESULTS/<name>.txt (default /tmp/iwe-mut/results); summarise with tools/matrix.py.
set -u
TODO=$(realpath "$1"); LANES=${2:-8}
export MUT_RESULTS=${MUT_RESULTS:-/tmp/iwe-mut/results}
# every lane keeps its own cargo target directory and every patched tree its own fact file: do not let the cache prune them while the run is in flight
export IWE_VERIF_TARGET_KEEP=${IWE_VERIF_TARGET_KEEP:-80}
export IWE_VERIF_CACHE_KEEP=${IWE_VERIF_CACHE_KEEP:-1500}
mkdir -p "$MUT_RESULTS"
PROPS=$(python3 -c "import json;print(' '.join(c['property_id'] for c in json.load(open('/verif/MANIFEST.json'))['checks']))")
lane() {
  local i=$1
  while true; do
    line=$( flock /tmp/iwe-mut/todo.$$.lock -c "head -n1 $TODO.work; sed -i 1d $TODO.work" )
    [ -z "$line" ] && break
    name=${line%% *}; patch=${line#* }
    MUT_WORK=/tmp/iwe-mut/work$$_$i /verif/tools/mutant.sh "$patch" $PROPS > "$MUT_RESULTS/$name.txt" 2>&1
    echo "done $name"
  done
}
mkdir -p /tmp/iwe-mut; cp "$TODO" "$TODO.work"; touch /tmp/iwe-mut/todo.$$.lock
for i in $(seq 1 $LANES); do lane $i & done
wait
rm -f "$TODO.work"
