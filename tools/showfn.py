#!/usr/bin/env python3
"""Debug helper: print the typed-HIR rendering (and optionally raw JSON) of a fn from the fact base."""
import json, os, sys
sys.path.insert(0, os.path.dirname(os.path.dirname(os.path.abspath(__file__))))
from vlib import build_facts, factbase as fb
d, sha, _ = build_facts.build(os.environ.get("IWE_REPO", "/repo"))
F = fb.Facts(d)
name = sys.argv[1]
raw = len(sys.argv) > 2 and sys.argv[2] == "raw"
for k, f in F.fns.items():
    if name in k:
        print("==", k, f.kind, f.loc, "ret=", f.ret, "self=", f.impl_self, "trait=", f.impl_trait)
        if f.body is not None:
            if raw:
                print(json.dumps(f.body, indent=1)[:20000])
            else:
                print(fb.show(f.body, maxdepth=40))
