"""Fn-rename tolerance: anchors are located semantically first, by name second.

tables/signatures.json records, for every non-closure fn of the pinned tree, a *signature*: owner type / trait, parameter and return
types and the set of callees.  When the facts of the current tree lack a recorded fn and contain an unrecorded fn with the same owner and
types whose callee set is (nearly) the same, the unrecorded fn is taken to be the renamed one, and its def path is mapped back to the
recorded name while the facts are loaded - so every rule keeps addressing it by the name it had when the rule was written.  The match has to
be unique and strong; anything weaker is left alone (the rules then fail closed with `anchor missing`, as before).
"""
import json
import os
import re

VERIF = os.path.dirname(os.path.dirname(os.path.abspath(__file__)))
TABLE = os.path.join(VERIF, "tables", "signatures.json")

_LT = re.compile(r"'[a-zA-Z_][a-zA-Z0-9_]*\s*")


def _sig(f, types):
    def ty(i):
        t = types[i] if isinstance(i, int) and 0 <= i < len(types) else str(i)
        return _LT.sub("", t)
    callees = set()
    m = f.get("mir")
    if m:
        for b in m["blocks"]:
            t = b["term"]
            if t.get("k") == "call" and t.get("f"):
                callees.add(re.sub(r"<[^<>]*>", "", t["f"]).rsplit("::", 2)[-2:][0] + "::" + t["f"].rsplit("::", 1)[-1] if "::" in t["f"] else t["f"])
    return {
        "self": f.get("impl_self"), "trait": f.get("impl_trait") or f.get("in_trait"), "kind": f.get("kind"),
        "params": [ty(p.get("ty")) for p in f.get("params", [])], "ret": ty(f.get("ret")) if f.get("ret") is not None else None,
        "callees": sorted(callees), "module": f["def"].rsplit("::", 1)[0],
    }


def signatures_of(unit_json):
    out = {}
    types = unit_json["types"]
    clos = {}
    for f in unit_json["fns"]:
        if f.get("kind") == "closure" or "{closure" in f["def"]:
            clos.setdefault(f["def"].split("::{closure", 1)[0], []).append(f)
    for f in unit_json["fns"]:
        if f.get("kind") == "closure" or "{closure" in f["def"] or f.get("derived"):
            continue
        sg = _sig(f, types)
        # what the fn's closures call belongs to the fn (`.map(|p| to_file_name(p))`)
        extra = set()
        for c_ in clos.get(f["def"], []):
            extra |= set(_sig(c_, types)["callees"])
        sg["callees"] = sorted(set(sg["callees"]) | extra)
        out[f["def"]] = sg
    return out


def _short(t):
    """A type with every path reduced to its last segment (`&liwe::model::Key` -> `&Key`): unchanged when a type moves to another module."""
    return re.sub(r"(?:[A-Za-z_][A-Za-z0-9_]*::)+", "", str(t or ""))


def _l2(d):
    d = re.sub(r"<[^<>]*>", "", d)
    return "::".join(d.rsplit("::", 2)[-2:])


def _expand(callees, own, now, rec, depth=2):
    """Callee set with calls to unrecorded helpers (an extracted part of the fn) replaced by what those helpers call."""
    fresh = {}
    for d in now:
        if d not in rec and d != own:
            fresh.setdefault(_l2(d), d)
    out = set()
    for c_ in callees:
        h = fresh.get(_l2(c_))
        if h is not None and depth > 0:
            out |= set(_expand(now[h]["callees"], own, now, rec, depth - 1))
        else:
            out.add(c_)
    return sorted(out)


def compute_map(units):
    """units: list of loaded unit JSON objects -> {new def path: recorded def path} (high-confidence renames only) and notes."""
    if not os.path.exists(TABLE):
        return {}, []
    with open(TABLE) as fh:
        table = json.load(fh)
    cur = {}
    for u in units:
        key = "%s-%s" % (u["crate"], u["crate_type"])
        cur[key] = signatures_of(u)
    mapping, notes = {}, []
    seg_map = {}       # new last segment -> recorded last segment, learnt from accepted renames (callee sets are compared modulo it)
    for _round in range(4):
        progress = False
        for unit, rec in table.items():
            now = cur.get(unit)
            if now is None:
                continue
            missing = [d for d in rec if d not in now and d not in mapping.values()]
            fresh = [d for d in now if d not in rec and d not in mapping]
            if not missing or not fresh:
                continue
            for m in missing:
                sm = rec[m]
                cands = []
                for n in fresh:
                    if n in mapping:
                        continue
                    sn = now[n]
                    strict = True
                    if sn["self"] != sm["self"] or sn["trait"] != sm["trait"]:
                        strict = False
                    # same module (a rename) or same name in another module of the same crate (a free fn that was moved)
                    if sn["module"] != sm["module"] and not (n.rsplit("::", 1)[-1] == m.rsplit("::", 1)[-1] and n.split("::", 1)[0] == m.split("::", 1)[0] and sm["self"] is None):
                        strict = False
                    if sn["params"] != sm["params"] or sn["ret"] != sm["ret"]:
                        strict = False
                    if not strict:
                        # relaxed reading: the fn moved (method <-> free fn <-> extension-trait method, another module, its type moved to another
                        # module): same crate, same parameter and return types up to module paths (the receiver counts as the first parameter);
                        # accepted further down only with a higher callee similarity
                        if n.split("::", 1)[0].lstrip("<") != m.split("::", 1)[0].lstrip("<") and not (n.startswith("<") or m.startswith("<")):
                            continue
                        if [_short(t) for t in sn["params"]] != [_short(t) for t in sm["params"]] or _short(sn["ret"] or "") != _short(sm["ret"] or ""):
                            continue
                        if not sm["params"]:
                            continue      # nothing to tell parameterless fns apart by

                    def normc(cs, own):
                        out = set()
                        for c_ in cs:
                            head, _, seg = c_.rpartition("::")
                            if seg == own:
                                continue        # a recursive fn calls itself under its own name
                            out.add(head + "::" + seg_map.get(seg, seg))
                        return out
                    a = normc(sm["callees"], m.rsplit("::", 1)[-1])
                    b = normc(sn["callees"], n.rsplit("::", 1)[-1])
                    j = (len(a & b) / float(len(a | b))) if (a | b) else 1.0
                    # ... and modulo helpers extracted from the fn (an unrecorded callee replaced by what it calls); a callee that is itself a
                    # renamed fn must not be expanded, so both readings are tried
                    b2 = normc(_expand(sn["callees"], n, now, rec), n.rsplit("::", 1)[-1])
                    j2 = (len(a & b2) / float(len(a | b2))) if (a | b2) else 1.0
                    j = max(j, j2)
                    if not strict:
                        if j < 0.85 or len(a) < 2:
                            continue
                        j -= 0.01        # a strict match of the same quality wins
                    cands.append((j, n))
                cands.sort(reverse=True)
                if cands and cands[0][0] >= 0.7 and (len(cands) == 1 or cands[0][0] - cands[1][0] >= 0.2):
                    n = cands[0][1]
                    mapping[n] = m
                    progress = True
                    nseg, oseg = n.rsplit("::", 1)[-1], m.rsplit("::", 1)[-1]
                    if nseg != oseg:
                        seg_map.setdefault(nseg, oseg)
                    if sm.get("trait"):
                        tn = sm["trait"] + "::" + nseg
                        to = sm["trait"] + "::" + oseg
                        if tn != to:
                            mapping.setdefault(tn, to)
                    notes.append("fn `%s` is treated as the renamed `%s` (same owner and types, callee similarity %.2f)" % (n, m, cands[0][0]))
        if not progress:
            break
    return mapping, notes


def apply(text, mapping):
    """Rewrite def paths in the raw JSON text of a fact file (new name -> recorded name)."""
    for new, old in sorted(mapping.items(), key=lambda kv: -len(kv[0])):
        # only whole path tokens: followed by a non-identifier character
        text = re.sub(re.escape(new) + r"(?![A-Za-z0-9_])", old.replace("\\", "\\\\"), text)
        # method-call nodes also carry the bare method name: {"k": "mcall", "name": "<new>", "def": "<old path>"} -> name = old last segment
        nseg, oseg = new.rsplit("::", 1)[-1], old.rsplit("::", 1)[-1]
        if nseg != oseg:
            for sep in ("", " "):
                text = text.replace('"name":%s"%s",%s"def":%s"%s' % (sep, nseg, sep, sep, old), '"name":%s"%s",%s"def":%s"%s' % (sep, oseg, sep, sep, old))
        # method-call nodes carry the bare method name as well: "name": "<last seg>" next to a def we just rewrote is left as is (rules use the def)
    return text


def former_callers(units, mapping):
    """Recorded fns that are gone from the current tree (and not recognised as renamed), each with the recorded fns that used to call it:
    {present caller def (normalised): [missing callee def (normalised), ..]} - "the helper was inlined into its callers and deleted"."""
    if not os.path.exists(TABLE):
        return {}
    with open(TABLE) as fh:
        table = json.load(fh)
    from .factbase import norm
    out = {}
    renamed_to = set(mapping.values())
    for u in units:
        key = "%s-%s" % (u["crate"], u["crate_type"])
        rec = table.get(key)
        if not rec:
            continue
        now = set(f["def"] for f in u.get("fns", []))
        now_mapped = set(mapping.get(d, d) for d in now)
        missing = [d for d in rec if d not in now_mapped and d not in renamed_to]
        for m in missing:
            ml2 = _l2(m)
            for g, sg in rec.items():
                if g in now_mapped and g != m and any(_l2(c) == ml2 or c == ml2 for c in sg.get("callees", [])):
                    out.setdefault(norm(g), []).append(norm(m))
    return out
