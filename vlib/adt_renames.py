"""Field / variant rename tolerance (companion of vlib/renames.py).

tables/adts.json records, for every ADT of the pinned tree, its variants and fields in declaration order with their types.  When the
current tree lacks a recorded field (variant) of an ADT and has an unrecorded one of the same type(s) - at the same position, or the only
candidate of that type - the unrecorded member is taken to be the renamed one and is mapped back to the recorded name while the facts load:
variant paths textually (they are def paths), field names structurally (field accesses by base type, struct literals, struct patterns, the
ADT table).  Anything ambiguous is left alone (rules then fail closed as before).
"""
import json
import os
import re

VERIF = os.path.dirname(os.path.dirname(os.path.abspath(__file__)))
TABLE = os.path.join(VERIF, "tables", "adts.json")
_LT = re.compile(r"'[a-zA-Z_][a-zA-Z0-9_]*\s*")


def _ty(types, t):
    if isinstance(t, int):
        t = types[t] if 0 <= t < len(types) else "?"
    return _LT.sub("", str(t))


def adts_of(unit_json):
    types = unit_json.get("types", [])
    out = {}
    for a in unit_json.get("adts", []):
        out[a["path"]] = {"kind": a.get("kind"), "variants": [
            {"name": v["name"], "fields": [{"name": f["name"], "ty": _ty(types, f["ty"])} for f in v.get("fields", [])]} for v in a.get("variants", [])]}
    return out


def _match(rec_items, cur_items, sig):
    """rec/cur: ordered lists of dicts with 'name'; sig(item) -> comparable signature. -> {cur name: rec name} for unambiguous renames."""
    rn = [x["name"] for x in rec_items]
    cn = [x["name"] for x in cur_items]
    missing = [x for x in rec_items if x["name"] not in cn]
    fresh = [x for x in cur_items if x["name"] not in rn]
    out = {}
    if not missing or not fresh:
        return out
    for m in missing:
        cands = [f for f in fresh if sig(f) == sig(m) and f["name"] not in out]
        pick = None
        if len(cands) == 1:
            pick = cands[0]
        elif len(cands) > 1:
            # same position in the declaration?
            i = rn.index(m["name"])
            same_pos = [f for f in cands if cn.index(f["name"]) == i]
            if len(same_pos) == 1:
                pick = same_pos[0]
        if pick is not None and not pick["name"].isdigit():
            out[pick["name"]] = m["name"]
    return out


def compute(units):
    """-> (variant path map {new path: old path}, field map {(adt-or-variant path, new field): old field}, notes)"""
    if not os.path.exists(TABLE):
        return {}, {}, []
    with open(TABLE) as fh:
        table = json.load(fh)
    vmap, fmap, notes = {}, {}, []
    for u in units:
        key = "%s-%s" % (u["crate"], u["crate_type"])
        rec = table.get(key)
        if not rec:
            continue
        cur = adts_of(u)
        for path, r in rec.items():
            c = cur.get(path)
            if c is None:
                continue
            if r.get("kind") == "enum":
                vm = _match(r["variants"], c["variants"], lambda v: tuple(f["ty"] for f in v["fields"]))
                for new, old in vm.items():
                    vmap["%s::%s" % (path, new)] = "%s::%s" % (path, old)
                    notes.append("variant `%s::%s` is treated as the renamed `%s`" % (path, new, old))
            else:
                vm = {}
            for rv in r["variants"]:
                cv = [v for v in c["variants"] if vm.get(v["name"], v["name"]) == rv["name"]]
                if len(cv) != 1:
                    continue
                fm = _match(rv["fields"], cv[0]["fields"], lambda f: f["ty"])
                owner = path if r.get("kind") != "enum" else "%s::%s" % (path, rv["name"])
                for new, old in fm.items():
                    fmap[(owner, new)] = old
                    notes.append("field `%s.%s` is treated as the renamed `%s`" % (owner, new, old))
    return vmap, fmap, notes


def apply_variants(text, vmap):
    for new, old in sorted(vmap.items(), key=lambda kv: -len(kv[0])):
        text = re.sub(re.escape(new) + r"(?![A-Za-z0-9_])", old, text)
        nseg, oseg = new.rsplit("::", 1)[-1], old.rsplit("::", 1)[-1]
        for sep in ("", " "):
            text = text.replace('"name":%s"%s",%s"path":%s"%s"' % (sep, nseg, sep, sep, old), '"name":%s"%s",%s"path":%s"%s"' % (sep, oseg, sep, sep, old))
    return text


def _base(t):
    t = _LT.sub("", str(t or ""))
    t = t.replace("&mut ", "").replace("&", "").strip()
    # strip generic arguments
    depth, out = 0, []
    for ch in t:
        if ch == "<":
            depth += 1
        elif ch == ">":
            depth -= 1
        elif depth == 0:
            out.append(ch)
    return "".join(out).strip()


def apply_fields(unit_json, fmap):
    """Rewrite field names in one loaded unit (in place)."""
    if not fmap:
        return
    owners = set(o for o, _n in fmap)
    types = unit_json.get("types", [])

    def fix(x):
        if isinstance(x, dict):
            k = x.get("k")
            if k == "field" and isinstance(x.get("name"), str):
                b = _base(_ty(types, x.get("bty")))
                if (b, x["name"]) in fmap:
                    x["name"] = fmap[(b, x["name"])]
            elif k in ("struct", "p_struct") and x.get("def"):
                d = _base(x["def"])
                if d in owners:
                    for f in x.get("fields", []):
                        if isinstance(f, dict) and (d, f.get("name")) in fmap:
                            f["name"] = fmap[(d, f["name"])]
            for v in x.values():
                if isinstance(v, (dict, list)):
                    fix(v)
        elif isinstance(x, list):
            for v in x:
                fix(v)
    for f in unit_json.get("fns", []):
        fix(f.get("body"))
        fix(f.get("params"))
    for a in unit_json.get("adts", []):
        for v in a.get("variants", []):
            owner = a["path"] if a.get("kind") != "enum" else v.get("path")
            for f in v.get("fields", []):
                if (owner, f.get("name")) in fmap:
                    f["name"] = fmap[(owner, f["name"])]


def type_moves(units):
    """{new ADT path: recorded ADT path} for types that moved to another module (same name, same variants and field names / types)."""
    if not os.path.exists(TABLE):
        return {}, []
    with open(TABLE) as fh:
        table = json.load(fh)
    out, notes = {}, []

    def shape(a):
        # field / variant names may have been renamed in the same change: compare the types only
        return (a.get("kind"), tuple(tuple(re.sub(r"(?:[A-Za-z_][A-Za-z0-9_]*::)+", "", f["ty"]) for f in v["fields"]) for v in a["variants"]))
    for u in units:
        key = "%s-%s" % (u["crate"], u["crate_type"])
        rec = table.get(key)
        if not rec:
            continue
        cur = adts_of(u)
        missing = [p for p in rec if p not in cur]
        fresh = [p for p in cur if p not in rec]
        for m in missing:
            cands = [f for f in fresh if f.rsplit("::", 1)[-1] == m.rsplit("::", 1)[-1] and shape(cur[f]) == shape(rec[m]) and f.split("::", 1)[0] == m.split("::", 1)[0]]
            if len(cands) == 1 and cands[0] not in out:
                out[cands[0]] = m
                notes.append("type `%s` is treated as the moved `%s`" % (cands[0], m))
    return out, notes


def apply_paths(text, pmap):
    for new, old in sorted(pmap.items(), key=lambda kv: -len(kv[0])):
        text = re.sub(r"(?<![A-Za-z0-9_:])" + re.escape(new) + r"(?![A-Za-z0-9_])", old, text)
    return text
