"""Load the fact files written by the iwe-facts driver and offer queries over them.

Everything here is purely static: typed HIR expression trees, mini-MIR CFGs, ADT tables.
"""
import glob
import json
import os
import re
from collections import defaultdict

# --------------------------------------------------------------------------- path normalisation

_LT = re.compile(r"'[a-zA-Z_][a-zA-Z0-9_]*\s*")


def norm(path):
    """Strip generic arguments and lifetimes from a def path / type string.

    `liwe::graph::builder::GraphBuilder::<'a>::node` -> `liwe::graph::builder::GraphBuilder::node`
    `<X<'a> as T<'a>>::next` -> `<X as T>::next`
    """
    if path is None:
        return None
    s = path
    out = []
    i = 0
    n = len(s)
    while i < n:
        c = s[i]
        if c == "<":
            prev = s[i - 1] if i > 0 else ""
            if prev.isalnum() or prev == "_" or prev == ":":
                # generic argument list: skip to the matching '>'
                depth = 0
                j = i
                while j < n:
                    if s[j] == "<":
                        depth += 1
                    elif s[j] == ">" and (j == 0 or s[j - 1] != "-"):
                        depth -= 1
                        if depth == 0:
                            break
                    j += 1
                # drop a trailing '::' in front of '::<'
                if len(out) >= 2 and out[-1] == ":" and out[-2] == ":":
                    out.pop()
                    out.pop()
                i = j + 1
                continue
        out.append(c)
        i += 1
    r = "".join(out)
    r = _LT.sub("", r)
    return r


def tnorm(t):
    """Normalise a type string only by removing lifetimes (generic args are kept)."""
    if t is None:
        return None
    return _LT.sub("", t)


# --------------------------------------------------------------------------- tree helpers

_TY_KEYS = ("ty", "rty", "rtya", "bty", "sty", "to", "a0", "fty")
_PAT_KEYS = ("pat", "pats", "params", "sub")


def is_node(x):
    return isinstance(x, dict) and "k" in x


def is_pat(x):
    return isinstance(x, dict) and str(x.get("k", "")).startswith("p_")


def children(node, with_pats=False):
    """Direct expression children of an expression node, in source order where it matters."""
    k = node.get("k")
    out = []

    def add(x):
        if isinstance(x, dict):
            if "k" in x:
                if with_pats or not is_pat(x):
                    out.append(x)
        elif isinstance(x, list):
            for y in x:
                add(y)

    if k == "match":
        add(node.get("e"))
        for a in node.get("arms", []):
            if with_pats:
                add(a.get("pat"))
            add(a.get("guard"))
            add(a.get("body"))
        return out
    if k == "struct":
        for f in node.get("fields", []):
            add(f.get("e"))
        add(node.get("base"))
        return out
    if k == "mcall":
        add(node.get("recv"))
        add(node.get("args"))
        return out
    if k == "call":
        add(node.get("f"))
        add(node.get("args"))
        return out
    if k == "if":
        add(node.get("c"))
        add(node.get("t"))
        add(node.get("e"))
        return out
    if k == "block":
        add(node.get("stmts"))
        add(node.get("e"))
        return out
    if k == "let":
        if with_pats:
            add(node.get("pat"))
        add(node.get("init"))
        add(node.get("els"))
        return out
    if k == "letx":
        if with_pats:
            add(node.get("pat"))
        add(node.get("init"))
        return out
    if k == "closure":
        if with_pats:
            add(node.get("params"))
        add(node.get("body"))
        return out
    if k == "p_guard":
        add(node.get("guard"))
        return out
    for key, v in node.items():
        if key in _PAT_KEYS and not with_pats:
            continue
        if key in ("caps",):
            continue
        add(v)
    return out


def walk(node, with_pats=False, into_closures=True):
    """Pre-order walk over all expression nodes under `node` (including `node`)."""
    stack = [node]
    while stack:
        x = stack.pop()
        yield x
        if x.get("k") == "closure" and not into_closures and x is not node:
            continue
        ch = children(x, with_pats)
        stack.extend(reversed(ch))


def walk_with_parents(node, with_pats=False):
    """Yield (node, parents_tuple) in pre-order."""
    stack = [(node, ())]
    while stack:
        x, ps = stack.pop()
        yield x, ps
        ch = children(x, with_pats)
        nps = ps + (x,)
        for c in reversed(ch):
            stack.append((c, nps))


def callee(node):
    """Normalised declared callee of a call / method-call node (None otherwise)."""
    if node.get("k") in ("call", "mcall"):
        d = node.get("def")
        return norm(d) if d else None
    return None


def rcallee(node):
    """Instance-resolved callee if the driver could resolve it, else the declared one."""
    if node.get("k") in ("call", "mcall"):
        d = node.get("rdef") or node.get("def")
        return norm(d) if d else None
    return None


def calls_in(node, pred=None, into_closures=True):
    """All call / mcall nodes under `node` whose (declared or resolved) callee satisfies pred."""
    out = []
    for x in walk(node, into_closures=into_closures):
        if x.get("k") in ("call", "mcall"):
            c, r = callee(x), rcallee(x)
            if pred is None or (c and pred(c)) or (r and pred(r)):
                out.append(x)
    return out


def last_seg(p):
    return p.rsplit("::", 1)[-1] if p else p


def pat_bindings(p):
    """All (name, id) bound by a pattern."""
    out = []
    if not isinstance(p, dict):
        return out
    k = p.get("k")
    if k == "p_bind":
        out.append((p["name"], p["id"]))
        if "sub" in p:
            out += pat_bindings(p["sub"])
    elif k in ("p_tstruct", "p_or", "p_tuple", "p_slice"):
        for q in p.get("pats", []):
            out += pat_bindings(q)
    elif k == "p_struct":
        for f in p.get("fields", []):
            out += pat_bindings(f["pat"])
    elif k in ("p_ref", "p_guard"):
        out += pat_bindings(p.get("pat"))
    return out


def pat_variants(p):
    """Variant / struct paths matched by a pattern (or-patterns expanded); '_' for wild/binding."""
    k = p.get("k")
    if k in ("p_tstruct", "p_struct", "p_path"):
        return [norm(p.get("def"))]
    if k == "p_or":
        r = []
        for q in p.get("pats", []):
            r += pat_variants(q)
        return r
    if k in ("p_ref", "p_guard"):
        return pat_variants(p["pat"])
    if k == "p_bind":
        if "sub" in p:
            return pat_variants(p["sub"])
        return ["_"]
    if k == "p_wild":
        return ["_"]
    if k == "p_lit":
        return ["lit:" + p.get("v", "")]
    if k == "p_tuple":
        return ["tuple"]
    return ["?" + str(k)]


def uses_local(node, lid):
    for x in walk(node):
        if x.get("k") == "path" and x.get("res") == "local" and x.get("id") == lid:
            return True
    return False


def local_uses(node, lid):
    return [x for x in walk(node) if x.get("k") == "path" and x.get("res") == "local" and x.get("id") == lid]


# --------------------------------------------------------------------------- source-like rendering

_CANON = None   # (names, inits, inlining budget) while show_canon is active
_MAXDEPTH = None


def canon_env(fn):
    """Rename-independent names for the locals of a fn: `self`, P<i> for parameters, c<i> for closure parameters (index within their own
    closure), b<i> for pattern bindings (index within their pattern); simple `let x = init` locals are *inlined* (replaced by their
    initialiser), so introducing, renaming or removing such a local does not change the rendering."""
    env = getattr(fn, "_canon_env", None) if not isinstance(fn, dict) else None
    if env is not None:
        return env
    names, inits = {}, {}
    for i, p in enumerate(fn.params):
        for j, (name, lid) in enumerate(pat_bindings(p["pat"])):
            names[lid] = "self" if name == "self" else ("P%d" % i if j == 0 else "P%d_%d" % (i, j))
    if fn.body is not None:
        assigned = set()
        for node in walk(fn.body):
            if node.get("k") in ("assign", "assignop"):
                l = node["l"]
                while l.get("k") in ("field", "index", "unary"):
                    l = l["e"]
                if l.get("k") == "path" and l.get("res") == "local":
                    assigned.add(l["id"])
        for node, parents in walk_with_parents(fn.body):
            k = node.get("k")
            cdepth = sum(1 for p_ in parents if p_.get("k") == "closure")
            if k == "let" and node.get("init") is not None and node["pat"].get("k") == "p_bind" and "sub" not in node["pat"] and node["pat"]["id"] not in assigned:
                inits[node["pat"]["id"]] = node["init"]
            elif k in ("let", "letx"):
                for j, (_n, lid) in enumerate(pat_bindings(node["pat"])):
                    names.setdefault(lid, "b%d" % j)
            elif k == "match":
                for arm in node["arms"]:
                    for j, (_n, lid) in enumerate(pat_bindings(arm["pat"])):
                        names.setdefault(lid, "b%d" % j)
            elif k == "closure":
                for i, p in enumerate(node.get("params", [])):
                    for j, (_n, lid) in enumerate(pat_bindings(p)):
                        nm = "c%d" % cdepth if i == 0 else "c%d.%d" % (cdepth, i)
                        names.setdefault(lid, nm if j == 0 else "%s_%d" % (nm, j))
    env = (names, inits)
    try:
        fn._canon_env = env
    except AttributeError:
        pass
    return env


def show_canon(fn, e, maxdepth=40, inline=6, inline_only=None):
    """`show` with rename-independent local names (see canon_env). `inline_only`: set of local ids that may be inlined (others render as `v?`)."""
    global _CANON, _MAXDEPTH
    names, inits = canon_env(fn)
    if inline_only is not None:
        inits = dict((k, v) for k, v in inits.items() if k in inline_only)
    old, oldm = _CANON, _MAXDEPTH
    _CANON = [names, inits, inline, set()]
    _MAXDEPTH = maxdepth
    try:
        return show(e, 0, maxdepth)
    finally:
        _CANON, _MAXDEPTH = old, oldm


def show(e, depth=0, maxdepth=12):
    """Compact source-like rendering of an expression (for reports and shape comparison)."""
    if e is None:
        return ""
    if depth > (_MAXDEPTH if _MAXDEPTH is not None else maxdepth):
        return "…"
    k = e.get("k")
    d = depth + 1
    if k == "path":
        if e.get("res") == "local":
            if _CANON is not None:
                lid = e.get("id")
                if lid in _CANON[0]:
                    return _CANON[0][lid]
                if lid in _CANON[1] and _CANON[2] > 0 and lid not in _CANON[3]:
                    _CANON[2] -= 1
                    _CANON[3].add(lid)
                    try:
                        r = show(_CANON[1][lid], d, maxdepth)
                    finally:
                        _CANON[2] += 1
                        _CANON[3].discard(lid)
                    return r
                return "v?"
            return e.get("name", "?")
        return last2(norm(e.get("def", "?")))
    if k == "lit":
        v = e.get("v", "")
        if v.startswith("s:"):
            return json.dumps(v[2:], ensure_ascii=False)
        return v.split(":", 1)[-1]
    if k == "mcall":
        return "%s.%s(%s)" % (show(e["recv"], d), e["name"], ", ".join(show(a, d) for a in e["args"]))
    if k == "call":
        f = e.get("def")
        fn = last2(norm(f)) if f else show(e["f"], d)
        return "%s(%s)" % (fn, ", ".join(show(a, d) for a in e["args"]))
    if k == "field":
        return "%s.%s" % (show(e["e"], d), e["name"])
    if k == "index":
        return "%s[%s]" % (show(e["e"], d), show(e["i"], d))
    if k == "binary":
        return "(%s %s %s)" % (show(e["l"], d), e["op"], show(e["r"], d))
    if k == "unary":
        return "%s%s" % (e["op"], show(e["e"], d))
    if k == "addrof":
        return "&%s%s" % ("mut " if e.get("mut") else "", show(e["e"], d))
    if k == "cast":
        return "(%s as _)" % show(e["e"], d)
    if k == "closure":
        return "|%s| %s" % (", ".join(show_pat(p) for p in e.get("params", [])), show(e["body"], d))
    if k == "block":
        if e.get("inl") and not e.get("stmts") and e.get("e") is not None:
            return show(e["e"], depth, maxdepth)      # an inlined helper call without bound arguments reads as the helper's body
        parts = [show(s, d) for s in e.get("stmts", [])]
        if e.get("e") is not None:
            parts.append(show(e["e"], d))
        return "{ " + "; ".join(parts) + " }"
    if k == "let":
        return "let %s = %s" % (show_pat(e["pat"]), show(e.get("init"), d))
    if k == "letx":
        return "let %s = %s" % (show_pat(e["pat"]), show(e.get("init"), d))
    if k == "if":
        s = "if %s %s" % (show(e["c"], d), show(e["t"], d))
        if e.get("e") is not None:
            s += " else " + show(e["e"], d)
        return s
    if k == "match":
        return "match %s { %s }" % (show(e["e"], d), ", ".join("%s => %s" % (show_pat(a["pat"]), show(a["body"], d)) for a in e["arms"]))
    if k == "struct":
        return "%s { %s%s }" % (last2(norm(e.get("def", "?"))), ", ".join("%s: %s" % (f["name"], show(f["e"], d)) for f in e["fields"]), (", .." + show(e["base"], d)) if e.get("base") else "")
    if k in ("tup", "array"):
        return ("(%s)" if k == "tup" else "[%s]") % ", ".join(show(x, d) for x in e.get("es", []))
    if k == "ret":
        return "return " + show(e.get("e"), d)
    if k == "break":
        return "break " + show(e.get("e"), d)
    if k == "continue":
        return "continue"
    if k == "assign":
        return "%s = %s" % (show(e["l"], d), show(e["r"], d))
    if k == "assignop":
        return "%s %s= %s" % (show(e["l"], d), e["op"], show(e["r"], d))
    if k == "loop":
        return "loop %s" % show(e["body"], d)
    if k == "repeat":
        return "[%s; _]" % show(e["e"], d)
    return "<%s>" % k


def last2(p):
    if not p:
        return "?"
    parts = p.split("::")
    return "::".join(parts[-2:]) if len(parts) >= 2 else p


def show_pat(p):
    if p is None:
        return "_"
    k = p.get("k")
    if k == "p_wild":
        return "_"
    if k == "p_bind":
        s = p["name"]
        if _CANON is not None:
            s = _CANON[0].get(p.get("id"), "v?")
        if "sub" in p:
            s += " @ " + show_pat(p["sub"])
        return s
    if k == "p_tstruct":
        return "%s(%s)" % (last2(norm(p.get("def"))), ", ".join(show_pat(q) for q in p.get("pats", [])))
    if k == "p_struct":
        return "%s { %s%s }" % (last2(norm(p.get("def"))), ", ".join("%s: %s" % (f["name"], show_pat(f["pat"])) for f in p.get("fields", [])), ", .." if p.get("rest") else "")
    if k == "p_path":
        return last2(norm(p.get("def")))
    if k == "p_or":
        return " | ".join(show_pat(q) for q in p.get("pats", []))
    if k == "p_tuple":
        return "(%s)" % ", ".join(show_pat(q) for q in p.get("pats", []))
    if k == "p_ref":
        return "&" + show_pat(p.get("pat"))
    if k == "p_lit":
        v = p.get("v", "")
        return json.dumps(v[2:]) if v.startswith("s:") else v.split(":", 1)[-1]
    if k == "p_guard":
        return show_pat(p.get("pat"))
    return "<%s>" % k


# --------------------------------------------------------------------------- fact base

class Fn:
    __slots__ = ("d", "def_", "crate", "unit", "kind", "file", "line", "parent", "body", "mir", "params",
                 "impl_self", "impl_trait", "trait_item", "in_trait", "vis", "exported", "_cfg", "ret", "_canon_env", "absorbed", "absorbed_fns", "facts")

    def __init__(self, d, crate, unit):
        self.d = d
        self.def_ = norm(d["def"])
        self.crate = crate
        self.unit = unit
        self.kind = d["kind"]
        self.file = d.get("file")
        self.line = d.get("line")
        self.parent = norm(d.get("parent")) if d.get("parent") else None
        self.body = d.get("body")
        self.mir = d.get("mir")
        self.params = d.get("params", [])
        self.impl_self = norm(d.get("impl_self"))
        self.impl_trait = norm(d.get("impl_trait"))
        self.trait_item = norm(d.get("trait_item"))
        self.in_trait = norm(d.get("in_trait"))
        self.vis = d.get("vis")
        self.exported = d.get("exported")
        self.ret = d.get("ret")
        self._cfg = None
        self._canon_env = None
        self.absorbed = False       # an unrecorded helper that is analysed inlined into its callers (vlib/inline.py)
        self.absorbed_fns = []      # defs of the helpers inlined into this fn
        self.facts = None

    @property
    def loc(self):
        return "%s:%s" % (self.file, self.line)

    @property
    def cfg(self):
        if self._cfg is None and self.mir is not None:
            from . import cfg as _cfg
            mir = self.mir
            if self.absorbed_fns and self.facts is not None:
                # helpers that are analysed inlined (vlib/inline.py): their blocks are spliced in at the call sites
                fs = self.facts

                def helper_mir(d):
                    h = fs.fns.get(d)
                    return h.mir if (h is not None and h.absorbed and h.mir) else None
                try:
                    mir = _cfg.splice(self.mir, helper_mir)
                except Exception:
                    mir = self.mir
            self._cfg = _cfg.CFG(mir)
        return self._cfg

    def __repr__(self):
        return "Fn(%s)" % self.def_


class Facts:
    def __init__(self, facts_dir):
        self.dir = facts_dir
        self.units = {}
        self.fns = {}          # normalised def path -> Fn   (iwes-bin/iwe-bin names are disjoint from libs)
        self.fn_list = []
        self.adts = {}
        self.impls = []
        self.mods = {}
        self.closures_of = defaultdict(list)   # outermost fn def -> [closure Fn]
        raws = []
        for p in sorted(glob.glob(os.path.join(facts_dir, "*.json"))):
            with open(p) as fh:
                raws.append(fh.read())
        # types that moved to another module (vlib/adt_renames.py): their paths - and with them the def paths of their methods - are mapped back
        self.renamed = []
        try:
            from . import adt_renames as _ar
            pmap, pnotes = _ar.type_moves([json.loads(t) for t in raws])
            if pmap:
                raws = [_ar.apply_paths(t, pmap) for t in raws]
        except Exception as e:
            pnotes = ["type-move tolerance disabled: %s" % e]
        # fn-rename tolerance (vlib/renames.py): map renamed fns back to the names the rules were written against
        self.moved_into = {}
        try:
            from . import renames
            units_ = [json.loads(t) for t in raws]
            mapping, notes = renames.compute_map(units_)
            self.moved_into = renames.former_callers(units_, mapping)
            if mapping:
                raws = [renames.apply(t, mapping) for t in raws]
                self.renamed = notes
            self.renamed = list(pnotes) + list(self.renamed)
            for g_, ms_ in sorted(self.moved_into.items()):
                self.renamed = list(self.renamed) + ["recorded fn(s) %s are gone; constructs in their former caller `%s` are also looked up under their keys" % (", ".join("`%s`" % last2(m) for m in ms_), last2(g_))]
        except Exception as e:      # never let the tolerance layer break a check
            self.renamed = ["rename tolerance disabled: %s" % e]
        # field / variant rename tolerance (vlib/adt_renames.py)
        vmap, fmap = {}, {}
        try:
            from . import adt_renames
            vmap, fmap, anotes = adt_renames.compute([json.loads(t) for t in raws])
            if vmap:
                raws = [adt_renames.apply_variants(t, vmap) for t in raws]
            self.renamed = list(self.renamed) + anotes
        except Exception as e:
            self.renamed = list(self.renamed) + ["member-rename tolerance disabled: %s" % e]
            vmap, fmap = {}, {}
        for t in raws:
            d = json.loads(t)
            if fmap:
                try:
                    adt_renames.apply_fields(d, fmap)
                except Exception as e:
                    self.renamed = list(self.renamed) + ["field-rename rewrite failed: %s" % e]
            unit = "%s-%s" % (d["crate"], d["crate_type"])
            self.units[unit] = d
            types = [tnorm(t) for t in d["types"]]
            for a in d["adts"]:
                a["path"] = norm(a["path"])
                for v in a["variants"]:
                    v["path"] = norm(v["path"])
                    for f in v["fields"]:
                        f["ty"] = tnorm(f["ty"])
                a["unit"] = unit
                self.adts[a["path"]] = a
            for i in d["impls"]:
                i["self"] = tnorm(i["self"])
                i["nself"] = norm(i["self"])
                i["trait"] = norm(i["trait"]) if i.get("trait") else None
                i["unit"] = unit
                self.impls.append(i)
            for m in d["mods"]:
                self.mods[norm(m["path"])] = m
            for f in d["fns"]:
                _resolve_types(f, types)
                fn = Fn(f, d["crate"], unit)
                # the same lib is not compiled twice; bin crates have their own names
                key = fn.def_
                if key in self.fns:
                    key = key + "@" + unit
                self.fns[key] = fn
                fn.facts = self
                self.fn_list.append(fn)
                if fn.kind == "closure" and fn.parent:
                    self.closures_of[fn.parent].append(fn)
        self._cg = None
        # "extract function" tolerance (vlib/inline.py): unrecorded helpers are analysed inlined into their callers
        self.inlined = []
        try:
            from . import inline
            self.inlined = inline.apply(self)
        except Exception as e:      # never let the tolerance layer break a check
            self.inlined = ["helper inlining disabled: %s" % e]

    # ---- lookup

    def fn(self, suffix, required=True):
        """Find one fn whose normalised def path equals or ends with `::suffix`."""
        hits = [f for k, f in self.fns.items() if f.kind != "closure" and (f.def_ == suffix or f.def_.endswith("::" + suffix) or f.def_.endswith(">::" + suffix))]
        if len(hits) == 1:
            return hits[0]
        exact = [f for f in hits if f.def_ == suffix]
        if len(exact) == 1:
            return exact[0]
        if not hits:
            # a recorded helper that was inlined into its only caller and deleted: its code is in that caller now
            movers = [g for g, ms in (getattr(self, "moved_into", None) or {}).items()
                      if any(m == suffix or m.endswith("::" + suffix) or m.endswith(">::" + suffix) for m in ms)]
            if required and len(movers) == 1 and movers[0] in self.fns:
                return self.fns[movers[0]]
            if required:
                raise AnchorMissing("fn " + suffix)
            return None
        raise AnchorAmbiguous("fn %s: %s" % (suffix, [h.def_ for h in hits]))

    def fns_where(self, pred):
        return [f for f in self.fn_list if pred(f)]

    def adt(self, suffix, required=True):
        hits = [a for p, a in self.adts.items() if p == suffix or p.endswith("::" + suffix)]
        if len(hits) == 1:
            return hits[0]
        if not hits:
            if required:
                raise AnchorMissing("adt " + suffix)
            return None
        raise AnchorAmbiguous("adt %s: %s" % (suffix, [h["path"] for h in hits]))

    def body_fns(self):
        """Fns that have a HIR body (non-derived fns/methods)."""
        return [f for f in self.fn_list if f.body is not None and not f.absorbed]

    def impls_of(self, trait_suffix):
        return [i for i in self.impls if i.get("trait") and (i["trait"] == trait_suffix or i["trait"].endswith("::" + trait_suffix))]

    def has_impl(self, self_ty_suffix, trait_suffix):
        for i in self.impls_of(trait_suffix):
            if i["nself"] == self_ty_suffix or i["nself"].endswith("::" + self_ty_suffix):
                return True
        return False

    # ---- call graph

    @property
    def callgraph(self):
        if self._cg is None:
            from . import callgraph
            self._cg = callgraph.CallGraph(self)
        return self._cg


class AnchorMissing(Exception):
    pass


class AnchorAmbiguous(Exception):
    pass


def _resolve_types(f, types):
    """Replace type-table indices by strings everywhere in a fn fact (in place)."""
    def fix(x):
        if isinstance(x, dict):
            for k in list(x.keys()):
                v = x[k]
                if k in _TY_KEYS and isinstance(v, int):
                    x[k] = types[v] if 0 <= v < len(types) else "?"
                elif isinstance(v, (dict, list)):
                    fix(v)
        elif isinstance(x, list):
            for y in x:
                fix(y)
    if "body" in f:
        fix(f["body"])
    if "params" in f:
        fix(f["params"])
    if "ret" in f and isinstance(f["ret"], int):
        f["ret"] = types[f["ret"]]
    m = f.get("mir")
    if m:
        m["locals"] = [types[i] if isinstance(i, int) and 0 <= i < len(types) else "?" for i in m["locals"]]
        for b in m["blocks"]:
            t = b["term"]
            for k in ("a0", "fty"):
                if isinstance(t.get(k), int):
                    t[k] = types[t[k]]
            for s in b["stmts"]:
                rv = s.get("rv", {})
                if isinstance(rv.get("to"), int):
                    rv["to"] = types[rv["to"]]
