"""Build (or reuse) the fact base for /repo's *current working tree*.

The facts are produced by the rustc_private driver `iwe-facts`, injected with
RUSTC_WORKSPACE_WRAPPER under `cargo +nightly check --offline --workspace`.  They are cached
content-addressed: the cache key is a SHA-256 over every source file the compiler reads
(`*.rs`, `Cargo.toml`, `Cargo.lock`, `build.rs`) plus the driver binary itself, so a cache hit
can never be stale.  Nothing is kept under /tmp.
"""
import fcntl
import hashlib
import json
import os
import shutil
import subprocess
import sys
import time

VERIF = os.path.dirname(os.path.dirname(os.path.abspath(__file__)))
REPO = os.environ.get("IWE_REPO", "/repo")
CACHE = os.environ.get("IWE_VERIF_CACHE", os.path.join(VERIF, ".cache"))
DRIVER_DIR = os.path.join(VERIF, "engine", "iwe-facts")
DRIVER = os.path.join(DRIVER_DIR, "target", "release", "iwe-facts")
EXPECTED_UNITS = ["liwe-lib", "iwe-bin", "iwes-lib", "iwes-bin"]


def _run(cmd, **kw):
    return subprocess.run(cmd, stdout=subprocess.PIPE, stderr=subprocess.STDOUT, text=True, **kw)


def nightly_sysroot():
    r = _run(["rustc", "+nightly", "--print", "sysroot"])
    if r.returncode != 0:
        raise RuntimeError("nightly toolchain missing: " + r.stdout)
    return r.stdout.strip().splitlines()[-1]


def ensure_driver():
    src_m = 0
    for root, _d, files in os.walk(os.path.join(DRIVER_DIR, "src")):
        for f in files:
            src_m = max(src_m, os.path.getmtime(os.path.join(root, f)))
    if os.path.exists(DRIVER) and os.path.getmtime(DRIVER) >= src_m:
        return
    env = dict(os.environ, CARGO_NET_OFFLINE="true")
    r = _run(["cargo", "build", "--offline", "--release"], cwd=DRIVER_DIR, env=env)
    if r.returncode != 0 or not os.path.exists(DRIVER):
        sys.stderr.write(r.stdout)
        raise RuntimeError("cannot build the iwe-facts driver")


def source_files(repo):
    out = []
    for root, dirs, files in os.walk(repo):
        dirs[:] = [d for d in dirs if d not in ("target", ".git", "node_modules")]
        for f in files:
            if f.endswith(".rs") or f in ("Cargo.toml", "Cargo.lock", "rust-toolchain.toml", "rust-toolchain"):
                out.append(os.path.join(root, f))
    out.sort()
    return out


def tree_hash(repo):
    h = hashlib.sha256()
    for p in source_files(repo):
        h.update(os.path.relpath(p, repo).encode())
        h.update(b"\0")
        with open(p, "rb") as fh:
            h.update(fh.read())
        h.update(b"\0")
    with open(DRIVER, "rb") as fh:
        h.update(hashlib.sha256(fh.read()).digest())
    return h.hexdigest()[:24]


def _complete(d):
    if not os.path.isdir(d):
        return False
    names = os.listdir(d)
    for u in EXPECTED_UNITS:
        if not any(n.startswith(u + "-") and n.endswith(".json") for n in names):
            return False
    return True


def build(repo=REPO, verbose=True):
    """Returns (facts_dir, sha, info). Raises RuntimeError (fail closed) if facts are incomplete."""
    t0 = time.time()
    ensure_driver()
    os.makedirs(os.path.join(CACHE, "facts"), exist_ok=True)
    sha = tree_hash(repo)
    out = os.path.join(CACHE, "facts", sha)
    if _complete(out):
        return out, sha, {"cached": True, "wall_s": round(time.time() - t0, 2)}
    lock = open(os.path.join(CACHE, "build.lock"), "w")
    fcntl.flock(lock, fcntl.LOCK_EX)
    try:
        if _complete(out):
            return out, sha, {"cached": True, "wall_s": round(time.time() - t0, 2)}
        tmp = out + ".tmp%d" % os.getpid()
        shutil.rmtree(tmp, ignore_errors=True)
        os.makedirs(tmp)
        # one target dir per repo location, so scratch copies do not thrash /repo's cache
        tname = "target" if os.path.realpath(repo) == "/repo" else "target-" + hashlib.sha256(os.path.realpath(repo).encode()).hexdigest()[:8]
        target = os.path.join(CACHE, tname)
        fp = os.path.join(target, "debug", ".fingerprint")
        if os.path.isdir(fp):
            for n in os.listdir(fp):
                if n.startswith(("liwe-", "iwe-", "iwes-")):
                    shutil.rmtree(os.path.join(fp, n), ignore_errors=True)
        env = dict(os.environ)
        env.update({
            "LD_LIBRARY_PATH": os.path.join(nightly_sysroot(), "lib") + ":" + env.get("LD_LIBRARY_PATH", ""),
            "RUSTFLAGS": "-Zmir-opt-level=0 -Awarnings",
            "RUSTC_WORKSPACE_WRAPPER": DRIVER,
            "IWE_FACTS_OUT": tmp,
            "CARGO_TARGET_DIR": target,
            "CARGO_NET_OFFLINE": "true",
            "CARGO_INCREMENTAL": "0",
        })
        env.pop("RUSTC_WRAPPER", None)
        r = _run(["cargo", "+nightly", "check", "--offline", "--workspace", "-q"], cwd=repo, env=env)
        if r.returncode != 0:
            shutil.rmtree(tmp, ignore_errors=True)
            raise RuntimeError("cargo check through the driver failed (the tree does not compile?):\n" + r.stdout[-4000:])
        if not _complete(tmp):
            got = os.listdir(tmp)
            shutil.rmtree(tmp, ignore_errors=True)
            raise RuntimeError("driver did not produce all fact files, got %r" % got)
        if os.path.isdir(out):
            shutil.rmtree(out, ignore_errors=True)
        os.rename(tmp, out)
        _prune(os.path.join(CACHE, "facts"), keep=int(os.environ.get("IWE_VERIF_CACHE_KEEP", "240")))
        # build directories of scratch copies (one per scratch location, ~300 MB each): keep the most recently used few
        _prune_targets(CACHE, keep=int(os.environ.get("IWE_VERIF_TARGET_KEEP", "10")))
        return out, sha, {"cached": False, "wall_s": round(time.time() - t0, 2)}
    finally:
        fcntl.flock(lock, fcntl.LOCK_UN)
        lock.close()


def _prune_targets(cache, keep):
    ents = [os.path.join(cache, n) for n in os.listdir(cache) if n.startswith("target-") and os.path.isdir(os.path.join(cache, n))]
    ents.sort(key=os.path.getmtime, reverse=True)
    for e in ents[keep:]:
        shutil.rmtree(e, ignore_errors=True)


def _prune(d, keep):
    ents = [os.path.join(d, n) for n in os.listdir(d)]
    ents = [e for e in ents if os.path.isdir(e)]
    ents.sort(key=os.path.getmtime, reverse=True)
    for e in ents[keep:]:
        shutil.rmtree(e, ignore_errors=True)


if __name__ == "__main__":
    d, sha, info = build(sys.argv[1] if len(sys.argv) > 1 else REPO)
    print(json.dumps({"dir": d, "sha": sha, **info}))
