"""Virtual inlining of helper fns the rules have never seen ("extract function" tolerance).

The rules were written against the fns of the pinned tree (tables/signatures.json records their names).  A cleanup that moves part of
an anchored fn into a new private helper leaves the behaviour unchanged but hides that part from every rule that looks at the anchored fn's
body.  While the facts load, every call to an *unrecorded* fn (one that is neither in the signature table nor recognised as a renamed
recorded fn) is therefore replaced, in the caller's typed HIR tree, by the helper's body:

    recv.helper(a, b)        ==>   { let <p1> = a; let <p2> = b; <body of helper, locals renumbered, self := recv> }   (marked "inl")

* parameters bound by a plain name whose argument is a side-effect-free place / literal (`self`, `x`, `self.f`, `&x`) are substituted, the
  others are bound by a `let` in front of the body (evaluation order of the arguments is kept);
* `return e` inside the helper (outside its closures) becomes an `iret` node - it leaves the helper, not the caller - so rules about early
  exits of the caller do not mistake it for one;
* nesting of unrecorded helpers is followed to depth 4; a helper that (directly) calls itself is left alone;
* the helper stays in the fact base (the call graph needs it) but is flagged `absorbed`: inventories skip it and count its constructs in the
  callers instead; the callers remember it in `absorbed_fns` so that MIR-level scans (arithmetic asserts, explicit panics) can follow.

On the pinned tree nothing is unrecorded, so this is the identity there.
"""
import copy
import json
import os

from . import factbase as fb

VERIF = os.path.dirname(os.path.dirname(os.path.abspath(__file__)))
TABLE = os.path.join(VERIF, "tables", "signatures.json")
MAX_DEPTH = 4


def _recorded():
    if not os.path.exists(TABLE):
        return None
    with open(TABLE) as fh:
        t = json.load(fh)
    out = {}
    for unit, rec in t.items():
        out[unit] = set(fb.norm(d) for d in rec)
    return out


_SIGS = None


def _recorded_sigs():
    """{unit: {normalised def: recorded signature}}"""
    global _SIGS
    if _SIGS is None:
        _SIGS = {}
        if os.path.exists(TABLE):
            with open(TABLE) as fh:
                t = json.load(fh)
            for unit, rec in t.items():
                _SIGS[unit] = dict((fb.norm(d), sg) for d, sg in rec.items())
    return _SIGS


def _short_ty(t):
    import re as _re
    t = _re.sub(r"'[a-zA-Z_][a-zA-Z0-9_]*\s*", "", str(t or ""))
    t = _re.sub(r"(?:[A-Za-z_][A-Za-z0-9_]*::)+", "", t)
    return t.replace("<>", "").replace(" ", "")


def _max_id(node):
    m = 0
    stack = [node]
    while stack:
        x = stack.pop()
        if isinstance(x, dict):
            i = x.get("id")
            if isinstance(i, int) and i > m and (x.get("k") in ("p_bind", "path") or "nproj" in x):
                m = i
            stack.extend(v for v in x.values() if isinstance(v, (dict, list)))
        elif isinstance(x, list):
            stack.extend(v for v in x if isinstance(v, (dict, list)))
    return m


def _simple(e, depth=0):
    """Side-effect-free place / literal expression that may be duplicated."""
    if e is None or depth > 4:
        return False
    k = e.get("k")
    if k == "lit":
        return True
    if k == "path":
        return True
    if k == "field":
        return _simple(e.get("e"), depth + 1)
    if k == "addrof":
        return _simple(e.get("e"), depth + 1)
    if k == "unary" and e.get("op") == "*":
        return _simple(e.get("e"), depth + 1)
    return False


def _assigned_locals(body):
    out = set()
    for node in fb.walk(body):
        if node.get("k") in ("assign", "assignop"):
            l = node["l"]
            while isinstance(l, dict) and l.get("k") in ("field", "index", "unary"):
                l = l.get("e")
            if isinstance(l, dict) and l.get("k") == "path" and l.get("res") == "local":
                out.add(l["id"])
        if node.get("k") == "addrof" and node.get("mut"):
            l = node.get("e")
            if isinstance(l, dict) and l.get("k") == "path" and l.get("res") == "local":
                out.add(l["id"])
    return out


def _copy(node, off, subst, in_closure=False, only=None):
    """Deep copy with local ids shifted by `off`, parameter uses replaced per `subst` {old id: expr}, `ret` -> `iret` outside closures."""
    if isinstance(node, list):
        return [_copy(x, off, subst, in_closure, only) for x in node]
    if not isinstance(node, dict):
        return node
    k = node.get("k")
    if k == "path" and node.get("res") == "local" and node.get("id") in subst:
        r = copy.deepcopy(subst[node["id"]])
        return r
    out = {}
    inc = in_closure or k == "closure"
    for key, v in node.items():
        if key == "id" and isinstance(v, int) and (k in ("p_bind", "path") or "nproj" in node):
            if k == "path" and node.get("res") != "local":
                out[key] = v
            elif only is not None and v not in only:
                out[key] = v          # a captured outer local keeps its identity
            else:
                out[key] = v + off
        elif isinstance(v, (dict, list)):
            out[key] = _copy(v, off, subst, inc, only)
        else:
            out[key] = v
    if k == "ret" and not in_closure:
        out["k"] = "iret"
    # a field / method receiver that became `&x` after substitution: auto-deref makes `(&x).f` the same place as `x.f`
    if out.get("k") == "field" and isinstance(out.get("e"), dict) and out["e"].get("k") == "addrof":
        out["e"] = out["e"]["e"]
    if out.get("k") == "mcall" and isinstance(out.get("recv"), dict) and out["recv"].get("k") == "addrof":
        out["recv"] = out["recv"]["e"]
    return out


def _lit_bool(e):
    while isinstance(e, dict) and e.get("k") == "block" and not e.get("stmts") and e.get("e") is not None:
        e = e["e"]
    if isinstance(e, dict) and e.get("k") == "lit" and str(e.get("v", "")).startswith("bool:"):
        return e["v"] == "bool:true"
    if isinstance(e, dict) and e.get("k") == "unary" and e.get("op") == "!":
        v = _lit_bool(e.get("e"))
        return None if v is None else (not v)
    return None


def _fold(node):
    """`if true { A } else { B }` -> A (a flag parameter that was given a literal): in place for children, returns the replacement."""
    if isinstance(node, list):
        for i, x in enumerate(node):
            node[i] = _fold(x)
        return node
    if not isinstance(node, dict):
        return node
    for key, v in list(node.items()):
        if isinstance(v, (dict, list)):
            node[key] = _fold(v)
    if node.get("k") == "if" and isinstance(node.get("c"), dict) and node["c"].get("k") != "letx":
        v = _lit_bool(node["c"])
        if v is True:
            return node.get("t")
        if v is False:
            return node.get("e") if node.get("e") is not None else {"k": "block", "stmts": [], "e": None, "ty": "()", "ln": node.get("ln"), "s": node.get("s")}
    if node.get("k") == "binary" and node.get("op") in ("&&", "||"):
        l, r = _lit_bool(node.get("l")), _lit_bool(node.get("r"))
        if node["op"] == "&&":
            if l is True:
                return node["r"]
            if r is True:
                return node["l"]
            if l is False or r is False:
                return {"k": "lit", "v": "bool:false", "ty": "bool", "ln": node.get("ln"), "s": node.get("s")}
        else:
            if l is False:
                return node["r"]
            if r is False:
                return node["l"]
            if l is True or r is True:
                return {"k": "lit", "v": "bool:true", "ty": "bool", "ln": node.get("ln"), "s": node.get("s")}
    return node


def _inline_call(call, helper, next_off):
    """-> replacement block node for `call` (a call/mcall whose callee is `helper`), or None if the shapes do not line up."""
    params = helper.params
    args = list(call.get("args", []))
    if call.get("k") == "mcall":
        args = [call.get("recv")] + args
    if len(args) != len(params) or helper.body is None:
        return None
    assigned = _assigned_locals(helper.body)
    subst, lets = {}, []
    for p, a in zip(params, args):
        pat = p.get("pat") or {}
        if pat.get("k") == "p_bind" and "sub" not in pat and pat.get("id") not in assigned and _simple(a):
            subst[pat["id"]] = a
        else:
            lets.append({"k": "let", "pat": _copy(pat, next_off, {}), "init": a, "ln": call.get("ln"), "s": call.get("s")})
    body = _copy(helper.body, next_off, subst)
    if any(_lit_bool(a) is not None for a in subst.values()):
        body = _fold(body)
    blk = {"k": "block", "stmts": lets, "e": body, "ty": call.get("ty"), "ln": call.get("ln"), "s": call.get("s"), "inl": helper.def_}
    if call.get("m"):
        blk["m"] = call["m"]
    return blk


def _rewrite(node, helpers, state, depth):
    """Replace calls to helpers under `node` (in place for children; returns the possibly replaced node)."""
    if isinstance(node, list):
        for i, x in enumerate(node):
            node[i] = _rewrite(x, helpers, state, depth)
        return node
    if not isinstance(node, dict):
        return node
    for key, v in list(node.items()):
        if isinstance(v, (dict, list)):
            if key == "f" and node.get("k") == "call" and fb.norm(node.get("def") or "") in helpers:
                continue
            node[key] = _rewrite(v, helpers, state, depth)
    # a helper passed as a value (`.filter(is_markdown)`, `.sorted_by(compare)`): the closure it stands for
    if node.get("k") == "path" and node.get("res") != "local" and node.get("def") and fb.norm(node["def"]) in helpers:
        h = helpers[fb.norm(node["def"])]
        if depth < MAX_DEPTH and h.def_ not in state["stack"] and h.body is not None:
            state["next"] += 1000
            off = state["next"]
            state["used"].add(h.def_)
            clo = {"k": "closure", "def": h.def_, "move": False, "params": [_copy(p.get("pat"), off, {}) for p in h.params], "caps": [],
                   "body": _copy(h.body, off, {}, in_closure=True), "ty": node.get("ty"), "ln": node.get("ln"), "s": node.get("s"), "inl": h.def_}
            state["stack"].append(h.def_)
            try:
                clo["body"] = _rewrite(clo["body"], helpers, state, depth + 1)
            finally:
                state["stack"].pop()
            return clo
    if node.get("k") in ("call", "mcall") and node.get("def"):
        h = helpers.get(fb.norm(node["def"]))
        if h is None and node.get("rdef"):
            # a call through a std conversion trait that resolves to an unrecorded impl of the workspace (`ReferenceType::from(x)`, `x.into()`)
            h = helpers.get(fb.norm(node["rdef"]))
        if h is not None and depth < MAX_DEPTH and h.def_ not in state["stack"]:
            state["next"] += 1000
            blk = _inline_call(node, h, state["next"])
            if blk is not None:
                state["used"].add(h.def_)
                state["stack"].append(h.def_)
                try:
                    blk["e"] = _rewrite(blk["e"], helpers, state, depth + 1)
                finally:
                    state["stack"].pop()
                return blk
    return node


def _bound_ids(node):
    """Local ids bound by patterns anywhere inside `node` (closure parameters, inner lets, match arms)."""
    out = set()
    stack = [node]
    while stack:
        x = stack.pop()
        if isinstance(x, dict):
            if x.get("k") == "p_bind" and isinstance(x.get("id"), int):
                out.add(x["id"])
            stack.extend(v for v in x.values() if isinstance(v, (dict, list)))
        elif isinstance(x, list):
            stack.extend(v for v in x if isinstance(v, (dict, list)))
    return out


def _closure_lets(body):
    """{local id: closure node} for `let name = |..| ..;` locals that are never reassigned."""
    assigned = _assigned_locals(body)
    out = {}
    for node in fb.walk(body):
        if node.get("k") == "let" and isinstance(node.get("init"), dict) and node["init"].get("k") == "closure":
            pat = node.get("pat") or {}
            if pat.get("k") == "p_bind" and "sub" not in pat and pat.get("id") not in assigned:
                out[pat["id"]] = node["init"]
    return out


def _inline_local_closures(facts):
    n = 0
    for g in facts.fn_list:
        if g.kind == "closure" or g.body is None or g.crate not in ("liwe", "iwes", "iwe"):
            continue
        clos = _closure_lets(g.body)
        if not clos:
            continue
        state = {"next": (_max_id(g.body) // 1000 + 1) * 1000, "count": 0}
        # the callee position of a call is handled by the `call` case; do not replace the path inside it first
        g.body = _subst_calls_then_refs(g.body, clos, state)
        g.d["body"] = g.body
        g._canon_env = None
        n += state["count"]
    return n


def _subst_calls_then_refs(body, clos, state):
    # pass 1: calls `name(args)`; pass 2: remaining references `..map(name)`
    def calls(node):
        if isinstance(node, list):
            for i, x in enumerate(node):
                node[i] = calls(x)
            return node
        if not isinstance(node, dict):
            return node
        for key, v in list(node.items()):
            if isinstance(v, (dict, list)):
                if node.get("k") == "call" and key == "f":
                    continue
                node[key] = calls(v)
        if node.get("k") == "call":
            return _subst_closures_call_only(node, clos, state)
        return node
    body = calls(body)

    def refs(node, in_let_init=False):
        if isinstance(node, list):
            for i, x in enumerate(node):
                node[i] = refs(x)
            return node
        if not isinstance(node, dict):
            return node
        for key, v in list(node.items()):
            if isinstance(v, (dict, list)):
                node[key] = refs(v)
        if node.get("k") == "path" and node.get("res") == "local" and node.get("id") in clos:
            state["next"] += 1000
            state["count"] += 1
            return _copy(clos[node["id"]], state["next"], {}, in_closure=True, only=_bound_ids(clos[node["id"]]))
        return node
    return refs(body)


def _subst_closures_call_only(node, clos, state):
    f = node.get("f")
    if isinstance(f, dict) and f.get("k") == "path" and f.get("res") == "local" and f.get("id") in clos:
        cl = clos[f["id"]]
        params, args = cl.get("params", []), node.get("args", [])
        if len(params) == len(args):
            state["next"] += 1000
            off = state["next"]
            subst, lets = {}, []
            assigned = _assigned_locals(cl["body"])
            only = _bound_ids(cl)
            for p, a in zip(params, args):
                if p.get("k") == "p_wild" and _simple(a):
                    continue                      # `|_| ..` applied to a plain value: nothing to bind, nothing to evaluate
                if p.get("k") == "p_bind" and "sub" not in p and p.get("id") not in assigned and _simple(a):
                    subst[p["id"]] = a
                else:
                    lets.append({"k": "let", "pat": _copy(p, off, {}, only=only), "init": a, "ln": node.get("ln"), "s": node.get("s")})
            body = _copy(cl["body"], off, subst, in_closure=True, only=only)
            state["count"] += 1
            return {"k": "block", "stmts": lets, "e": body, "ty": node.get("ty"), "ln": node.get("ln"), "s": node.get("s"), "inl": "<local closure>"}
    return node


def _args_of(call):
    return ([call.get("recv")] if call.get("k") == "mcall" else []) + list(call.get("args", []))


def _specialise_merged(facts):
    """Two recorded fns that were merged into one unrecorded fn with a bool flag (`insert_from_iter` + `append_from_visitor` ->
    `copy_from_iter(.., as_child)`) are given back their own bodies: for each literal value of the flag, a copy of the merged body with the
    flag replaced by the literal and the branches on it folded.  The copy is stored under the recorded name when that is decidable - a recorded
    fn that survived as a pure wrapper `fn old(x) { merged(x, true) }`, or the single recorded fn of the same owner and parameter types that
    is gone - and every call `merged(.., <literal>)` is rewritten to a call of that name."""
    rec = _recorded()
    if rec is None:
        return []
    notes = []
    for F in list(facts.fn_list):
        if F.kind == "closure" or F.body is None or F.crate not in ("liwe", "iwes", "iwe") or F.absorbed:
            continue
        known = rec.get(F.unit)
        if known is None or F.def_ in known or F.impl_trait or F.in_trait or "::tests::" in F.def_:
            continue
        flags = [i for i, p in enumerate(F.params) if str(p.get("ty") or "") == "bool" and (p.get("pat") or {}).get("k") == "p_bind"]
        if len(flags) != 1:
            continue
        fi = flags[0]
        flag_id = F.params[fi]["pat"]["id"]
        # all call sites: literal flag, or (inside F) F's own flag
        sites = []
        okf = True
        for g in facts.fn_list:
            if g.body is None:
                continue
            for c in fb.calls_in(g.body):
                if fb.norm(c.get("def") or "") != F.def_:
                    continue
                a = _args_of(c)
                if len(a) != len(F.params):
                    okf = False
                    continue
                v = _lit_bool(a[fi])
                own = g is F and a[fi].get("k") == "path" and a[fi].get("id") == flag_id
                if v is None and not own:
                    okf = False
                sites.append((g, c, v))
        if not okf or not sites:
            continue
        values = sorted(set(v for _g, _c, v in sites if v is not None))
        if not values:
            continue
        # names for the specialisations
        names = {}
        owner_recorded_missing = [d for d in known if d not in facts.fns and d.rsplit("::", 1)[0] == F.def_.rsplit("::", 1)[0]]
        for v in values:
            # a recorded fn that is now `fn g(params) { F(params, v) }`
            for g in facts.fn_list:
                if g is F or g.body is None or g.def_ not in known or g.kind == "closure":
                    continue
                b = g.body
                while isinstance(b, dict) and b.get("k") == "block" and len(b.get("stmts", [])) + (1 if b.get("e") is not None else 0) == 1:
                    b = b["e"] if b.get("e") is not None else b["stmts"][0]
                if isinstance(b, dict) and b.get("k") in ("call", "mcall") and fb.norm(b.get("def") or "") == F.def_ and _lit_bool(_args_of(b)[fi]) is v and len(g.params) == len(F.params) - 1:
                    names[v] = ("wrapper", g)
        rest = [v for v in values if v not in names]
        if len(rest) == 1 and len(owner_recorded_missing) > 1:
            # several recorded fns of this owner are gone: the one with the merged fn's parameter types (flag left out)
            want = [_short_ty(p.get("ty")) for i, p in enumerate(F.params) if i != fi]
            sigs = _recorded_sigs().get(F.unit, {})
            owner_recorded_missing = [d for d in owner_recorded_missing if [_short_ty(t) for t in (sigs.get(d) or {}).get("params", [])] == want]
        if len(rest) == 1 and len(owner_recorded_missing) == 1:
            names[rest[0]] = ("missing", owner_recorded_missing[0])
        if not names:
            continue
        # build the specialised bodies
        base = (_max_id(F.body) // 1000 + 1) * 1000
        spec = {}
        for n_, v in enumerate(values):
            if v not in names:
                continue
            lit = {"k": "lit", "v": "bool:true" if v else "bool:false", "ty": "bool"}
            body = _fold(_copy(F.body, base + 100000 * (n_ + 1), {flag_id: lit}, in_closure=True))
            spec[v] = body

        def target_def(v):
            kind, what = names[v]
            return what.def_ if kind == "wrapper" else what

        def retarget(node):
            # calls `F(.., <literal v>)` -> calls of the recorded name (flag argument dropped)
            if isinstance(node, list):
                for x in node:
                    retarget(x)
                return
            if not isinstance(node, dict):
                return
            for v_ in node.values():
                if isinstance(v_, (dict, list)):
                    retarget(v_)
            if node.get("k") in ("call", "mcall") and fb.norm(node.get("def") or "") == F.def_:
                a = _args_of(node)
                if len(a) == len(F.params):
                    v = _lit_bool(a[fi])
                    if v is not None and v in names:
                        td = target_def(v)
                        node["def"] = td
                        if "rdef" in node:
                            node["rdef"] = td
                        if node.get("k") == "mcall":
                            node["name"] = td.rsplit("::", 1)[-1]
                            del node["args"][fi - 1]
                        else:
                            del node["args"][fi]
        made = []
        for v, body in spec.items():
            kind, what = names[v]
            params = [p for i, p in enumerate(F.params) if i != fi]
            if kind == "wrapper":
                g = what
                g.body = body
                g.d["body"] = body
                g._canon_env = None
                g.absorbed_fns = sorted(set(list(g.absorbed_fns) + [F.def_]))
                # parameters of the wrapper keep their own ids: bind the merged fn's parameter ids to them
                lets = []
                for pf, pg in zip(params, g.params):
                    for (_n1, idf), (_n2, idg) in zip(fb.pat_bindings(pf["pat"]), fb.pat_bindings(pg["pat"])):
                        pass
                # simplest sound choice: adopt the merged fn's parameter list (ids are those used in the copied body)
                off = base + 100000 * (values.index(v) + 1)
                g.params = [{"pat": _copy(p["pat"], off, {}), "ty": p.get("ty")} for p in params]
                g.d["params"] = g.params
                made.append(g.def_)
            else:
                d = dict(F.d)
                d["def"] = what
                off = base + 100000 * (values.index(v) + 1)
                d["params"] = [{"pat": _copy(p["pat"], off, {}), "ty": p.get("ty")} for p in params]
                d["body"] = body
                syn = fb.Fn(d, F.crate, F.unit)
                syn.facts = facts
                syn.absorbed_fns = [F.def_]
                facts.fns[syn.def_] = syn
                facts.fn_list.append(syn)
                facts.synthetic = getattr(facts, "synthetic", {})
                facts.synthetic[syn.def_] = F.def_
                made.append(syn.def_)
        for g in facts.fn_list:
            if g.body is not None:
                retarget(g.body)
        F.absorbed = True
        facts.specialised = getattr(facts, "specialised", {})
        facts.specialised[F.def_] = list(made)
        notes.append("unrecorded fn `%s` merges recorded fns behind a bool flag: analysed as %s" % (fb.last2(F.def_), ", ".join("`%s`" % fb.last2(m) for m in made)))
    return notes


def _strip_ref(e):
    """Look through `&x`, `&mut x`, `*x`, `x.clone()` - forms in which a value is handed on unchanged."""
    while isinstance(e, dict):
        if e.get("k") in ("addrof", "unary") and isinstance(e.get("e"), dict):
            e = e["e"]
        elif e.get("k") == "mcall" and e.get("name") in ("clone", "to_owned", "borrow") and not e.get("args"):
            e = e.get("recv")
        elif e.get("k") == "block" and not e.get("stmts") and e.get("e") is not None:
            e = e["e"]
        else:
            break
    return e


def _beta(node, state):
    """`(|a, b| body)(x, y)` -> `{ let a = x; let b = y; body }` (a closure argument that was substituted for the parameter it was passed as)."""
    if isinstance(node, list):
        for i, x in enumerate(node):
            node[i] = _beta(x, state)
        return node
    if not isinstance(node, dict):
        return node
    for key, v in list(node.items()):
        if isinstance(v, (dict, list)):
            node[key] = _beta(v, state)
    if node.get("k") == "call" and isinstance(node.get("f"), dict):
        f = _strip_ref(node["f"])
        if isinstance(f, dict) and f.get("k") == "closure" and len(f.get("params", [])) == len(node.get("args", [])):
            state["next"] += 1000
            off = state["next"]
            only = _bound_ids(f)
            subst, lets = {}, []
            assigned = _assigned_locals(f["body"])
            for p, a in zip(f["params"], node["args"]):
                if p.get("k") == "p_wild":
                    if not _simple(a):
                        lets.append({"k": "let", "pat": {"k": "p_wild"}, "init": a, "ln": node.get("ln"), "s": node.get("s")})
                elif p.get("k") == "p_bind" and "sub" not in p and p.get("id") not in assigned and _simple(a):
                    subst[p["id"]] = a
                else:
                    lets.append({"k": "let", "pat": _copy(p, off, {}, only=only), "init": a, "ln": node.get("ln"), "s": node.get("s")})
            body = _copy(f["body"], off, subst, in_closure=True, only=only)
            return {"k": "block", "stmts": lets, "e": body, "ty": node.get("ty"), "ln": node.get("ln"), "s": node.get("s"), "inl": "<closure argument>"}
        # a fn item that was substituted for a fn-pointer parameter: `is_kind(self)` with is_kind := Tree::is_list  ->  `self.is_list()`
        if isinstance(f, dict) and f.get("k") == "path" and f.get("res") != "local" and f.get("def") and not node.get("def"):
            d = fb.norm(f["def"])
            g = (state.get("facts").fns.get(d) if state.get("facts") is not None else None)
            if g is not None and g.kind != "closure":
                args = list(node.get("args", []))
                if g.params and (g.params[0].get("pat") or {}).get("name") == "self" and args:
                    return {"k": "mcall", "name": d.rsplit("::", 1)[-1], "def": f["def"], "recv": _strip_ref(args[0]) if args[0].get("k") == "addrof" else args[0],
                            "args": args[1:], "ty": node.get("ty"), "ln": node.get("ln"), "s": node.get("s")}
                out = dict(node)
                out["def"] = f["def"]
                return out
    return node


def _specialise_wrappers(facts):
    """A recorded fn that became a thin wrapper around an unrecorded *recursive* generic helper (`replace(id, t)` = `rewrite_at(id, &|_| t.clone())`,
    where `rewrite_at` recurses with the same id and the same closure) gets its own recursive body back: the helper's body with the wrapper's
    arguments substituted, closure arguments applied in place, and the helper's recursive calls turned into recursive calls of the wrapper."""
    rec = _recorded()
    if rec is None:
        return []
    notes = []
    for F in list(facts.fn_list):
        if F.kind == "closure" or F.body is None or F.crate not in ("liwe", "iwes", "iwe") or F.absorbed:
            continue
        known = rec.get(F.unit)
        if known is None or F.def_ in known or F.impl_trait or F.in_trait or "::tests::" in F.def_:
            continue
        inner = [c for c in fb.calls_in(F.body) if fb.norm(c.get("def") or "") == F.def_]
        if not inner:
            continue                      # not recursive: the ordinary helper inlining handles it
        fparams = []
        for p in F.params:
            pat = p.get("pat") or {}
            if pat.get("k") != "p_bind" or "sub" in pat:
                fparams = None
                break
            fparams.append(pat["id"])
        if not fparams:
            continue
        done = []
        for G in facts.fn_list:
            if G is F or G.body is None or G.kind == "closure" or G.def_ not in known:
                continue
            b = G.body
            while isinstance(b, dict) and b.get("k") == "block" and len(b.get("stmts", [])) + (1 if b.get("e") is not None else 0) == 1:
                b = b["e"] if b.get("e") is not None else b["stmts"][0]
            if not (isinstance(b, dict) and b.get("k") in ("call", "mcall") and fb.norm(b.get("def") or "") == F.def_):
                continue
            gargs = _args_of(b)
            if len(gargs) != len(fparams):
                continue
            gparams = {}
            okp = True
            for k_, p in enumerate(G.params):
                pat = p.get("pat") or {}
                if pat.get("k") != "p_bind" or "sub" in pat:
                    okp = False
                    break
                gparams[pat["id"]] = (k_, pat.get("name"), p.get("ty"))
            if not okp:
                continue
            # forwarded: F's parameter i receives G's parameter k unchanged; bound: it receives some other expression
            fwd = {}
            for i, a in enumerate(gargs):
                a0 = _strip_ref(a)
                if isinstance(a0, dict) and a0.get("k") == "path" and a0.get("res") == "local" and a0.get("id") in gparams:
                    fwd[i] = a0["id"]
            bound = [i for i in range(len(fparams)) if i not in fwd]
            # every recursive call of F hands its bound parameters on unchanged
            good = True
            for c in inner:
                xs = _args_of(c)
                if len(xs) != len(fparams):
                    good = False
                    break
                for i in bound:
                    x0 = _strip_ref(xs[i])
                    if not (isinstance(x0, dict) and x0.get("k") == "path" and x0.get("res") == "local" and x0.get("id") == fparams[i]):
                        good = False
            if not good:
                continue
            state = {"next": (max(_max_id(F.body), _max_id(G.body)) // 1000 + 2) * 1000, "facts": facts}
            off = state["next"]
            body = _copy(F.body, off, {}, in_closure=True)                 # F's locals renumbered; parameters too (offset ids)
            # recursive calls F(x..) -> G(y..)
            gid_by_k = dict((k_, gid) for gid, (k_, _n, _t) in gparams.items())

            def retarget(node):
                if isinstance(node, list):
                    for x in node:
                        retarget(x)
                    return
                if not isinstance(node, dict):
                    return
                for v_ in node.values():
                    if isinstance(v_, (dict, list)):
                        retarget(v_)
                if node.get("k") in ("call", "mcall") and fb.norm(node.get("def") or "") == F.def_:
                    xs = _args_of(node)
                    ys = []
                    for k_ in range(len(G.params)):
                        gid = gid_by_k[k_]
                        src = [i for i, g_ in fwd.items() if g_ == gid]
                        if src:
                            ys.append(xs[src[0]])
                        else:
                            nm, ty = gparams[gid][1], gparams[gid][2]
                            ys.append({"k": "path", "res": "local", "id": gid, "name": nm, "ty": ty, "ln": node.get("ln"), "s": node.get("s")})
                    node["def"] = G.def_
                    if "rdef" in node:
                        node["rdef"] = G.def_
                    if G.params and (G.params[0].get("pat") or {}).get("name") == "self":
                        node["k"] = "mcall"
                        node["name"] = G.def_.rsplit("::", 1)[-1]
                        node["recv"] = ys[0]
                        node["args"] = ys[1:]
                        node.pop("f", None)
                    else:
                        node["k"] = "call"
                        node["args"] = ys
            retarget(body)
            # substitute F's (renumbered) parameters by G's argument expressions
            subst = dict((fparams[i] + off, gargs[i]) for i in range(len(fparams)))

            def substitute(node):
                if isinstance(node, list):
                    return [substitute(x) for x in node]
                if not isinstance(node, dict):
                    return node
                if node.get("k") == "path" and node.get("res") == "local" and node.get("id") in subst:
                    return copy.deepcopy(subst[node["id"]])
                return dict((k_, substitute(v_) if isinstance(v_, (dict, list)) else v_) for k_, v_ in node.items())
            body = substitute(body)
            body = _beta(body, state)
            body = _fold(body)
            G.body = body
            G.d["body"] = body
            G._canon_env = None
            G.absorbed_fns = sorted(set(list(G.absorbed_fns) + [F.def_]))
            done.append(G.def_)
        if done:
            F.absorbed = True
            facts.specialised = getattr(facts, "specialised", {})
            facts.specialised[F.def_] = sorted(set(facts.specialised.get(F.def_, []) + done))
            facts.specialised_separately = getattr(facts, "specialised_separately", set())
            facts.specialised_separately.add(F.def_)
            notes.append("unrecorded recursive helper `%s` is analysed specialised into its wrappers %s" % (fb.last2(F.def_), ", ".join("`%s`" % fb.last2(d) for d in done)))
    return notes


def _const_value(e, consts, depth=0):
    """The constant an initialiser stands for, as a tree of literals (None if it is anything else)."""
    if e is None or depth > 6:
        return None
    k = e.get("k")
    if k == "lit":
        return e
    if k == "block" and not e.get("stmts") and e.get("e") is not None:
        return _const_value(e["e"], consts, depth + 1)
    if k in ("addrof", "unary", "cast"):
        inner = _const_value(e.get("e"), consts, depth + 1)
        if inner is None:
            return None
        if k == "addrof":
            return inner if inner.get("k") == "lit" else dict(e, e=inner)
        return dict(e, e=inner)
    if k in ("tup", "array"):
        es = [_const_value(x, consts, depth + 1) for x in e.get("es", [])]
        return None if any(x is None for x in es) else dict(e, es=es)
    if k == "path" and e.get("res") == "def" and e.get("dk") in ("Const", "AssocConst", "Static"):
        g = consts.get(fb.norm(e.get("def") or ""))
        return _const_value(g.body, consts, depth + 1) if g is not None and g.body is not None else None
    return None


def _propagate_consts(facts):
    """A literal that was given a name (`const METHOD_EXIT: &str = "exit";`, also as a pattern) since the recorded tree is read as the literal: rules that look for the value
    find it whether or not it has a name.  Recorded constants keep their names (the pinned tree is left as it is)."""
    rec = _recorded()
    if rec is None:
        return []
    consts = {}
    for f in facts.fn_list:
        if f.kind in ("const", "static") and f.body is not None and f.crate in ("liwe", "iwes", "iwe"):
            known = rec.get(f.unit)
            if known is None or f.def_ in known:
                continue
            consts[f.def_] = f
    if not consts:
        return []
    values = {}
    for d, f in consts.items():
        v = _const_value(f.body, consts)
        if v is not None:
            values[d] = v
    if not values:
        return []
    used = set()

    def visit(node):
        if isinstance(node, list):
            for x in node:
                visit(x)
            return
        if not isinstance(node, dict):
            return
        k = node.get("k")
        if k in ("path", "p_path") and node.get("res") == "def" and node.get("dk") in ("Const", "AssocConst", "Static"):
            d = fb.norm(node.get("def") or "")
            v = values.get(d)
            if v is not None:
                if k == "p_path":
                    if v.get("k") == "lit":
                        keep = {x: node[x] for x in ("s", "ln") if x in node}
                        node.clear()
                        node.update({"k": "p_lit", "v": v.get("v", "")})
                        node.update(keep)
                        used.add(d)
                    return
                keep = {x: node[x] for x in ("s", "ln", "ty") if x in node}
                node.clear()
                node.update(copy.deepcopy(v))
                node.update(keep)
                used.add(d)
                return
        for key, val in list(node.items()):
            if isinstance(val, (dict, list)):
                visit(val)
    for g in facts.fn_list:
        if g.body is not None and g.def_ not in values:
            visit(g.body)
            g._canon_env = None
    if not used:
        return []
    return ["%d named constant(s) introduced since the recorded tree are read as their values (%s)" % (len(used), ", ".join("`%s`" % fb.last_seg(x) for x in sorted(used)[:6]) + (" ..." if len(used) > 6 else ""))]


def apply(facts):
    """Inline unrecorded helper fns into their callers (in place). Returns notes for the evidence."""
    notes0 = []
    try:
        notes0 += _propagate_consts(facts)
    except Exception as e:
        notes0.append("constant propagation disabled: %s" % e)
    try:
        notes0 += _specialise_merged(facts)
    except Exception as e:
        notes0.append("merged-fn specialisation disabled: %s" % e)
    try:
        notes0 += _specialise_wrappers(facts)
    except Exception as e:
        notes0.append("wrapper specialisation disabled: %s" % e)
    try:
        n = _inline_local_closures(facts)
        if n:
            notes0.append("%d use(s) of local closures (`let f = |..| ..`) are analysed at their use sites" % n)
    except Exception as e:
        notes0.append("local-closure inlining disabled: %s" % e)
    notes1 = _apply_helpers(facts)
    # closures that arrived as arguments of inlined helpers (`let keep = |_| true;` in front of the helper's body): apply them in place
    # too and fold the conditions that became literal
    try:
        if _inline_local_closures(facts):
            for g in facts.fn_list:
                if g.body is not None and g.absorbed_fns:
                    g.body = _fold(g.body)
                    g.d["body"] = g.body
                    g._canon_env = None
    except Exception as e:
        notes1.append("second closure pass disabled: %s" % e)
    return notes0 + notes1


def _apply_helpers(facts):
    rec = _recorded()
    if rec is None:
        return []
    helpers = {}
    for f in facts.fn_list:
        if f.kind == "closure" or f.body is None or f.crate not in ("liwe", "iwes", "iwe"):
            continue
        if f.d.get("derived") or f.in_trait:
            continue
        # impl fns of the std conversion traits are plain helpers with a trait's name (a `match` table moved into `impl From<A> for B`); other trait impls are not touched
        if f.impl_trait and not fb.norm(f.impl_trait).startswith(("std::convert::From", "core::convert::From", "std::convert::Into", "core::convert::Into")):
            continue
        known = rec.get(f.unit)
        if known is None or f.def_ in known:
            continue
        if "::tests::" in f.def_ or "::test::" in f.def_:
            continue
        # directly self-recursive helpers are left alone
        if any(fb.callee(c) == f.def_ for c in fb.calls_in(f.body)):
            continue
        helpers[f.def_] = f
    if not helpers:
        return []
    notes = []
    absorbed_into = {}
    for g in facts.fn_list:
        if g.kind == "closure" or g.body is None or g.def_ in helpers:
            continue
        if not any(fb.norm(c.get("def") or "") in helpers or fb.norm(c.get("rdef") or "") in helpers for c in fb.walk(g.body) if c.get("k") in ("call", "mcall", "path") and c.get("def")):
            continue
        state = {"next": (_max_id(g.body) // 1000 + 1) * 1000, "used": set(), "stack": [g.def_]}
        g.body = _rewrite(g.body, helpers, state, 0)
        g.d["body"] = g.body
        g._canon_env = None
        g.absorbed_fns = sorted(state["used"])
        for h in state["used"]:
            absorbed_into.setdefault(h, []).append(g.def_)
    for h, gs in sorted(absorbed_into.items()):
        helpers[h].absorbed = True
        notes.append("unrecorded helper `%s` is analysed inlined into %s" % (h, ", ".join("`%s`" % fb.last2(g) for g in gs[:4]) + (" ..." if len(gs) > 4 else "")))
    return notes


def expanded(facts, f, depth=2):
    """A copy of fn `f` whose calls to other fns of the same type (`self.helper(..)`, `Self::helper(..)`; recorded or not, not recursive) are replaced by
    their bodies - for rules that ask "does this fn, directly or through its own type's helpers, do X".  The fact base itself is not changed."""
    if f.body is None:
        return f
    owner = f.impl_self
    if not owner:
        return f
    helpers = {}
    for g in facts.fn_list:
        if g is f or g.kind == "closure" or g.body is None or g.impl_self != owner:
            continue
        if any(fb.callee(c) == g.def_ or fb.rcallee(c) == g.def_ for c in fb.calls_in(g.body)):
            continue
        helpers[g.def_] = g
    if not helpers:
        return f
    body = copy.deepcopy(f.body)
    # resolved trait-method calls (`self.next_id()` -> `<T as Trait>::next_id`) are looked up by their resolved name
    for node in fb.walk(body):
        if node.get("k") in ("call", "mcall") and node.get("rdef") and fb.norm(node["rdef"]) in helpers:
            node["def"] = node["rdef"]
    state = {"next": (_max_id(body) // 1000 + 1) * 1000, "used": set(), "stack": [f.def_]}
    global MAX_DEPTH
    old = MAX_DEPTH
    MAX_DEPTH = depth
    try:
        body = _rewrite(body, helpers, state, 0)
    finally:
        MAX_DEPTH = old
    if not state["used"]:
        return f
    d = dict(f.d)
    d["body"] = body
    g = fb.Fn(d, f.crate, f.unit)
    g.body = body
    g.facts = facts
    g.absorbed_fns = sorted(set(list(f.absorbed_fns) + list(state["used"])))
    return g
