"""Control-flow-graph analyses over the mini-MIR emitted by the driver.

Edges: normal edges only by default (unwind edges are kept separately).  Cleanup blocks are the
landing pads of unwinding and are ignored by the path rules unless asked for.
"""
from .factbase import norm


class CFG:
    def __init__(self, mir):
        self.mir = mir
        self.blocks = mir["blocks"]
        n = len(self.blocks)
        self.n = n
        self.succ = [[] for _ in range(n)]
        self.unwind = [None] * n
        for i, b in enumerate(self.blocks):
            t = b["term"]
            k = t["k"]
            if k in ("goto", "drop", "assert"):
                self.succ[i].append(t["t"])
            elif k == "call":
                if "t" in t:
                    self.succ[i].append(t["t"])
            elif k == "switch":
                for x in t["ts"]:
                    if x not in self.succ[i]:
                        self.succ[i].append(x)
                if t["o"] not in self.succ[i]:
                    self.succ[i].append(t["o"])
            if "uw" in t:
                self.unwind[i] = t["uw"]
        self.pred = [[] for _ in range(n)]
        for i in range(n):
            for s in self.succ[i]:
                self.pred[s].append(i)
        self.cleanup = [bool(b.get("cleanup")) for b in self.blocks]
        self.returns = [i for i, b in enumerate(self.blocks) if b["term"]["k"] == "ret"]
        self._idom = None
        self._reach_cache = {}
        self._pdom_sets = None

    # ------------------------------------------------------------ sites

    def calls(self, pred=None):
        """[(bb, term)] of call terminators (non-cleanup blocks) whose callee satisfies pred."""
        out = []
        for i, b in enumerate(self.blocks):
            if self.cleanup[i]:
                continue
            t = b["term"]
            if t["k"] != "call":
                continue
            f = norm(t.get("f")) if t.get("f") else None
            r = norm(t.get("res")) if t.get("res") else None
            if pred is None or (f and pred(f)) or (r and pred(r)):
                out.append((i, t))
        return out

    def call_by_span(self, span):
        """bb of the call terminator whose source span equals the HIR node span (None if absent)."""
        for i, b in enumerate(self.blocks):
            if self.cleanup[i]:
                continue
            t = b["term"]
            if t["k"] == "call" and t.get("s") == span:
                return i
        return None

    def blocks_in_span(self, span):
        """Non-cleanup blocks whose terminator or some statement lies inside `span`."""
        lo, hi = span
        out = []
        for i, b in enumerate(self.blocks):
            if self.cleanup[i]:
                continue
            s = b["term"].get("s")
            if s and lo <= s[0] and s[1] <= hi:
                out.append(i)
                continue
            for st in b["stmts"]:
                s = st.get("s")
                if s and lo <= s[0] and s[1] <= hi:
                    out.append(i)
                    break
        return out

    # ------------------------------------------------------------ dominators

    def _rpo(self):
        seen = [False] * self.n
        order = []
        stack = [(0, iter(self.succ[0]))]
        seen[0] = True
        while stack:
            v, it = stack[-1]
            adv = False
            for w in it:
                if not seen[w]:
                    seen[w] = True
                    stack.append((w, iter(self.succ[w])))
                    adv = True
                    break
            if not adv:
                order.append(v)
                stack.pop()
        order.reverse()
        return order

    @property
    def idom(self):
        if self._idom is None:
            rpo = self._rpo()
            num = {b: i for i, b in enumerate(rpo)}
            idom = {0: 0}
            changed = True
            while changed:
                changed = False
                for b in rpo[1:]:
                    new = None
                    for p in self.pred[b]:
                        if p in idom:
                            if new is None:
                                new = p
                            else:
                                a, c = p, new
                                while a != c:
                                    while num[a] > num[c]:
                                        a = idom[a]
                                    while num[c] > num[a]:
                                        c = idom[c]
                                new = a
                    if new is not None and idom.get(b) != new:
                        idom[b] = new
                        changed = True
            self._idom = idom
        return self._idom

    def dominates(self, a, b):
        """a dominates b (every path from entry to b passes a). Reflexive."""
        idom = self.idom
        if b not in idom or a not in idom:
            return False
        x = b
        while True:
            if x == a:
                return True
            if x == 0:
                return False
            x = idom[x]

    # ------------------------------------------------------------ reachability

    def reach_from(self, a):
        """Set of blocks reachable from a by >=1 normal edges."""
        if a in self._reach_cache:
            return self._reach_cache[a]
        seen = set()
        stack = list(self.succ[a])
        while stack:
            x = stack.pop()
            if x in seen:
                continue
            seen.add(x)
            stack.extend(self.succ[x])
        self._reach_cache[a] = seen
        return seen

    def reaches(self, a, b):
        return b in self.reach_from(a)

    def reachable(self):
        r = self.reach_from(0)
        r = set(r)
        r.add(0)
        return r

    # ------------------------------------------------------------ path queries

    def path_avoiding(self, src, dst_set, avoid):
        """Is there a path src ->* some block in dst_set that passes through no block in `avoid`
        (src itself is allowed to be in avoid only if src_in_avoid_ok)?  Returns a witness path or None."""
        avoid = set(avoid)
        dst_set = set(dst_set)
        if src in avoid:
            return None
        prev = {src: None}
        stack = [src]
        while stack:
            x = stack.pop()
            if x in dst_set:
                p = []
                while x is not None:
                    p.append(x)
                    x = prev[x]
                return list(reversed(p))
            for s in self.succ[x]:
                if s in avoid or s in prev:
                    continue
                prev[s] = x
                stack.append(s)
        return None

    def must_pass(self, src, dst_set, through):
        """Every path from src to any block in dst_set passes through a block in `through`."""
        return self.path_avoiding(src, dst_set, through) is None

    def return_blocks(self):
        return list(self.returns)

    # ------------------------------------------------------------ branch conditions

    def switch_on(self, bb):
        """For a switch terminator: describe what its discriminant was computed from.

        Returns dict(kind=..., ...) with kind in {call, discr, local, unknown}."""
        t = self.blocks[bb]["term"]
        if t["k"] != "switch":
            return None
        d = t["d"]
        loc = d.split(" ", 1)[1] if " " in d else d
        return self.origin_of(loc, bb)

    def origin_of(self, place, bb, depth=0):
        """Where does the value in `place` (a bare local like `_10`) at the end of block bb come from?"""
        if depth > 6:
            return {"kind": "unknown"}
        base = place.split(".")[0].split("[")[0].split("@")[0]
        # statements of this block, last assignment wins
        for st in reversed(self.blocks[bb]["stmts"]):
            if st["l"] == base:
                rv = st["rv"]
                if rv["k"] == "discr":
                    return {"kind": "discr", "of": rv["p"], "bb": bb}
                if rv["k"] in ("use", "cast") and rv.get("ops"):
                    op = rv["ops"][0]
                    if op.startswith(("copy ", "move ")):
                        return self.origin_of(op.split(" ", 1)[1], bb, depth + 1)
                    return {"kind": "const", "v": op}
                if rv["k"] == "binop":
                    return {"kind": "binop", "op": rv["op"], "ops": rv["ops"], "bb": bb}
                if rv["k"] == "unop":
                    inner = rv["ops"][0]
                    r = self.origin_of(inner.split(" ", 1)[1], bb, depth + 1) if " " in inner else {"kind": "unknown"}
                    return {"kind": "unop", "op": rv["op"], "of": r}
                return {"kind": rv["k"], "bb": bb}
        # defined as the destination of a call terminating a unique predecessor?
        preds = [p for p in self.pred[bb] if not self.cleanup[p]]
        if len(preds) == 1:
            p = preds[0]
            t = self.blocks[p]["term"]
            if t["k"] == "call" and t.get("dest") == base:
                return {"kind": "call", "f": norm(t.get("res") or t.get("f") or ""), "bb": p, "args": t.get("args", [])}
            return self.origin_of(base, p, depth + 1)
        return {"kind": "unknown"}


# ------------------------------------------------------------ splicing absorbed helpers (vlib/inline.py)

import copy as _copy
import json as _json
import re as _re

_LOCAL = _re.compile(r"(?<![A-Za-z0-9_])_(\d+)(?![A-Za-z0-9_])")


def splice(mir, helper_mir_of, depth=0):
    """MIR of a fn with the bodies of its absorbed helpers spliced in at their call sites: the call block jumps to the helper's entry,
    the helper's return blocks jump to the call's continuation.  Helper locals are renamed (`_3` -> `_h2_3`) so that they do not collide.
    `helper_mir_of(def)` -> mir of an absorbed helper or None."""
    blocks = _copy.deepcopy(mir["blocks"])
    out = {"locals": list(mir.get("locals", [])), "blocks": blocks}
    n_spliced = 0
    i = 0
    while i < len(blocks):
        t = blocks[i]["term"]
        if t.get("k") == "call" and not blocks[i].get("cleanup"):
            callee = norm(t.get("res") or "") or norm(t.get("f") or "")
            hm = helper_mir_of(callee) if callee else None
            if hm is None and t.get("f"):
                hm = helper_mir_of(norm(t["f"]))
            if hm is not None and depth < 4 and n_spliced < 12 and "t" in t:
                n_spliced += 1
                inner = splice(hm, helper_mir_of, depth + 1)
                off = len(blocks)
                tag = "_h%d_" % (off,)
                txt = _LOCAL.sub(lambda m: tag + m.group(1), _json.dumps(inner["blocks"]))
                hb = _json.loads(txt)
                cont = t["t"]
                uw = t.get("uw")
                for b in hb:
                    bt = b["term"]
                    for key in ("t", "o", "uw"):
                        if isinstance(bt.get(key), int):
                            bt[key] = bt[key] + off
                    if isinstance(bt.get("ts"), list):
                        bt["ts"] = [x + off for x in bt["ts"]]
                    if bt.get("k") == "ret":
                        b["term"] = {"k": "goto", "t": cont, "s": bt.get("s"), "ln": bt.get("ln")}
                blocks[i]["term"] = {"k": "goto", "t": off, "s": t.get("s"), "ln": t.get("ln"), "spliced": callee}
                blocks.extend(hb)
        i += 1
    return out
