"""Def-use / provenance queries over the typed expression trees (purely syntactic dataflow)."""
from . import factbase as fb

# methods through which a value flows essentially unchanged (receiver -> result / closure param)
TRANSPARENT = {
    "clone", "cloned", "copied", "to_string", "to_owned", "into", "as_ref", "as_mut", "as_str", "as_deref", "borrow",
    "unwrap", "expect", "unwrap_or", "unwrap_or_default", "unwrap_or_else", "ok", "iter", "iter_mut", "into_iter",
    "par_iter", "into_par_iter", "map", "and_then", "filter", "filter_map", "flat_map", "flatten", "for_each", "find",
    "find_map", "collect", "collect_vec", "chain", "rev", "sorted", "sorted_by", "sorted_by_key", "unique", "dedup", "first", "last",
    "get", "peekable", "enumerate", "skip", "take", "cloned", "then", "then_some", "or", "or_else", "zip", "map_or", "map_or_else",
    "inspect", "take_while", "skip_while", "step_by", "to_vec", "deref", "deref_mut", "trim", "to_lowercase", "to_uppercase",
    "positions", "any", "all", "is_some_and", "contains",
}


def pat_positions(p, prefix=""):
    """[(local id, position string)] for bindings in a pattern; position like `GraphInline::Link.0` or `Reference.key`."""
    out = []
    if not isinstance(p, dict):
        return out
    k = p.get("k")
    if k == "p_bind":
        out.append((p["id"], prefix))
        if "sub" in p:
            out += pat_positions(p["sub"], prefix)
    elif k == "p_tstruct":
        v = fb.last2(fb.norm(p.get("def") or "?"))
        for i, qp in enumerate(p.get("pats", [])):
            out += pat_positions(qp, (prefix + ">" if prefix else "") + "%s.%d" % (v, i))
    elif k == "p_struct":
        v = fb.last2(fb.norm(p.get("def") or "?"))
        for f in p.get("fields", []):
            out += pat_positions(f["pat"], (prefix + ">" if prefix else "") + "%s.%s" % (v, f["name"]))
    elif k in ("p_or", "p_slice"):
        for qp in p.get("pats", []):
            out += pat_positions(qp, prefix)
    elif k == "p_tuple":
        for i, qp in enumerate(p.get("pats", [])):
            out += pat_positions(qp, (prefix + ">" if prefix else "") + "tuple.%d" % i)
    elif k in ("p_ref", "p_guard"):
        out += pat_positions(p.get("pat"), prefix)
    return out


def _inl_value(e):
    """A local initialised by an inlined helper call (vlib/inline.py) stands for the helper's result: follow the value the inlined body
    ends with, not everything the helper does on the way (as if the helper were still a call)."""
    n = 0
    while isinstance(e, dict) and e.get("k") == "block" and (e.get("inl") or n > 0) and e.get("e") is not None and n < 6:
        e = e["e"]
        n += 1
        if not (isinstance(e, dict) and e.get("k") == "block"):
            break
    return e


class FnCtx:
    """Per-fn binding environment: local id -> where its value comes from."""

    def __init__(self, fn):
        self.fn = fn
        self.binds = {}
        self.pos = {}
        self.parent_of = {}
        if fn.body is None:
            return
        for i, p in enumerate(fn.params):
            for name, lid in fb.pat_bindings(p["pat"]):
                self.binds[lid] = ("param", i, name)
        for node, parents in fb.walk_with_parents(fn.body):
            if parents:
                self.parent_of[id(node)] = parents[-1]
            k = node.get("k")
            if k in ("let", "letx") and node.get("init") is not None:
                for name, lid in fb.pat_bindings(node["pat"]):
                    self.binds.setdefault(lid, ("expr", node["init"], node["pat"]))
                for lid, pos in pat_positions(node["pat"]):
                    self.pos.setdefault(lid, pos)
            elif k == "match":
                for arm in node["arms"]:
                    for name, lid in fb.pat_bindings(arm["pat"]):
                        self.binds.setdefault(lid, ("expr", node["e"], arm["pat"]))
                    for lid, pos in pat_positions(arm["pat"]):
                        self.pos.setdefault(lid, pos)
            elif k in ("mcall", "call"):
                src = node.get("recv")
                for a in node.get("args", []):
                    if a.get("k") == "closure":
                        others = [x for x in node.get("args", []) if x is not a and x.get("k") != "closure"]
                        for pi, p in enumerate(a.get("params", [])):
                            for lid, pos in pat_positions(p, "cp%d" % pi):
                                self.pos.setdefault(lid, pos)
                            for name, lid in fb.pat_bindings(p):
                                if src is not None:
                                    self.binds.setdefault(lid, ("expr", src, p))
                                elif others:
                                    self.binds.setdefault(lid, ("expr", others[0], p))
                                else:
                                    self.binds.setdefault(lid, ("closure-param", node, name))

    def parents(self, node):
        out = []
        x = node
        while id(x) in self.parent_of:
            x = self.parent_of[id(x)]
            out.append(x)
        return out

    # ---------------------------------------------------------------- mentions (coarse)

    def mentions(self, expr, _seen=None, depth=0):
        """Atoms reachable from expr through sub-expressions and local definitions:
        ('call', callee), ('field', name), ('param', name), ('lit', v), ('def', path)."""
        out = set()
        if expr is None:
            return out
        seen = _seen if _seen is not None else set()
        for x in fb.walk(expr):
            k = x.get("k")
            if k in ("call", "mcall"):
                c = fb.callee(x)
                if c:
                    out.add(("call", c))
                r = fb.rcallee(x)
                if r and r != c:
                    out.add(("call", r))
            elif k == "field":
                out.add(("field", x["name"]))
            elif k == "lit":
                out.add(("lit", x.get("v")))
            elif k == "struct":
                out.add(("struct", fb.norm(x.get("def", ""))))
            elif k == "path":
                if x.get("res") == "local":
                    lid = x["id"]
                    b = self.binds.get(lid)
                    if b is None:
                        out.add(("local", x.get("name")))
                    elif b[0] == "param":
                        out.add(("param", b[2]))
                    elif b[0] == "expr":
                        if lid not in seen and depth < 12:
                            seen.add(lid)
                            out |= self.mentions(_inl_value(b[1]), seen, depth + 1)
                    else:
                        out.add(("local", x.get("name")))
                elif x.get("def"):
                    out.add(("def", fb.norm(x["def"])))
        return out

    # ---------------------------------------------------------------- value provenance (narrow)

    def vprov(self, expr, _seen=None, depth=0):
        """Where does the *value* of expr come from?  Follows value-preserving wrappers only.
        Atoms: ('param', name), ('field', base_atoms..., name) flattened as ('field', name),
        ('call', callee), ('lit', v), ('struct', path), ('binary', op), ('def', path), ('macro', name)."""
        out = set()
        if expr is None or depth > 20:
            return out
        seen = _seen if _seen is not None else set()
        k = expr.get("k")
        if k == "path":
            if expr.get("res") == "local":
                lid = expr["id"]
                b = self.binds.get(lid)
                if b is None:
                    out.add(("local", expr.get("name")))
                elif b[0] == "param":
                    out.add(("param", b[2]))
                elif b[0] == "expr":
                    if lid in seen:
                        return out
                    seen.add(lid)
                    out |= self.vprov(b[1], seen, depth + 1)
                    if self.pos.get(lid):
                        out.add(("patpos", self.pos[lid]))
                        # a field taken out by a struct pattern (`let Squash { key, depth } = args;`) is a read of that field
                        last = self.pos[lid].split(">")[-1].rsplit(".", 1)
                        if len(last) == 2 and last[1] and not last[1].isdigit() and not last[0].startswith(("tuple", "cp")):
                            out.add(("field", last[1]))
                    pat = b[2] if len(b) > 2 else None
                    if pat is not None:
                        for v in fb.pat_variants(pat):
                            if v and v not in ("_", "tuple") and not v.startswith(("lit:", "?")):
                                out.add(("pat", v))
                else:
                    out.add(("local", expr.get("name")))
            elif expr.get("def"):
                out.add(("def", fb.norm(expr["def"])))
            return out
        if k == "lit":
            out.add(("lit", expr.get("v")))
            return out
        if k in ("addrof", "unary", "cast", "repeat"):
            return self.vprov(expr.get("e"), seen, depth + 1)
        if k == "field":
            out.add(("field", expr["name"]))
            out |= self.vprov(expr["e"], seen, depth + 1)
            return out
        if k == "index":
            out.add(("index",))
            out |= self.vprov(expr["e"], seen, depth + 1)
            return out
        if k == "mcall":
            c = fb.callee(expr)
            out.add(("call", c))
            r = fb.rcallee(expr)
            if r and r != c:
                out.add(("call", r))
            out |= self.vprov(expr["recv"], seen, depth + 1)
            if expr["name"] in TRANSPARENT:
                for a in expr["args"]:
                    if a.get("k") == "closure":
                        out |= self.vprov(a["body"], seen, depth + 1)
                    else:
                        out |= self.vprov(a, seen, depth + 1)
            return out
        if k == "call":
            c = fb.callee(expr)
            if c:
                out.add(("call", c))
            if expr.get("ctor") or (c and fb.last_seg(c) in ("Some", "Ok", "Err", "from", "new", "into", "to_string", "format", "must_use")):
                for a in expr["args"]:
                    out |= self.vprov(a, seen, depth + 1)
            if expr.get("m") and "format" in expr.get("m"):
                for a in expr["args"]:
                    out |= self.vprov(a, seen, depth + 1)
            return out
        if k == "block":
            if expr.get("m") and "format" in (expr.get("m") or ""):
                for x in fb.walk(expr):
                    if x.get("k") == "path" and x.get("res") == "local" and x is not expr:
                        out |= self.vprov(x, seen, depth + 1)
                out.add(("macro", "format"))
                return out
            if expr.get("e") is not None:
                return self.vprov(expr["e"], seen, depth + 1)
            return out
        if k == "if":
            out |= self.vprov(expr.get("t"), seen, depth + 1)
            out |= self.vprov(expr.get("e"), seen, depth + 1)
            return out
        if k == "match":
            for arm in expr["arms"]:
                out |= self.vprov(arm["body"], seen, depth + 1)
            return out
        if k == "struct":
            out.add(("struct", fb.norm(expr.get("def", ""))))
            return out
        if k == "binary":
            out.add(("binary", expr["op"]))
            out |= self.vprov(expr["l"], seen, depth + 1)
            out |= self.vprov(expr["r"], seen, depth + 1)
            return out
        if k in ("tup", "array"):
            for x in expr.get("es", []):
                out |= self.vprov(x, seen, depth + 1)
            return out
        if k == "closure":
            return self.vprov(expr["body"], seen, depth + 1)
        if k == "ret":
            return out
        return out


def has_call(atoms, suffix):
    for a in atoms:
        if a[0] == "call" and a[1] and (a[1] == suffix or a[1].endswith("::" + suffix)):
            return True
    return False


def has_atom(atoms, kind, val):
    return (kind, val) in atoms


def calls_named(atoms):
    return sorted(fb.last2(a[1]) for a in atoms if a[0] == "call" and a[1])
