"""Thorough tier: the checker is exercised both ways on scratch copies of /repo's current tree.

* every seeded breaking change (/verif/seeded/<id>/patch.diff, written by independent sub-agents) that this property's rules are
  expected to report (/verif/selftest/expect.json, derived from the recorded catch matrix) is applied to a scratch copy, the facts are
  rebuilt with the driver and the rules are re-run: at least one violation must be reported; the same for the reverse of repaired
  defects kept in /verif/selftest/regress/R-*.diff (the defect returns -> the check must report it again);
* every behaviour-preserving edit in /verif/selftest/silent/*.diff (renamed locals and parameters, if-let <-> match, extracted helpers
  and variables, reordered fns and arms, added logging) is applied the same way: the rules must stay silent.

This does not decide the property (the rules on /repo's own tree do); it is evidence that the decider is alive and not brittle.
Nothing here executes iwe code: the scratch copy is only compiled (cargo check through the driver).  A patch that no longer applies
to an edited /repo is skipped and counted as skipped.  The scratch copy lives under the system temp directory and is removed.
"""
import glob
import importlib
import json
import os
import shutil
import subprocess
import tempfile
import fcntl

from . import build_facts, factbase, report

VERIF = os.path.dirname(os.path.dirname(os.path.abspath(__file__)))


def _apply(repo, patch, work):
    shutil.rmtree(work, ignore_errors=True)
    os.makedirs(work)
    r = subprocess.run(["rsync", "-a", "--exclude", "target", "--exclude", ".git", repo.rstrip("/") + "/", work + "/"], stdout=subprocess.PIPE, stderr=subprocess.STDOUT)
    if r.returncode != 0:
        return False
    subprocess.run(["git", "init", "-q", "."], cwd=work, stdout=subprocess.PIPE, stderr=subprocess.STDOUT)
    r = subprocess.run(["git", "apply", "--whitespace=nowarn", patch], cwd=work, stdout=subprocess.PIPE, stderr=subprocess.STDOUT)
    shutil.rmtree(os.path.join(work, ".git"), ignore_errors=True)
    return r.returncode == 0


def _violations(prop, facts_dir):
    mod = importlib.import_module("rules.%s" % prop.lower())
    facts = factbase.Facts(facts_dir)
    rep = report.Report(prop, "quick")
    try:
        mod.run(facts, rep, "quick")
    except (factbase.AnchorMissing, factbase.AnchorAmbiguous) as e:
        rep.anchor_missing(prop + "-anchor", str(e))
    known = set(e["key"] for e in report.load_known().get("findings", []) if e.get("property") == prop)
    return [i for i in rep.instances if i["status"] == "violation" and i["key"] not in known], len(rep.instances)


def run(prop, repo):
    exp_path = os.path.join(VERIF, "selftest", "expect.json")
    expect = json.load(open(exp_path)) if os.path.exists(exp_path) else {}
    # the seeded changes written against THIS property (all of them are reported by its own check) and the repaired defects of this property;
    # changes written against other properties that this check also reports are listed in the catch matrix (DESIGN G3) but not replayed here,
    # to keep the tier within minutes per property (set IWE_VERIF_SELFTEST_ALL=1 to replay those too)
    everything = os.environ.get("IWE_VERIF_SELFTEST_ALL") == "1"
    mutants = sorted(sid for sid, props in expect.items() if prop in props and (everything or sid.startswith("R-") or sid.split("-", 1)[0] == prop))
    silent = sorted(glob.glob(os.path.join(VERIF, "selftest", "silent", "*.diff")))
    base = os.path.join(tempfile.gettempdir(), "iwe-verif-selftest")
    os.makedirs(base, exist_ok=True)
    lock = open(os.path.join(base, "lock"), "w")
    fcntl.flock(lock, fcntl.LOCK_EX)
    work = os.path.join(base, "work")
    out = {"mutants": [], "silent": [], "skipped": []}
    try:
        for sid in mutants:
            patch = os.path.join(VERIF, "seeded", sid, "patch.diff")
            if sid.startswith("R-"):
                # a repaired defect re-introduced: the reverse of a `fix:` commit
                patch = os.path.join(VERIF, "selftest", "regress", sid + ".diff")
            if not os.path.exists(patch) or not _apply(repo, patch, work):
                out["skipped"].append({"id": sid, "why": "patch does not apply to the current tree"})
                continue
            try:
                fdir, sha, _info = build_facts.build(work)
            except Exception as e:   # does not compile on this tree
                out["skipped"].append({"id": sid, "why": "scratch copy does not build: %s" % str(e)[:120]})
                continue
            v, n = _violations(prop, fdir)
            out["mutants"].append({"id": sid, "fired": bool(v), "violations": len(v), "instances_examined": n, "first": v[0]["key"] if v else None})
        for sp in silent:
            sid = os.path.basename(sp)[:-5]
            if not _apply(repo, sp, work):
                out["skipped"].append({"id": sid, "why": "patch does not apply to the current tree"})
                continue
            try:
                fdir, sha, _info = build_facts.build(work)
            except Exception as e:
                out["skipped"].append({"id": sid, "why": "scratch copy does not build: %s" % str(e)[:120]})
                continue
            v, n = _violations(prop, fdir)
            out["silent"].append({"id": sid, "silent": not v, "violations": len(v), "instances_examined": n, "first": v[0]["key"] if v else None})
    finally:
        shutil.rmtree(work, ignore_errors=True)
        fcntl.flock(lock, fcntl.LOCK_UN)
        lock.close()
    missed = [m["id"] for m in out["mutants"] if not m["fired"]]
    noisy = [m["id"] for m in out["silent"] if not m["silent"]]
    summary = {
        "selftest": out,
        "selftest_summary": "%d seeded breaking change(s) replayed, %d reported; %d behaviour-preserving variant(s) replayed, %d silent; %d skipped" % (
            len(out["mutants"]), len(out["mutants"]) - len(missed), len(out["silent"]), len(out["silent"]) - len(noisy), len(out["skipped"])),
        "selftest_missed": missed,
        "selftest_false_alarms": noisy,
    }
    return summary
