"""Whole-workspace call graph over resolved callees (from MIR call terminators).

* direct calls: edge to the instance-resolved callee when the driver resolved it, else to the
  declared callee;
* unresolved trait-method calls (generic receiver): fanned out to every local impl of that
  trait item and to the trait's default body (sound over-approximation, used for reachability
  only, never to discharge an obligation);
* closures: edge from the enclosing body to each closure it creates;
* fn items passed as values (`.map(Self::f)`): edge to the named fn.
"""
import re
from collections import defaultdict

from .factbase import norm

_CLOS = re.compile(r"::\{closure#\d+\}$")


class CallGraph:
    def __init__(self, facts):
        self.facts = facts
        self.edges = defaultdict(set)      # caller def -> {callee def}
        self.sites = defaultdict(list)     # (caller, callee) -> [line]
        self.redges = defaultdict(set)
        impls_of_item = defaultdict(list)
        for f in facts.fn_list:
            if f.trait_item:
                impls_of_item[f.trait_item].append(f.def_)
        self.impls_of_item = impls_of_item
        local = set(f.def_ for f in facts.fn_list)
        self.local = local
        for f in facts.fn_list:
            if f.kind == "closure":
                enc = _CLOS.sub("", f.def_)
                self._add(enc, f.def_, f.line)
            if not f.mir:
                continue
            for b in f.mir["blocks"]:
                if b.get("cleanup"):
                    continue
                t = b["term"]
                for st in b["stmts"]:
                    for op in st.get("rv", {}).get("ops", []) or []:
                        if isinstance(op, str) and op.startswith("fn "):
                            self._add_callee(f, norm(op[3:]), None, st.get("ln"))
                if t["k"] != "call":
                    continue
                for op in t.get("args", []):
                    if isinstance(op, str) and op.startswith("fn "):
                        self._add_callee(f, norm(op[3:]), None, t.get("ln"))
                decl = norm(t.get("f")) if t.get("f") else None
                res = norm(t.get("res")) if t.get("res") else None
                if decl is None:
                    continue
                self._add_callee(f, decl, res, t.get("ln"), unres=t.get("unres") or t.get("virt"))

    def _add(self, a, b, line):
        self.edges[a].add(b)
        self.redges[b].add(a)
        self.sites[(a, b)].append(line)

    def _add_callee(self, f, decl, res, line, unres=False):
        if res:
            self._add(f.def_, res, line)
            return
        self._add(f.def_, decl, line)
        if decl in self.impls_of_item and (unres or decl not in self.local or True):
            # trait item: if the driver did not resolve it to one impl, fan out
            if unres or decl not in self.local:
                for i in self.impls_of_item[decl]:
                    self._add(f.def_, i, line)

    def reachable_from(self, roots):
        seen = set()
        stack = [r for r in roots]
        parent = {}
        while stack:
            x = stack.pop()
            if x in seen:
                continue
            seen.add(x)
            for y in self.edges.get(x, ()):
                if y not in seen:
                    parent.setdefault(y, x)
                    stack.append(y)
        self._parent = parent
        return seen

    def path_to(self, roots, target):
        """Shortest call path from any root to target (BFS) as a list of defs, or None."""
        from collections import deque
        q = deque(roots)
        prev = {r: None for r in roots}
        while q:
            x = q.popleft()
            if x == target:
                p = []
                while x is not None:
                    p.append(x)
                    x = prev[x]
                return list(reversed(p))
            for y in sorted(self.edges.get(x, ())):
                if y not in prev:
                    prev[y] = x
                    q.append(y)
        return None

    def callers_of(self, target, _depth=0):
        """Direct callers; a helper that is analysed inlined into its callers (vlib/inline.py) is replaced by those callers."""
        out = set()
        for c in self.redges.get(target, ()):
            f = self.facts.fns.get(_CLOS.sub("", c))
            if f is not None and getattr(f, "absorbed", False) and _depth < 4:
                out |= self.callers_of(f.def_, _depth + 1)
            else:
                out.add(c)
        return out

    def sccs(self, nodes):
        """Tarjan SCCs restricted to `nodes`; returns list of frozensets with a cycle (size>1 or self-loop)."""
        nodes = set(nodes)
        index = {}
        low = {}
        onstack = set()
        st = []
        out = []
        counter = [0]

        import sys
        sys.setrecursionlimit(10000)

        def strong(v):
            index[v] = low[v] = counter[0]
            counter[0] += 1
            st.append(v)
            onstack.add(v)
            for w in self.edges.get(v, ()):
                if w not in nodes:
                    continue
                if w not in index:
                    strong(w)
                    low[v] = min(low[v], low[w])
                elif w in onstack:
                    low[v] = min(low[v], index[w])
            if low[v] == index[v]:
                comp = []
                while True:
                    w = st.pop()
                    onstack.discard(w)
                    comp.append(w)
                    if w == v:
                        break
                if len(comp) > 1 or v in self.edges.get(v, ()):
                    out.append(frozenset(comp))

        for v in sorted(nodes):
            if v not in index:
                strong(v)
        return out
