"""Rule-instance bookkeeping, known-findings protocol, evidence writer."""
import json
import os
import time

VERIF = os.path.dirname(os.path.dirname(os.path.abspath(__file__)))
KNOWN = os.path.join(VERIF, "known_findings.json")


def evidence_dir():
    """/verif/evidence for runs against /repo; a scratch directory for runs against a scratch copy (mutant testing)."""
    return os.environ.get("IWE_VERIF_EVIDENCE_DIR") or os.path.join(VERIF, "evidence")


class Report:
    def __init__(self, prop, tier="quick"):
        self.prop = prop
        self.tier = tier
        self.instances = []      # dicts: rule, key, status, detail, loc
        self.rules = {}          # rule id -> text
        self.stats = {"functions": set(), "call_sites": 0, "arms": 0}
        self.t0 = time.time()
        self.notes = []

    # ---- declaring rules

    def rule(self, rid, text):
        self.rules[rid] = text

    aliases = None      # {present fn def: [defs of recorded helpers that were inlined into it]} (set by the driver script)

    # ---- recording instances

    def _add(self, rule, key, status, detail, loc, nontrivial):
        self.instances.append({
            "rule": rule, "key": "%s|%s" % (rule, key), "status": status,
            "detail": detail, "loc": loc, "nontrivial": bool(nontrivial),
        })

    def ok(self, rule, key, detail="", loc=None, nontrivial=True):
        self._add(rule, key, "ok", detail, loc, nontrivial)

    def violation(self, rule, key, detail, loc=None):
        self._add(rule, key, "violation", detail, loc, True)

    def undecided(self, rule, key, detail, loc=None):
        self._add(rule, key, "undecided", detail, loc, True)

    def anchor_missing(self, rule, what):
        self._add(rule, "anchor-missing:" + what, "violation",
                  "anchor not found: %s (the construct this rule is anchored in has disappeared; failing closed)" % what, None, True)

    def floor(self, rule, what, counted, minimum):
        if counted < minimum:
            self._add(rule, "floor:" + what, "violation",
                      "rule examined %d instances of %s, fewer than the %d confirmed by hand on the pinned tree (vacuous pass refused)" % (counted, what, minimum), None, True)
        else:
            self._add(rule, "floor:" + what, "ok", "%d >= %d" % (counted, minimum), None, False)

    def saw_fn(self, fn):
        self.stats["functions"].add(fn.def_ if hasattr(fn, "def_") else str(fn))

    # ---- finishing

    def finish(self, facts_sha, extra=None):
        known = load_known()
        kf = {e["key"]: e for e in known.get("findings", []) if e.get("property") == self.prop}
        violations = []
        known_hits = []
        for i in self.instances:
            if i["status"] == "violation":
                hit = kf.get(i["key"])
                if hit is None:
                    # a recorded helper that was inlined into its caller and deleted takes its findings with it: look the instance up under
                    # the helper's name as well (vlib/renames.former_callers); the match is still by exact key
                    for g, ms in (getattr(self, "aliases", None) or {}).items():
                        if g in i["key"]:
                            for m in ms:
                                alt = i["key"].replace(g, m)
                                if alt in kf:
                                    hit = kf[alt]
                                    i["detail"] += " [recorded under `%s`, which was inlined into this fn]" % m
                                    i["key"] = alt
                                    break
                        if hit is not None:
                            break
                if hit is not None:
                    i["status"] = "known-finding"
                    known_hits.append((i, hit))
                else:
                    violations.append(i)
        os.makedirs(os.path.join(evidence_dir(), "replay"), exist_ok=True)
        lines = []
        for i, e in known_hits:
            lines.append("KNOWN-FINDING: property=%s %s -- %s" % (self.prop, i["key"], e.get("what", i["detail"])))
        # stale known findings are reported as information (never an alarm)
        hit_keys = set(i["key"] for i, _ in known_hits)
        for k, e in kf.items():
            if k not in hit_keys:
                self.notes.append("known finding no longer reproduced by the rules: %s" % k)
        replay_paths = []
        for n, v in enumerate(violations):
            rp = os.path.join(evidence_dir(), "replay", "%s-%d.json" % (self.prop, n))
            with open(rp, "w") as fh:
                json.dump({"property": self.prop, "rule": v["rule"], "key": v["key"], "loc": v["loc"],
                           "detail": v["detail"], "rule_text": self.rules.get(v["rule"], ""), "facts": facts_sha}, fh, indent=1)
            replay_paths.append(rp)
            lines.append("VIOLATION property=%s replay=%s" % (self.prop, rp))
            lines.append("  rule %s: %s" % (v["rule"], self.rules.get(v["rule"], "")[:200]))
            lines.append("  instance: %s" % v["key"])
            lines.append("  at: %s" % (v["loc"] or "?"))
            lines.append("  why: %s" % v["detail"])
        wall = round(time.time() - self.t0, 2)
        n = len(self.instances)
        discharged = sum(1 for i in self.instances if i["status"] == "ok")
        distinct = len(set(i["key"] for i in self.instances if i["nontrivial"]))
        undec = [i for i in self.instances if i["status"] == "undecided"]
        samples = []
        per_rule = {}
        for i in self.instances:
            per_rule.setdefault(i["rule"], {"ok": 0, "violation": 0, "known-finding": 0, "undecided": 0})
            per_rule[i["rule"]][i["status"]] += 1
        seen_rules = set()
        for i in self.instances:
            if i["rule"] not in seen_rules or i["status"] != "ok":
                seen_rules.add(i["rule"])
                if len(samples) < 60:
                    samples.append({"rule": i["rule"], "instance": i["key"], "verdict": i["status"], "at": i["loc"], "detail": i["detail"][:300]})
        ev = {
            "property_id": self.prop,
            "tier": self.tier,
            "seed": int(os.environ.get("VERIF_SEED", "0") or 0),
            "level": "other",
            "coverage": {
                "explanation": "Static analysis of /repo's current source through the compiler: a rustc_private driver dumps typed HIR "
                               "expression trees, MIR control-flow graphs with resolved callees, and ADT/impl/visibility tables for the "
                               "workspace crates; repo-specific rules (listed under 'rules') are evaluated over those facts. No iwe code is "
                               "executed. Each obligation is one rule instance (a definition, match arm, call site or CFG path).",
                "obligations": n,
                "discharged": discharged,
                "evaluations": max(n, 1),
                "distinct_nontrivial": distinct,
                "rule": "one evaluation = one rule instance keyed by (rule, definition path, construct, ordinal); non-trivial = the "
                        "instance has a subject construct in the source (floors / bookkeeping rows are excluded); distinct = distinct keys",
                "rules": self.rules,
                "per_rule": per_rule,
                "known_findings_matched": len(known_hits),
                "undecided": len(undec),
                "functions_analysed": len(self.stats["functions"]),
                "facts_sha": facts_sha,
                "samples": samples,
                "notes": self.notes,
            },
            "assumptions": [
                "rustc's type checker, HIR/MIR construction and Instance::try_resolve are trusted",
                "dependencies (pulldown-cmark, pulldown-cmark-to-cmark, relative-path, url, rayon, crossbeam, lsp-server) are outside the analysed set",
                "the rules decide the named structural clauses (necessary conditions), not the full behavioural property",
            ],
            "wall_s": wall,
            "violations": len(violations),
        }
        if extra:
            ev["coverage"].update(extra)
        with open(os.path.join(evidence_dir(), "%s.json" % self.prop), "w") as fh:
            json.dump(ev, fh, indent=1, ensure_ascii=False)
        return lines, len(violations)


def load_known():
    if os.path.exists(KNOWN):
        with open(KNOWN) as fh:
            return json.load(fh)
    return {"findings": [], "fixed": []}
