"""C20 - the document graph stays a well-formed forest (syntactic premises of the inductive step)."""
from vlib import factbase as fb
from vlib import q
from .common import pname, ctx, loc, match_arms_on, arms_by_variant, self_field, field_of, through_lets
from . import c04

GRAPHNODE = "liwe::graph::graph_node::GraphNode"
GRAPH = "liwe::graph::Graph"

# mutators that can break the forest if called from outside the builder layer
LINKERS = {
    "liwe::graph::Graph::builder": ("liwe::graph::builder::", "liwe::graph::sections_builder::", "liwe::graph::Graph::"),
    "liwe::graph::builder::GraphBuilder::set_id": ("liwe::graph::builder::", "liwe::graph::sections_builder::"),
    "liwe::graph::builder::GraphBuilder::set_insert": ("liwe::graph::builder::", "liwe::graph::sections_builder::"),
    "liwe::graph::builder::GraphBuilder::link_node_id": ("liwe::graph::builder::",),
    "liwe::graph::arena::Arena::set_node": ("liwe::graph::arena::", "liwe::graph::Graph::build_key", "liwe::graph::Graph::build_key_and", "liwe::graph::Graph::add_graph_node"),
    "liwe::graph::arena::Arena::node_mut": ("liwe::graph::Graph::node_mut",),
    "liwe::graph::Graph::node_mut": ("liwe::graph::builder::",),
    "liwe::graph::Graph::add_graph_node": ("liwe::graph::builder::",),
    "liwe::graph::graph_node::GraphNode::set_next_id": ("liwe::graph::builder::",),
    "liwe::graph::graph_node::GraphNode::set_child_id": ("liwe::graph::builder::",),
    "liwe::graph::arena::Arena::delete_branch": ("liwe::graph::arena::Arena::delete_branch", "liwe::graph::Graph::update_key"),
}


def rule_r1(facts, rep, rid="C20-R1"):
    cg = facts.callgraph
    for callee, allowed in LINKERS.items():
        f = facts.fn(callee)
        callers = sorted(x for x in cg.callers_of(f.def_))
        bad = [x for x in callers if not any(x.startswith(a) for a in allowed)]
        key = f.def_ + "|who-may-call"
        if bad:
            rep.violation(rid, key, "graph-linking primitive called from outside the builder layer: %s (allowed prefixes: %s) — it can leave a node "
                          "with two parents or a dangling prev/next link" % (bad, list(allowed)), f.loc)
        else:
            rep.ok(rid, key, "%d caller(s), all inside the builder layer" % len(callers), f.loc)
    # non-public mutators stay non-exported
    for name in ("Graph::node_mut", "Graph::add_graph_node", "Graph::add_line"):
        f = facts.fn(name)
        if f.exported:
            rep.violation(rid, f.def_ + "|not-exported", "%s became reachable from outside the crate" % name, f.loc)
        else:
            rep.ok(rid, f.def_ + "|not-exported", "vis=%s" % f.vis, f.loc)


CTOR_PREFIX = "liwe::graph::graph_node::GraphNode::new_"


def rule_r2(facts, rep, rid="C20-R2"):
    n = 0
    counts = {}
    for f in facts.body_fns():
        if f.crate != "liwe":
            continue
        c = None
        for call in fb.calls_in(f.body, lambda p: p.startswith(CTOR_PREFIX)):
            c = c or ctx(f)
            rep.saw_fn(f)
            cal = fb.callee(call)
            i = counts.get((f.def_, cal), 0)
            counts[(f.def_, cal)] = i + 1
            key = "%s|%s|%d" % (f.def_, fb.last_seg(cal), i)
            if cal.endswith("new_root"):
                # new_root(key, id, metadata): id is a fresh arena id
                pv = c.vprov(call["args"][1])
                n += 1
                if q.has_call(pv, "Arena::new_node_id"):
                    rep.ok(rid, key, "root id = fresh arena id", loc(f, call))
                else:
                    rep.violation(rid, key, "document root built with an id that is not a fresh Arena::new_node_id(): %s" % fb.show(call["args"][1]), loc(f, call))
                continue
            n += 1
            a0, a1 = call["args"][0], call["args"][1]
            p0 = c.vprov(a0)
            p1 = c.vprov(a1)
            is_cursor = self_field(a0) == "id" and not any(a[0] == "call" for a in p0 if a[1] and not a[1].endswith("::clone"))
            is_fresh = q.has_call(p1, "Graph::new_node_id") or q.has_call(p1, "Arena::new_node_id")
            probs = []
            if not is_cursor:
                probs.append("first argument (prev) is `%s`, not the builder cursor `self.id`" % fb.show(a0))
            if not is_fresh:
                probs.append("second argument (id) is `%s`, not a fresh new_node_id()" % fb.show(a1))
            if is_fresh and self_field(a1) == "id":
                probs.append("id argument is the cursor")
            if probs:
                rep.violation(rid, key, "; ".join(probs) + " — prev/id swapped or stale: the new node's prev pointer would not name the node that links to it", loc(f, call))
            else:
                rep.ok(rid, key, "(prev = self.id, id = new_node_id())", loc(f, call))
    rep.floor(rid, "GraphNode::new_* construction sites", n, 12)
    # the tree -> graph copier treats every node kind alike: all arms of add_new_node_and link through the same helper (the one that leaves the caller's cursor where it is -
    # append_from_visitor continues from the parent's cursor; a kind that moves it has its next sibling linked below itself and the rest of the chain orphaned)
    an = facts.fn("GraphBuilder::add_new_node_and")
    rep.saw_fn(an)
    ms = [x for x in fb.walk(an.body) if x.get("k") == "match" and x.get("src", "Normal") == "Normal"]
    key = an.def_ + "|arms-link-through-one-helper"
    if ms:
        used = {}
        for arm in ms[0].get("arms", []):
            hs = sorted(set(fb.last_seg(fb.callee(y) or "") for y in fb.walk(arm["body"]) if y.get("k") in ("mcall", "call") and fb.last_seg(fb.callee(y) or "").startswith("add_node_and")))
            if hs:
                used.setdefault(tuple(hs), []).append("|".join(fb.last_seg(v or "_") for v in fb.pat_variants(arm["pat"])))
        if len(used) == 1 and len(next(iter(used))) == 1:
            rep.ok(rid, key, "%d arms, all through %s" % (sum(len(v) for v in used.values()), next(iter(used))[0]), an.loc)
        elif used:
            major = max(used.items(), key=lambda kv: len(kv[1]))
            odd = [(h, vs) for h, vs in used.items() if h != major[0]]
            rep.violation(rid, key, "the arms of add_new_node_and do not link through one helper: %s use %s while %s use%s %s - the two differ in whether the caller's cursor moves, so for "
                          "that kind the following sibling is linked in the wrong place and the blocks behind it stay live but unreachable"
                          % (", ".join(major[1][:4]) + (" .." if len(major[1]) > 4 else ""), "/".join(major[0]), ", ".join(v for _h, vs in odd for v in vs), "s" if sum(len(vs) for _h, vs in odd) == 1 else "",
                             ", ".join("/".join(h) for h, _vs in odd)), an.loc)
        else:
            # the arms only build the node and one call after the match links it: uniform by construction
            outside = sorted(set(fb.last_seg(fb.callee(y) or "") for y in fb.walk(an.body) if y.get("k") in ("mcall", "call") and fb.last_seg(fb.callee(y) or "").startswith("add_node_and")))
            if len(outside) == 1:
                rep.ok(rid, key, "the arms build the node, one %s after the match links it for every kind" % outside[0], an.loc)
            else:
                rep.violation(rid, key, "no arm of add_new_node_and links the node it creates (link helpers called: %s)" % outside, an.loc)
    else:
        outside = sorted(set(fb.last_seg(fb.callee(y) or "") for y in fb.walk(an.body) if y.get("k") in ("mcall", "call") and fb.last_seg(fb.callee(y) or "").startswith("add_node_and")))
        if len(outside) == 1:
            rep.ok(rid, key, "one %s links the node for every kind" % outside[0], an.loc)
        else:
            rep.anchor_missing(rid, "match on Node in GraphBuilder::add_new_node_and")

    # add_node_and / add_node_and2: child-or-next linking
    for name in ("GraphBuilder::add_node_and", "GraphBuilder::add_node_and2"):
        f = facts.fn(name)
        rep.saw_fn(f)

        def find_iff(fn_):
            for x in fb.walk(fn_.body):
                if x.get("k") == "if" and self_field(x["c"]) == "insert":
                    return x
            return None
        iff = find_iff(f)
        if iff is None:
            # the linking may be delegated to another method of the builder (`self.link_node_id(node.id())`): look at the fn with those calls expanded
            from vlib import inline as _inl
            f = _inl.expanded(facts, f)
            iff = find_iff(f)
        c = ctx(f)
        key = f.def_ + "|links-child-or-next"
        if iff is None:
            rep.violation(rid, key, "no `if self.insert` branch: the new node is not linked as child or next of the cursor", f.loc)
            continue

        def link_calls(b):
            out = []
            for y in fb.walk(b):
                if y.get("k") == "mcall" and y["name"] in ("set_child_id", "set_next_id"):
                    # `let current = self.graph.node_mut(self.id); .. current.set_child_id(..)` is the same receiver, named
                    recv = through_lets(c, y["recv"])
                    while recv is not None and recv.get("k") in ("addrof", "unary"):
                        recv = recv.get("e")
                    on_cursor = recv is not None and recv.get("k") == "mcall" and recv["name"] == "node_mut" and recv["args"] and self_field(recv["args"][0]) == "id"
                    argv = c.vprov(y["args"][0])
                    of_node = q.has_call(argv, "GraphNode::id") and ("param", pname(f, 1)) in argv
                    out.append((y["name"], on_cursor, of_node))
            return out
        t = link_calls(iff["t"])
        e = link_calls(iff["e"]) if iff.get("e") else []
        probs = []
        if t != [("set_child_id", True, True)]:
            probs.append("insert-branch is %s, expected exactly node_mut(self.id).set_child_id(node.id())" % t)
        if e != [("set_next_id", True, True)]:
            probs.append("append-branch is %s, expected exactly node_mut(self.id).set_next_id(node.id())" % e)
        added = [y for y in fb.walk(f.body) if y.get("k") == "mcall" and (fb.callee(y) or "").endswith("Graph::add_graph_node")]
        if len(added) != 1 or ("param", pname(f, 1)) not in c.vprov(added[0]["args"][0]):
            probs.append("the node is not stored exactly once with add_graph_node(node)")
        # sub-builder handed to f
        sub = [y for y in fb.walk(f.body) if y.get("k") == "struct" and fb.norm(y.get("def", "")).endswith("GraphBuilder")]
        if not sub:
            probs.append("no sub-builder is handed to the continuation")
        else:
            fl = {z["name"]: z["e"] for z in sub[0]["fields"]}
            pi = c.vprov(fl.get("insert"))
            if not (q.has_call(pi, "GraphNode::insertable") and ("param", pname(f, 1)) in pi):
                probs.append("sub-builder.insert is not node.insertable()")
            pid = c.vprov(fl.get("id"))
            idok = (q.has_call(pid, "GraphNode::id") and ("param", pname(f, 1)) in pid) or self_field(fl.get("id")) == "id"
            if self_field(fl.get("id")) == "id":
                # then self.id must have been assigned node.id() before
                asg = [y for y in fb.walk(f.body) if y.get("k") == "assign" and self_field(y["l"]) == "id"]
                idok = bool(asg) and q.has_call(c.vprov(asg[0]["r"]), "GraphNode::id")
            if not idok:
                probs.append("sub-builder.id is not the new node's id")
        if probs:
            rep.violation(rid, key, "; ".join(probs), f.loc)
        else:
            rep.ok(rid, key, "insert -> set_child_id / append -> set_next_id on the cursor, stored once, sub-builder at the new node", f.loc)


ACCESSOR_FIELD = {"id": "id", "prev_id": "prev", "next_id": "next", "child_id": "child", "line_id": "line"}
SETTER_FIELD = {"set_next_id": "next", "set_child_id": "child"}


def _payload_fields(facts, variant_path):
    st = c04.payload_struct(facts, variant_path)
    if st is None:
        return None, {}
    return st, {fl["name"]: fl["ty"] for fl in st["variants"][0]["fields"]}


def _returned_field(e, pat=None):
    """Field name if the arm value is `b.f`, `Some(b.f)`, `b.f.clone()`, `Some(b.f.clone())`, with its base local id."""
    while e is not None and e.get("k") == "block" and not e.get("stmts"):
        e = e.get("e")
    if e is None:
        return None
    if e.get("k") == "call" and e.get("ctor") and (fb.callee(e) or "").endswith("::Some") and e["args"]:
        e = e["args"][0]
    while e.get("k") == "mcall" and e["name"] == "clone":
        e = e["recv"]
    while e.get("k") in ("unary", "addrof"):
        e = e["e"]
    if e.get("k") == "field":
        b = e["e"]
        while b.get("k") in ("unary", "addrof"):
            b = b["e"]
        if b.get("k") == "path" and b.get("res") == "local":
            return (e["name"], b["id"])
    if e.get("k") == "path" and e.get("res") == "local" and pat is not None:
        # the field taken out by the arm's pattern: `Section(Section { line, .. }) => Some(*line)`
        for lid, p in q.pat_positions(pat):
            if lid == e["id"]:
                last = p.split(">")[-1].rsplit(".", 1)
                if len(last) == 2 and last[1] and not last[1].isdigit():
                    return (last[1], lid)
    return None


def rule_r3(facts, rep, rid="C20-R3"):
    n = 0
    for acc, field in list(ACCESSOR_FIELD.items()) + list(SETTER_FIELD.items()):
        f = facts.fn("GraphNode::" + acc)
        rep.saw_fn(f)
        ms = match_arms_on(f, "GraphNode")
        if not ms:
            rep.anchor_missing(rid, "match on GraphNode in GraphNode::" + acc)
            continue
        arms = arms_by_variant(facts, ms[0], GRAPHNODE)
        for v in [x["path"] for x in facts.adts[GRAPHNODE]["variants"]]:
            vs = fb.last_seg(v)
            st, fields = _payload_fields(facts, v)
            has = field in fields
            key = "%s|arm:%s" % (f.def_, vs)
            if v not in arms:
                continue
            arm, binds, wild = arms[v]
            aloc = "%s:%s" % (f.file, arm.get("ln"))
            n += 1
            if acc in SETTER_FIELD:
                assigns = [x for x in fb.walk(arm["body"]) if x.get("k") == "assign"]
                panics_ = any(x.get("k") in ("call", "mcall") and (fb.callee(x) or "").startswith(("core::panicking::", "std::rt::panic", "std::rt::begin_panic")) for x in fb.walk(arm["body"]))
                if has:
                    okf = False
                    for a in assigns:
                        l = a["l"]
                        if l.get("k") == "field" and l["name"] == field:
                            b = l["e"]
                            while b.get("k") in ("unary", "addrof"):
                                b = b["e"]
                            if b.get("k") == "path" and b.get("id") in [i for _, i in binds]:
                                okf = True
                    if okf and len(assigns) == 1:
                        rep.ok(rid, key, "assigns its own `%s`" % field, aloc)
                    else:
                        rep.violation(rid, key, "%s on %s does not assign exactly the `%s` field of its own payload (%s)" % (acc, vs, field, [fb.show(a) for a in assigns]), aloc)
                else:
                    if assigns or not panics_:
                        rep.violation(rid, key, "%s on %s (which has no `%s`) must refuse (panic), but the arm is `%s`" % (acc, vs, field, fb.show(arm["body"])[:60]), aloc)
                    else:
                        rep.ok(rid, key, "refuses: variant has no `%s`" % field, aloc, nontrivial=False)
                continue
            rf = _returned_field(arm["body"], arm["pat"])
            if has:
                if rf and rf[0] == field and rf[1] in [i for _, i in binds]:
                    rep.ok(rid, key, "returns its own `%s`" % field, aloc)
                else:
                    rep.violation(rid, key, "GraphNode::%s for %s returns `%s` instead of the payload's `%s` field: navigation (next/child/prev) "
                                  "would follow the wrong link" % (acc, vs, fb.show(arm["body"])[:60], field), aloc)
            else:
                if rf is not None:
                    rep.violation(rid, key, "GraphNode::%s for %s returns field `%s` although %s has no `%s`" % (acc, vs, rf[0], vs, field), aloc)
                else:
                    rep.ok(rid, key, "no `%s` field: %s" % (field, fb.show(arm["body"])[:30]), aloc, nontrivial=False)
    # insertable <=> has a child field
    f = facts.fn("GraphNode::insertable")
    ms = match_arms_on(f, "GraphNode")
    if ms:
        arms = arms_by_variant(facts, ms[0], GRAPHNODE)
        for v, (arm, binds, wild) in arms.items():
            _, fields = _payload_fields(facts, v)
            want = "child" in fields
            body = arm["body"]
            while body.get("k") == "block" and not body.get("stmts"):
                body = body.get("e")
            got = body.get("v") if body.get("k") == "lit" else None
            key = "%s|arm:%s" % (f.def_, fb.last_seg(v))
            n += 1
            if got == "bool:%s" % ("true" if want else "false"):
                rep.ok(rid, key, "insertable = %s (has child field: %s)" % (got, want), "%s:%s" % (f.file, arm.get("ln")))
            else:
                rep.violation(rid, key, "insertable() is %s but the variant %s a `child` field" % (got, "has" if want else "has no"), "%s:%s" % (f.file, arm.get("ln")))
    # payload-struct accessors return their own field
    for sname in ("Document", "Section", "Quote", "BulletList", "OrderedList", "Leaf", "RawLeaf", "Table", "HorizontalRule", "Reference"):
        for acc, field in ACCESSOR_FIELD.items():
            f = facts.fn("graph_node::%s::%s" % (sname, acc), required=False)
            if f is None or f.body is None:
                continue
            n += 1
            e = f.body
            while e.get("k") == "block" and not e.get("stmts"):
                e = e.get("e")
            nm = self_field(e)
            if nm == field:
                rep.ok(rid, f.def_ + "|returns-own-field", "self.%s" % field, f.loc)
            else:
                rep.violation(rid, f.def_ + "|returns-own-field", "%s::%s returns `%s`, not self.%s" % (sname, acc, fb.show(e)[:40], field), f.loc)
    rep.floor(rid, "accessor obligations", n, 100)


def rule_r3b(facts, rep, rid="C20-R3b"):
    """Ownership walk: Graph::node_key / NodePointer::node_key climb `prev` until a node answers key(); only the root (Document) may."""
    f = facts.fn("GraphNode::key")
    rep.saw_fn(f)
    ms = match_arms_on(f, "GraphNode")
    if not ms:
        rep.anchor_missing(rid, "match on GraphNode in GraphNode::key")
        return
    some = []
    for arm in ms[0]["arms"]:
        body = arm["body"]
        txt = fb.show(body)
        if "None" in txt and "Some" not in txt:
            continue
        some += [fb.last_seg(v) for v in fb.pat_variants(arm["pat"])]
    key = f.def_ + "|only-roots-have-a-key"
    if some == ["Document"]:
        rep.ok(rid, key, "key() is Some only for GraphNode::Document", f.loc)
    else:
        rep.violation(rid, key, "GraphNode::key() answers Some for %s: the walk that finds the note a block belongs to (node_key climbs prev until key() is Some) stops at the first such node, "
                      "so that block and every block after it are attributed to another note" % some, f.loc)
    nk = facts.fn("Graph::node_key")
    rep.saw_fn(nk)
    t = fb.show_canon(nk, nk.body).replace(" ", "")
    key = nk.def_ + "|climbs-prev-until-root"
    if "self.graph_node(P1).key()" in t and "self.node_key(self.graph_node(P1).prev_id()" in t:
        rep.ok(rid, key, "match graph_node(id).key() { Some(k) => k, None => node_key(prev_id) }", nk.loc)
    else:
        rep.violation(rid, key, "Graph::node_key no longer climbs prev_id() until a node has a key", nk.loc)


def rule_r4(facts, rep, rid="C20-R4"):
    f = facts.fn("Arena::delete_branch")
    rep.saw_fn(f)
    c = ctx(f)
    seq = list(f.body.get("stmts", [])) + ([f.body["e"]] if f.body.get("e") else [])
    rec = {}
    tomb = None
    for i, s in enumerate(seq):
        for x in fb.calls_in(s):
            if fb.callee(x) == f.def_:
                pv = c.vprov(x["args"][0])
                for link in ("child_id", "next_id"):
                    if q.has_call(pv, "GraphNode::" + link):
                        rec[link] = i
            if (fb.callee(x) or "").endswith("Arena::set_node"):
                st = [y for y in fb.walk(x) if y.get("k") == "path" and (y.get("def") or "").endswith("GraphNode::Empty")]
                if st:
                    tomb = i
    key = f.def_ + "|tombstones-whole-subtree"
    probs = []
    for link in ("child_id", "next_id"):
        if link not in rec:
            probs.append("does not recurse on %s()" % link)
    if tomb is None:
        probs.append("does not overwrite the node with GraphNode::Empty")
    elif rec and tomb < max(rec.values()):
        probs.append("the node is overwritten with Empty before its %s link is read" % [k for k, v in rec.items() if v > tomb])
    # the two recursive steps must be taken for EVERY node kind: not nested in a match arm / if that selects some kinds only
    for x in fb.calls_in(f.body):
        if fb.callee(x) != f.def_:
            continue
        for p in c.parents(x):
            if p.get("k") == "match" and p.get("src") == "Normal":
                sty = fb.norm(fb.tnorm(p.get("sty") or "")).replace("&", "")
                arms = p.get("arms", [])
                # which arm holds the call?
                holder = [a for a in arms if any(y is x for y in fb.walk(a["body"]))]
                others = [a for a in arms if a not in holder]
                if sty.endswith("GraphNode") and others:
                    skipped = []
                    for a in others:
                        if not any(fb.callee(y) == f.def_ for y in fb.calls_in(a["body"])):
                            skipped += [fb.last_seg(v) for v in fb.pat_variants(a["pat"])]
                    if skipped:
                        probs.append("the recursive step `%s` is only taken in some arms of a match on the node kind; for %s the child/next links are not followed" % (fb.show(x)[:50], skipped))
            if p.get("k") == "if" and p["c"].get("k") != "letx":
                probs.append("the recursive step `%s` is guarded by `%s`" % (fb.show(x)[:40], fb.show(p["c"])[:50]))
    # no early exit before the recursive steps (`if let Table(..) = node { ..; return .. }`)
    rec_pos = [(x.get("s") or [0])[0] for x in fb.calls_in(f.body) if fb.callee(x) == f.def_]
    for r_ in [y for y in fb.walk(f.body, into_closures=False) if y.get("k") == "ret"]:
        if rec_pos and (r_.get("s") or [0])[0] < max(rec_pos):
            guard = [p for p in c.parents(r_) if p.get("k") in ("if", "match")]
            probs.append("an early `return` under `%s` leaves delete_branch before its child/next links were followed" % (fb.show(guard[0].get("c") or guard[0].get("e"))[:60] if guard else "?"))
    if probs:
        rep.violation(rid, key, "; ".join(dict.fromkeys(probs)) + " — parts of the old version stay live (ghost blocks, ghost backlinks)", f.loc)
    else:
        rep.ok(rid, key, "recurses on child_id() and next_id() for every node kind, then set_node(id, Empty)", f.loc)
    # its line is cleared
    m = c.mentions(f.body)
    if q.has_call(m, "GraphNode::line_id") and q.has_call(m, "Line::new"):
        rep.ok(rid, f.def_ + "|clears-line", "", f.loc)
    else:
        rep.violation(rid, f.def_ + "|clears-line", "the deleted node's line is not cleared", f.loc)


def rule_r6(facts, rep, rid="C20-R6"):
    # is_parent_of: child_id() == other  (both implementations)
    for name in ("GraphNode::is_parent_of", "NodePointer::is_parent_of"):
        f = facts.fn(name)
        rep.saw_fn(f)
        m = ctx(f).mentions(f.body)
        if any(a[0] == "call" and a[1] and a[1].endswith("::child_id") for a in m) and not any(a[0] == "call" and a[1] and a[1].endswith(("::next_id", "::prev_id")) for a in m):
            rep.ok(rid, f.def_ + "|parenthood-is-child-link", "", f.loc)
        else:
            rep.violation(rid, f.def_ + "|parenthood-is-child-link", "is_parent_of no longer compares child_id() with the other node", f.loc)
    table = [
        ("NodePointer::to_parent", ["NodePointer::to_prev", "NodePointer::is_parent_of", "NodePointer::to_parent"], ["NodePointer::to_next", "NodePointer::to_child"]),
        ("NodePointer::to_document", ["NodePointer::to_prev", "NodePointer::to_document", "is_document"], ["NodePointer::to_next", "NodePointer::to_child"]),
        ("GraphBuilder::to_parent", ["GraphNode::prev_id", "GraphNode::is_parent_of", "GraphBuilder::to_parent"], ["GraphNode::next_id"]),
        ("Graph::node_key", ["GraphNode::key", "GraphNode::prev_id", "Graph::node_key"], ["GraphNode::next_id", "GraphNode::child_id"]),
        ("NodePointer::node_key", ["NodePointer::to_document", "NodePointer::document_key"], []),
    ]
    for name, need, forbid in table:
        f = facts.fn(name)
        rep.saw_fn(f)
        m = ctx(f).mentions(f.body)
        miss = [n for n in need if not q.has_call(m, n)]
        # the walk repeats: by a call to itself, or - the same walk - by a loop around the step
        if name in miss and any(x.get("k") == "loop" and x.get("src") in ("Loop", "While") for x in fb.walk(f.body)):
            miss.remove(name)
        extra = [n for n in forbid if q.has_call(m, n)]
        key = f.def_ + "|walks-prev-links"
        if miss or extra:
            rep.violation(rid, key, "navigation changed: missing %s, unexpected %s (ancestors are found by walking prev links and testing is_parent_of)" % (miss, extra), f.loc)
        else:
            rep.ok(rid, key, "uses " + ", ".join(fb.last_seg(n) for n in need), f.loc)
    # GraphNodePointer delegates each link to the same-named GraphNode accessor
    for link in ("next_id", "child_id", "prev_id"):
        f = facts.fn("GraphNodePointer as liwe::model::node::NodePointer>::" + link)
        m = ctx(f).mentions(f.body)
        others = [l for l in ("next_id", "child_id", "prev_id") if l != link and q.has_call(m, "GraphNode::" + l)]
        if q.has_call(m, "GraphNode::" + link) and not others:
            rep.ok(rid, f.def_ + "|delegates-to-same-link", "", f.loc)
        else:
            rep.violation(rid, f.def_ + "|delegates-to-same-link", "GraphNodePointer::%s reads %s" % (link, others or "nothing"), f.loc)
    for link, acc in (("next", "next_id"), ("child", "child_id")):
        f = facts.fn("GraphNodePointer as liwe::model::node::NodeIter>::" + link)
        m = ctx(f).mentions(f.body)
        if not q.has_call(m, "GraphNode::" + acc):
            # through the pointer's own accessor (`self.next_id()`), which is checked just above
            from vlib import inline as _inl
            fe = _inl.expanded(facts, f)
            m = ctx(fe).mentions(fe.body)
        wrong = [a for a in ("next_id", "child_id", "prev_id") if a != acc and q.has_call(m, "GraphNode::" + a)]
        if q.has_call(m, "GraphNode::" + acc) and not wrong:
            rep.ok(rid, f.def_ + "|delegates-to-same-link", "", f.loc)
        else:
            rep.violation(rid, f.def_ + "|delegates-to-same-link", "NodeIter::%s of GraphNodePointer reads %s" % (link, wrong or "nothing"), f.loc)


def rule_r8(facts, rep, rid="C20-R8"):
    f = facts.fn("Server::handle_rename")
    rep.saw_fn(f)
    c = ctx(f)
    aff = None
    cands = [x for x in fb.walk(f.body) if x.get("k") == "let" and x.get("init") is not None and any(
        y.get("k") == "mcall" and (fb.callee(y) or "").endswith(("Graph::get_block_references_to", "Graph::get_inline_references_to")) for y in fb.walk(x["init"]))]
    if cands:
        # the innermost such `let` (an enclosing `let renamed = ..map(|url| { .. })` contains it too)
        aff = min(cands, key=lambda x: ((x["init"].get("s") or [0, 1 << 60])[1] - (x["init"].get("s") or [0, 0])[0]))
    key = f.def_ + "|affected-keys-unique"
    if aff is None:
        rep.anchor_missing(rid, "the `let` in handle_rename that collects the referrers of the renamed key")
        return
    names = []
    r = aff["init"]
    while r is not None and r.get("k") == "mcall":
        names.append(r["name"])
        r = r["recv"]
    names.reverse()
    ty = str(aff["init"].get("ty") or "")
    ok = "unique" in names or "HashSet" in ty or "BTreeSet" in ty or ("dedup" in names and any(n in names[:names.index("dedup")] for n in ("sorted", "sort", "sorted_unstable")))
    if ok:
        rep.ok(rid, key, "chain: %s" % " -> ".join(n for n in names if n in ("unique", "sorted", "dedup", "collect", "collect_vec")), loc(f, aff))
    else:
        rep.violation(rid, key, "the affected keys are not made unique as a set (chain: %s): a note that refers to the renamed one twice (a block reference and an inline link) is rebuilt "
                      "twice in the patch graph - two live trees claim one key, and the edit carries two whole-file replacements for the same file" % " -> ".join(names[-8:]), loc(f, aff))


def rule_r10(facts, rep, rid="C20-R10"):
    """The two copy entry points of the builder differ only in where the first copied node is linked (insert_from_iter: as the cursor's child; append_from_visitor:
    as its next sibling).  A Document node met on the way is transparent: each of them steps over it *in its own mode* (recurses into itself with the document's
    child); stepping over it in the other mode links the document's first block into the wrong slot and overwrites an existing child / next link - the nodes
    behind that link stay live but unreachable."""
    from .common import facts_at, controlling_tests
    for nm in ("GraphBuilder::insert_from_iter", "GraphBuilder::append_from_visitor"):
        f = facts.fn(nm)
        rep.saw_fn(f)
        c = ctx(f)
        key = "%s|document-stepped-over-in-own-mode" % f.def_
        sites = []
        for x in fb.walk(f.body):
            if x.get("k") == "mcall" and (fb.callee(x) or "").endswith(("GraphBuilder::insert_from_iter", "GraphBuilder::append_from_visitor")):
                under_doc = any(e.get("k") == "mcall" and e.get("name") == "is_document" and pol for e, pol in facts_at(c, x))
                if under_doc:
                    sites.append(x)
        if not sites:
            rep.violation(rid, key, "%s no longer steps over a Document node (no recursive call under `is_document()`)" % fb.last_seg(f.def_), f.loc)
        elif all(fb.callee(x) == f.def_ for x in sites):
            rep.ok(rid, key, "under is_document(): recurses into itself with the document's child", loc(f, sites[0]))
        else:
            other = [fb.last_seg(fb.callee(x)) for x in sites if fb.callee(x) != f.def_]
            rep.violation(rid, key, "%s steps over a Document node by calling %s: the document's first block is linked in the other mode (as a child instead of a sibling or the reverse) and "
                          "overwrites a link of the cursor node - the nodes behind it stay live but unreachable" % (fb.last_seg(f.def_), other[0]), loc(f, sites[0]))


def run(facts, rep, tier):
    rep.rule("C20-R1", "Encapsulation: graph-linking primitives (Graph::builder, GraphBuilder::{set_id,set_insert,link_node_id}, "
             "Arena::{set_node,node_mut,delete_branch}, Graph::{node_mut,add_graph_node}, GraphNode::{set_next_id,set_child_id}) are called only "
             "from the builder layer; private mutators are not exported.")
    rep.rule("C20-R2", "Construction/link pairing: every GraphNode::new_*(prev, id, ..) gets prev = the builder cursor (self.id) and id = a fresh "
             "new_node_id(); add_node_and(2) links the new node as child (insert) or next (append) of the cursor exactly once, stores it once, "
             "and hands a sub-builder positioned at the new node with insert = node.insertable().")
    rep.rule("C20-R3", "Accessor/field agreement: each arm of GraphNode::{id,prev_id,next_id,child_id,line_id} returns the same-named field of "
             "its own payload; set_next_id/set_child_id assign exactly that field or refuse; insertable() is true exactly for variants with a "
             "child field; payload-struct accessors return their own field.")
    rep.rule("C20-R4", "Tombstoning covers the subtree: delete_branch recurses on child_id() and next_id() read before the node is overwritten "
             "with Empty, and clears the node's line.")
    rep.rule("C20-R5", "= C04-R5: ids monotone, push-only arena, arena/index not reachable from outside the crate.")
    rep.rule("C20-R6", "Navigation uses prev links consistently: to_parent/to_document/node_key (both implementations) walk prev and decide "
             "parenthood with is_parent_of = (child_id() == other); GraphNodePointer delegates each link to the same-named accessor.")
    rule_r1(facts, rep)
    rule_r2(facts, rep)
    rule_r3(facts, rep)
    rule_r4(facts, rep)
    c04.rule_r5(facts, rep, "C20-R5")
    rep.rule("C20-R5b", "= C04-R5b: every line has one owner - Arena::add_line stores and returns a freshly drawn id on every exit.")
    from . import arena
    arena.rule_fresh_ids(facts, rep, "C20-R5b")
    rep.rule("C20-R11", "= C09-R8: asking for the node of an unknown key (or the parent / child of a node that has none) never answers with node 0.")
    from . import ids
    ids.rule_no_default_ids(facts, rep, "C20-R11")
    rep.rule("C20-R12", "Trees of different graphs are disjoint: Graph::new_patch starts empty (options and front matter only) - no keys, nodes, lines or index of the library are copied.")
    from . import forwards
    forwards.rule_patch_is_empty(facts, rep, "C20-R12")
    rule_r6(facts, rep)
    rep.rule("C20-R3b", "Asking a block for its note gives the owner: GraphNode::key() is Some only for the root kind (Document), and Graph::node_key climbs prev until then.")
    rule_r3b(facts, rep)
    rep.rule("C20-R7", "= C04-R4: one live root per note - Graph::update_key tombstones the previous root (looked up unconditionally in `keys`) before the new version is built.")
    c04.rule_r4(facts, rep, "C20-R7")
    rep.rule("C20-R8", "The rename patch graph is a forest too: Patch::build_key is entered once per affected note - the affected keys are made unique as a set (`unique()`, a set, or "
             "`sorted()` before `dedup()`), not by dropping adjacent repeats of an unsorted sequence.")
    rule_r8(facts, rep)
    rep.rule("C20-R9", "= C01-R11: every node the builder creates stays reachable from its note's root - a list that is the first block of a list item gets its own list node and the "
             "cursor is restored after its items (otherwise the next block overwrites a child link and the nodes behind it stay live but unreachable).")
    from . import c01 as _c01
    _c01.rule_r11(facts, rep, "C20-R9")
    rep.rule("C20-R10", "A Document node inside a copied tree is stepped over in the copying mode of the caller (insert vs append): otherwise an existing link of the cursor is overwritten.")
    rule_r10(facts, rep)
