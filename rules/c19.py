"""C19 - on-disk normalize rewrites notes in place and never leaves a damaged file."""
from vlib import factbase as fb
from vlib import q
from .common import ctx, loc, str_template
from . import c14

FS_MUTATORS = {
    "std::fs::write", "std::fs::rename", "std::fs::remove_file", "std::fs::remove_dir", "std::fs::remove_dir_all", "std::fs::create_dir",
    "std::fs::create_dir_all", "std::fs::copy", "std::fs::set_permissions", "std::fs::File::create", "std::fs::File::create_new",
    "std::fs::OpenOptions::open", "std::fs::hard_link", "std::fs::File::set_len", "std::os::unix::fs::symlink",
}

# audited users of mutating fs APIs: (fn, callee last2) -> reason
FS_ALLOWED = {
    ("liwe::fs::write_file", "fs::write"): "the note writer: writes the temporary sibling",
    ("liwe::fs::write_file", "fs::rename"): "the note writer: atomically replaces the note with the temporary sibling",
    ("liwe::fs::write_file", "fs::remove_file"): "the note writer: removes its own temporary sibling when the write failed",
    ("iwe::init_command", "fs::create_dir"): "`iwe init` creates .iwe/ (a different command)",
    ("iwe::init_command", "fs::write"): "`iwe init` writes .iwe/config.toml (a different command)",
    ("iwe::main", "OpenOptions::open"): "opens iwe.log for appending under IWE_DEBUG (logging)",
    ("iwes::main", "OpenOptions::open"): "opens iwe.log for appending under IWE_DEBUG (logging)",
    ("<&iwes::router::server::Server as iwes::router::server::action::ActionContext>::llm_query", "fs::write"): "debug dump of LLM prompt/response under ./.iwe (server only, not normalize)",
}


def rule_r2(facts, rep, rid="C19-R2"):
    f = facts.fn("liwe::fs::write_file")
    rep.saw_fn(f)
    c = ctx(f)
    cfg = f.cfg
    writes = cfg.calls(lambda p: p in ("std::fs::write", "std::fs::File::create", "std::fs::OpenOptions::open", "std::io::Write::write_all"))
    renames = cfg.calls(lambda p: p == "std::fs::rename")
    key = f.def_ + "|write-temporary-then-rename"
    # final path = to.join(format!("{}.md", key)); a direct write to it truncates the note first
    hw = [x for x in fb.calls_in(f.body) if fb.callee(x) in ("std::fs::write", "std::fs::File::create")]
    hr = [x for x in fb.calls_in(f.body) if fb.callee(x) == "std::fs::rename"]
    if not hw:
        rep.violation(rid, key, "write_file no longer writes anything", f.loc)
        return
    if not hr:
        rep.violation(rid, key, "the note is written in place (fs::write on the final path truncates the file and then writes): a failure part-way (disk full, kill) leaves a "
                      "truncated or empty note. Write a temporary sibling and fs::rename it over the note.", loc(f, hw[0]))
        return
    probs = []
    # the write target must differ from the rename destination, and the rename source must be the written path
    wt = hw[0]["args"][0]
    rs, rd = hr[0]["args"][0], hr[0]["args"][1]
    from .panics import _same_place
    if _same_place(wt, rd):
        probs.append("fs::write targets the final path itself")
    if not _same_place(wt, rs):
        probs.append("the renamed file is not the one that was written")
    # rename happens only after a successful write: the write call's bb reaches rename and rename is on the Ok edge
    if writes and renames:
        wbb, rbb = writes[0][0], renames[0][0]
        if not cfg.reaches(wbb, rbb):
            probs.append("rename does not follow the write")
        # every normal return on the success side passes the rename: a path write->return avoiding rename must go through an error exit
        # (accepted: early `return Err(e)` / `?`)
    ment = c.mentions(f.body)
    if probs:
        rep.violation(rid, key, "; ".join(probs), f.loc)
    else:
        rep.ok(rid, key, "writes `%s`, then renames it to `%s`" % (fb.show(wt)[:50], fb.show(rd)[:50]), f.loc)
    # the final path is touched by nothing but the rename's destination: every other mutating call in write_file targets the temporary
    counts = {}
    for x in fb.calls_in(f.body, lambda p_: p_ in FS_MUTATORS):
        cal = fb.callee(x)
        if cal == "std::fs::rename":
            continue
        l2 = fb.last2(cal)
        i = counts.get(l2, 0)
        counts[l2] = i + 1
        k2 = "%s|%s:%d|targets-temporary" % (f.def_, l2, i)
        tgt = x["args"][0] if x.get("args") else None
        if tgt is not None and _same_place(tgt, wt) and not _same_place(tgt, rd):
            rep.ok(rid, k2, "%s(%s) works on the temporary sibling" % (l2, fb.show(tgt)[:40]), loc(f, x))
        else:
            rep.violation(rid, k2, "%s is applied to `%s`, which is not the temporary sibling that was written (`%s`): on the failure path the note itself (final path `%s`) is "
                          "deleted or overwritten, so a failed write loses the old text" % (l2, fb.show(tgt)[:40] if tgt is not None else "?", fb.show(wt)[:40], fb.show(rd)[:40]), loc(f, x))
    # temporary sibling must not be picked up by the loader (extension != md) and live in the same directory
    lits = [x.get("v", "") for x in fb.walk(f.body) if x.get("k") == "lit"]
    tmp_like = [l for l in lits if ".md" in l and (l.rstrip("·").endswith(("tmp", "~", "swp", "new", "part")) or ".tmp" in l)]
    # the same through whatever builds the two names: temporary = final + a non-empty suffix that does not end in `.md`
    tw, td = str_template(c, wt), str_template(c, rd)
    if hr and isinstance(tw[-1], str) and isinstance(td[-1], str):
        if tw[:-1] == td[:-1] and tw[-1].startswith(td[-1]) and tw[-1] != td[-1] and not tw[-1].endswith(".md"):
            tmp_like = ["".join(p if isinstance(p, str) else "{}" for p in tw)]
        else:
            tmp_like = []
            lits = ["".join(p if isinstance(p, str) else "{}" for p in tw), "".join(p if isinstance(p, str) else "{}" for p in td)]
    if hr and not tmp_like:
        rep.violation(rid, f.def_ + "|temporary-is-not-a-note", "cannot see a temporary name whose extension differs from `.md` (literals: %s): the loader would pick the temporary up as a note" % lits, f.loc)
    elif hr:
        rep.ok(rid, f.def_ + "|temporary-is-not-a-note", "temporary name pattern %s" % tmp_like, f.loc)


def rule_r3(facts, rep, rid="C19-R3"):
    n = 0
    for f in facts.body_fns():
        if f.crate not in ("liwe", "iwes", "iwe"):
            continue
        counts = {}
        for x in fb.calls_in(f.body, lambda p: p in FS_MUTATORS):
            cal = fb.callee(x)
            if cal not in FS_MUTATORS:
                cal = fb.rcallee(x)
            n += 1
            rep.saw_fn(f)
            l2 = fb.last2(cal)
            i = counts.get(l2, 0)
            counts[l2] = i + 1
            key = "%s|%s|%d" % (f.def_, l2, i)
            why = FS_ALLOWED.get((f.def_, l2))
            if why:
                rep.ok(rid, key, why, loc(f, x))
            else:
                rep.violation(rid, key, "new user of a mutating file-system API (%s): `iwe normalize` must touch nothing but the note files it rewrites through liwe::fs::write_file" % cal, loc(f, x))
    rep.floor(rid, "mutating fs call sites", n, 5)
    # nothing but write_file on the normalize path
    cg = facts.callgraph
    norm = facts.fn("iwe::normalize_command")
    reach = cg.reachable_from([norm.def_])
    users = set()
    for f in facts.body_fns():
        if f.def_ in reach and f.crate in ("liwe", "iwes", "iwe"):
            for x in fb.calls_in(f.body, lambda p: p in FS_MUTATORS):
                users.add(f.def_)
    extra = sorted(u for u in users if u != "liwe::fs::write_file")
    if extra:
        rep.violation(rid, norm.def_ + "|only-write_file-mutates", "file-system mutators reachable from `iwe normalize` outside write_file: %s" % extra, norm.loc)
    else:
        rep.ok(rid, norm.def_ + "|only-write_file-mutates", "the only fs mutator reachable from normalize_command is liwe::fs::write_file", norm.loc)


def rule_r4(facts, rep, rid="C19-R4"):
    f = facts.fn("liwe::fs::write_store_at_path")
    rep.saw_fn(f)
    c = ctx(f)
    calls = [x for x in fb.calls_in(f.body) if fb.callee(x) == "liwe::fs::write_file"]
    if not calls:
        rep.violation(rid, f.def_ + "|propagates-write-errors", "write_store_at_path does not call write_file", f.loc)
    else:
        from .common import result_propagated
        tried = all(result_propagated(c, f, x) for x in calls)
        if tried:
            rep.ok(rid, f.def_ + "|propagates-write-errors", "write_file(..)? ", loc(f, calls[0]))
        else:
            rep.violation(rid, f.def_ + "|propagates-write-errors", "the result of write_file is dropped: a failed write goes unnoticed and normalize reports success", loc(f, calls[0]))
    g = facts.fn("iwe::write_graph")
    rep.saw_fn(g)
    m = ctx(g).mentions(g.body)
    if q.has_call(m, "liwe::fs::write_store_at_path") and (q.has_call(m, "Result::expect") or q.has_call(m, "Result::unwrap")):
        rep.ok(rid, g.def_ + "|fails-loudly", "expect on the write result", g.loc)
    else:
        rep.violation(rid, g.def_ + "|fails-loudly", "write_graph swallows the write result", g.loc)
    # normalize = write_graph(load_graph()) on the same library path
    n = facts.fn("iwe::normalize_command")
    mn = ctx(n).mentions(n.body)
    if q.has_call(mn, "iwe::write_graph") and q.has_call(mn, "iwe::load_graph"):
        rep.ok(rid, n.def_ + "|write(load())", "", n.loc)
    else:
        rep.violation(rid, n.def_ + "|write(load())", "normalize is no longer write_graph(load_graph())", n.loc)
    for h in ("iwe::write_graph", "iwe::load_graph"):
        hf = facts.fn(h)
        if q.has_call(ctx(hf).mentions(hf.body), "iwe::get_library_path"):
            rep.ok(rid, hf.def_ + "|uses-library-path", "", hf.loc)
        else:
            rep.violation(rid, hf.def_ + "|uses-library-path", "%s does not use get_library_path(): read and write side could address different directories" % h, hf.loc)


def rule_r4b(facts, rep, rid="C19-R4b"):
    """A note that cannot be read is left alone: the loader turns a read error into `no note` (`.ok()`, `?`, a match on Err), never into an empty text - an empty note would be
    exported as an empty file over the original (a Latin-1 file, a file without read permission)."""
    n = 0
    for f in facts.body_fns():
        if f.crate not in ("liwe", "iwe") or "::tests::" in f.def_ or "::test::" in f.def_ or not (f.def_.startswith("liwe::fs::") or f.crate == "iwe"):
            continue
        c = None
        i = 0
        for x in fb.calls_in(f.body, lambda p: p in ("std::fs::read_to_string", "std::fs::read")):
            c = c or ctx(f)
            rep.saw_fn(f)
            owner = f.parent if f.kind == "closure" and f.parent else f.def_
            key = "%s|%s|%d|read-error-is-not-empty-text" % (owner, fb.last_seg(fb.callee(x)), i)
            i += 1
            n += 1
            from .common import value_chain
            names = [m_["name"] for m_ in value_chain(c, x)]
            swallow = [nm for nm in names if nm in ("unwrap_or_default", "unwrap_or", "unwrap_or_else", "map_or", "map_or_else")]
            # only up to the point where the Result stops being one (`.ok()` / `?` / expect)
            cut = next((k for k, nm in enumerate(names) if nm in ("ok", "expect", "unwrap", "map_err")), len(names))
            swallow = [nm for nm in names[:cut] if nm in ("unwrap_or_default", "unwrap_or", "unwrap_or_else", "map_or", "map_or_else")]
            if swallow:
                rep.violation(rid, key, "the result of %s goes through `%s`: a file that cannot be read (not UTF-8, no permission) is loaded as an empty note, and normalize writes that "
                              "empty text over the file" % (fb.last2(fb.callee(x)), swallow[0]), loc(f, x))
            else:
                rep.ok(rid, key, "read error -> %s" % (names[cut] if cut < len(names) else "propagated"), loc(f, x))
    rep.floor(rid, "file reads of the loader / CLI", n, 2)


def rule_r5(facts, rep, rid="C19-R5"):
    """Every directory below the library is visited: the recursion of the loader is decided by `is_dir()` alone.  If the entries are split by the `md`
    extension first and only the rest is searched for directories, a directory whose own name ends in `.md` is never entered and its notes are never
    read, normalised or written back."""
    f = facts.fn("liwe::fs::new_for_path_rec")
    rep.saw_fn(f)
    c = ctx(f)
    from .common import recv_chain, through_lets
    rec = [x for x in fb.calls_in(f.body) if fb.callee(x) == f.def_]
    key = f.def_ + "|every-directory-is-entered"
    if not rec:
        rep.violation(rid, key, "the loader no longer recurses into sub-directories", f.loc)
        return
    probs = []
    for r in rec:
        # the sequence the recursive call is mapped over: walk outwards to the enclosing adapter call and down its receiver chain, through lets
        seq = None
        for p in c.parents(r):
            if p.get("k") == "closure":
                host = c.parent_of.get(id(p))
                if host is not None and host.get("k") == "mcall":
                    seq = host.get("recv")
                break
        names = []
        tests = []
        hops = 0
        while seq is not None and hops < 30:
            hops += 1
            seq = through_lets(c, seq)
            if seq.get("k") == "mcall":
                names.append(seq["name"])
                if seq["name"] in ("filter", "partition", "filter_map", "skip_while", "take_while") and seq.get("args"):
                    tests.append(seq)
                seq = seq.get("recv")
                continue
            if seq.get("k") == "path" and seq.get("res") == "local":
                b = c.binds.get(seq["id"])
                if b and b[0] == "expr" and b[1] is not None:
                    # a local destructured from `partition(..)`: the partition is a test the sequence went through
                    seq = b[1]
                    continue
            break
        for t in tests:
            m = c.mentions(t["args"][0])
            if any(a[0] == "call" and a[1] and (a[1].endswith("Path::extension") or a[1].endswith("::ends_with") or a[1].endswith("Path::file_name")) for a in m):
                probs.append("`.%s(..)` on the file extension" % t["name"])
        if "read_dir" not in names and not any(a[0] == "call" and a[1] and a[1].endswith("fs::read_dir") for a in c.mentions(r)):
            pass
    if probs:
        rep.violation(rid, key, "the directories the loader recurses into have first gone through %s: a sub-directory whose name ends in `.md` is sorted with the notes, dropped there because "
                      "it is not a file, and never entered - the notes below it are not loaded and `iwe normalize` does not rewrite them" % probs[0], loc(f, rec[0]))
    else:
        rep.ok(rid, key, "sub-directories are selected by is_dir() alone", loc(f, rec[0]))


def run(facts, rep, tier):
    rep.rule("C19-R1", "= C14-R1/R3: same path in, same path out (one `.md` removed by the reader, one appended by the writer, no repeated trimming).")
    rep.rule("C19-R2", "Atomic replacement: liwe::fs::write_file writes a temporary sibling (not ending in .md) and renames it over the note; it never writes the final path directly.")
    rep.rule("C19-R3", "Nothing else is touched: every call of a mutating std::fs API in the workspace is in the audited table; the only mutator reachable from `iwe normalize` is write_file.")
    rep.rule("C19-R4", "Write errors are propagated (write_file(..)? in write_store_at_path, expect in write_graph); normalize = write_graph(load_graph()) on one library path.")
    c14.rule_r1(facts, rep, "C19-R1")
    c14.rule_r3(facts, rep, "C19-R1")
    c14.rule_r6(facts, rep, "C19-R1b")
    rule_r2(facts, rep)
    rule_r3(facts, rep)
    rule_r4(facts, rep)
    rep.rule("C19-R4b", "A file that cannot be read is skipped, never loaded as an empty note: the Result of fs::read_to_string reaches `.ok()` / `?` / expect without a defaulting combinator.")
    rule_r4b(facts, rep)
    rep.rule("C19-R5", "Every directory below the library is entered: the loader's recursion is decided by is_dir() alone, never by a file-extension test.")
    rule_r5(facts, rep)
    rep.rule("C19-R6", "= C14-R9: every file of the library has its own entry - two keys are the same only if their text is the same (derived ==, Hash, order on Key); otherwise one file's "
             "text is written over another's.")
    from . import c16 as _c16
    _c16.rule_r8(facts, rep, "C19-R6", only=("Key",), floor=4)
