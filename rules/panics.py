"""Shared engine: audited inventory of panicking constructs reachable from a set of roots.

Used by C03 (library / CLI / notification roots), C11 (notification roots: a caught panic drops
the edit) and C12 (request-handler roots: a worker panic means no response).

A *site* is a construct that can panic at run time:
  unwrap / expect on Option/Result, explicit panic-family macros (panic!, unreachable!, todo!,
  unimplemented!, assert*!), indexing (`v[i]`, `map[k]`, slices), arithmetic asserts
  (overflow, division by zero), and calls to std APIs documented to panic
  (Vec::remove/insert/swap_remove/split_off/drain, slice::split_at, String::remove/insert...,
  RefCell::borrow*, Iterator::step_by, etc.).

Key of a site (never contains a line number):
  (outermost enclosing fn def path, kind, operand-origin, ordinal among equal keys in source order)

A site is discharged automatically by a local guard idiom (see `_guarded_by_is_some`), otherwise it
must be present in tables/panics.json with a class:
  invariant  - infeasible because of a named data-structure invariant (reason given)
  guarded    - guarded by a non-local but checked condition (reason given)
  benign     - cannot be reached with input-derived data (startup / config / test-only), reason given
  finding    - a concrete input reaches it: reported (VIOLATION unless listed in known_findings.json)
A reachable site that is in no table is reported as a violation ("new panic site").
"""
import json
import re
import os

from vlib import factbase as fb

VERIF = os.path.dirname(os.path.dirname(os.path.abspath(__file__)))

UNWRAPS = {
    "std::option::Option::unwrap": "unwrap",
    "std::option::Option::expect": "expect",
    "std::result::Result::unwrap": "unwrap",
    "std::result::Result::expect": "expect",
    "std::result::Result::unwrap_err": "unwrap",
    "std::result::Result::expect_err": "expect",
    "core::option::Option::unwrap": "unwrap",
    "core::option::Option::expect": "expect",
    "core::result::Result::unwrap": "unwrap",
    "core::result::Result::expect": "expect",
}

_UNWRAP_OR_ELSE = {"std::option::Option::unwrap_or_else", "core::option::Option::unwrap_or_else", "std::result::Result::unwrap_or_else", "core::result::Result::unwrap_or_else"}

PANICKING_STD = {
    "std::vec::Vec::remove", "std::vec::Vec::insert", "std::vec::Vec::swap_remove", "std::vec::Vec::split_off",
    "std::vec::Vec::drain", "std::vec::Vec::splice", "std::vec::Vec::extend_from_within",
    "core::slice::split_at", "core::slice::split_at_mut", "core::slice::copy_from_slice", "core::slice::swap",
    "core::slice::chunks", "core::slice::windows", "core::slice::rotate_left", "core::slice::rotate_right",
    "std::string::String::remove", "std::string::String::insert", "std::string::String::insert_str",
    "std::string::String::split_off", "std::string::String::drain", "std::string::String::replace_range",
    "core::str::split_at", "std::cell::RefCell::borrow", "std::cell::RefCell::borrow_mut",
    "core::cell::RefCell::borrow", "core::cell::RefCell::borrow_mut",
    "std::iter::Iterator::step_by", "core::iter::Iterator::step_by",
    "std::collections::VecDeque::remove", "std::time::Instant::duration_since",
    "itertools::Itertools::exactly_one", "core::char::from_digit",
    "std::thread::JoinHandle::join",
}

PANIC_FNS_PREFIX = ("core::panicking::", "std::rt::begin_panic", "std::rt::panic_", "core::panicking::assert_failed",
                    "std::panicking::begin_panic", "core::option::unwrap_failed", "core::option::expect_failed",
                    "core::result::unwrap_failed")


def _ty_class(t):
    """A rename-robust class of a type string: outermost constructor + first argument head."""
    if not t:
        return "?"
    t = fb.norm(t)
    t = t.replace("&mut ", "&").lstrip("&")
    return t


_TRANSPARENT_CALLS = {"clone", "cloned", "copied", "to_owned", "as_ref", "as_mut", "as_deref", "as_deref_mut", "borrow", "borrow_mut", "by_ref"}


_FACTS = None


def _thin_accessor(call):
    """Body expression of a local one-expression accessor fn (`fn get_node_id(&self, k) -> Option<Id> { self.keys.get(k).cloned() }`), else None."""
    if _FACTS is None:
        return None
    for d in (fb.rcallee(call), fb.callee(call)):
        g = _FACTS.fns.get(d) if d else None
        if g is not None and g.body is not None and g.crate in ("liwe", "iwes", "iwe"):
            b = g.body
            if b.get("k") == "block" and not b.get("stmts") and b.get("e") is not None:
                t = b["e"]
                # only plain container lookups: `self.<field>.get(key)` possibly followed by clone / cloned / copied
                u = t
                while u is not None and u.get("k") == "mcall" and u.get("name") in _TRANSPARENT_CALLS and not u.get("args"):
                    u = u.get("recv")
                if u is not None and u.get("k") == "mcall" and u.get("name") in ("get", "get_mut") and (u.get("recv") or {}).get("k") == "field":
                    return t
    return None


def _origin(e, depth=0):
    """Operand origin of an expression, robust to local renames."""
    if e is None or depth > 6:
        return "?"
    k = e.get("k")
    if k == "path":
        if e.get("res") == "local":
            return "local<%s>" % _ty_class(e.get("ty"))
        return "def:" + fb.last2(fb.norm(e.get("def", "?")))
    if k == "mcall":
        if e.get("name") in _TRANSPARENT_CALLS and not e.get("args"):
            return _origin(e.get("recv"), depth + 1)      # `x.f.clone().unwrap()` and `x.clone().f.unwrap()` unwrap the same value
        thin = _thin_accessor(e)
        if thin is not None:
            return _origin(thin, depth + 1)               # `self.get_node_id(k)` is `self.keys.get(k).cloned()`: the same lookup
        return "call:" + fb.last2(fb.callee(e) or e.get("name"))
    if k == "call":
        return "call:" + fb.last2(fb.callee(e) or "?")
    if k == "field":
        return "field:%s.%s" % (fb.last2(_ty_class(e.get("bty"))), e.get("name"))
    if k in ("unary", "addrof", "cast"):
        return _origin(e.get("e"), depth + 1)
    if k == "index":
        return "index:" + _origin(e.get("e"), depth + 1)
    if k == "match":
        return "match<%s>" % _ty_class(e.get("sty"))
    return k or "?"


def _is_diverging_block(b):
    """then-block that certainly leaves (return / continue / break / panic) - syntactic."""
    if b is None:
        return False
    k = b.get("k")
    if k in ("ret", "break", "continue"):
        return True
    if k == "block":
        seq = list(b.get("stmts", []))
        if b.get("e") is not None:
            seq.append(b["e"])
        return bool(seq) and _is_diverging_block(seq[-1])
    if k in ("call", "mcall") and b.get("ty") == "!":
        return True
    return False


def _last_expr(b):
    while b is not None and b.get("k") == "block":
        seq = list(b.get("stmts", []))
        if b.get("e") is not None:
            seq.append(b["e"])
        if not seq:
            return b
        b = seq[-1]
    return b


def _conjuncts(c):
    if c is None:
        return []
    if c.get("k") == "binary" and c.get("op") == "&&":
        return _conjuncts(c["l"]) + _conjuncts(c["r"])
    return [c]


def _disjuncts(c):
    if c is None:
        return []
    if c.get("k") == "binary" and c.get("op") == "||":
        return _disjuncts(c["l"]) + _disjuncts(c["r"])
    return [c]


def _same_place(a, b):
    """Two expressions denote the same pure place/getter (locals by id, fields, arg-less getters)."""
    if a is None or b is None:
        return False
    while a.get("k") in ("addrof",) or (a.get("k") == "unary" and a.get("op") == "*"):
        a = a["e"]
    while b.get("k") in ("addrof",) or (b.get("k") == "unary" and b.get("op") == "*"):
        b = b["e"]
    if a.get("k") != b.get("k"):
        return False
    k = a.get("k")
    if k == "path":
        if a.get("res") == "local":
            return b.get("res") == "local" and a.get("id") == b.get("id")
        return a.get("def") == b.get("def")
    if k == "field":
        return a.get("name") == b.get("name") and _same_place(a["e"], b["e"])
    if k == "mcall":
        # getter-like calls: same callee, same receiver, no args (or same-literal args); clone() is transparent
        if fb.callee(a) != fb.callee(b) or len(a["args"]) != len(b["args"]):
            return False
        if not _same_place(a["recv"], b["recv"]):
            return False
        return all(_same_place(x, y) or (x.get("k") == "lit" and y.get("k") == "lit" and x.get("v") == y.get("v")) for x, y in zip(a["args"], b["args"]))
    if k == "lit":
        return a.get("v") == b.get("v")
    if k == "call":
        if fb.callee(a) is None or fb.callee(a) != fb.callee(b) or len(a["args"]) != len(b["args"]):
            return False
        return all(_same_place(_strip_clone(x), _strip_clone(y)) for x, y in zip(a["args"], b["args"]))
    return False


def _strip_clone(e):
    while e is not None and e.get("k") == "mcall" and e.get("name") in ("clone", "as_ref", "as_mut", "as_deref") and not e.get("args"):
        e = e["recv"]
    return e


def _is_test(c, recv, names):
    """c is `recv.<name>()` for name in names (on the same place as recv)."""
    if c.get("k") == "mcall" and c.get("name") in names and not c.get("args"):
        return _same_place(_strip_clone(c["recv"]), _strip_clone(recv))
    return False


def _neg(c):
    if c.get("k") == "unary" and c.get("op") == "!":
        return c["e"]
    return None


def guarded_by_presence_test(site, parents):
    """unwrap()/expect() on place P is discharged when it lies
       (a) in the then-branch of `if ... P.is_some()/is_ok() && ...`,
       (b) in the else-branch of `if P.is_none()/is_err() || ...`,
       (c) to the right of `P.is_some() && ...` in the same && chain,
       (d) after a statement `if P.is_none() || ... { <diverges> }` in an enclosing block.
    Returns a reason string or None."""
    recv = site["recv"]
    yes = ("is_some", "is_ok")
    no = ("is_none", "is_err")
    child = site
    # (f) M.get(K).unwrap() under `if M.contains_key(K)`;  (g) X.first()/last()/last_mut()/pop().unwrap() after `if X.is_empty() { return }`
    getter = recv if recv.get("k") == "mcall" else None
    for p in reversed(parents):
        k = p.get("k")
        if k == "if" and getter is not None and child is p.get("t") and getter["name"] in ("get", "get_mut") and getter["args"]:
            for cj in _conjuncts(p["c"]):
                if cj.get("k") == "mcall" and cj["name"] == "contains_key" and cj["args"] and _same_place(cj["recv"], getter["recv"]) and _same_place(cj["args"][0], getter["args"][0]):
                    return "then-branch of `if %s`" % fb.show(cj)
        if k == "if" and child is p.get("t"):
            # (e) `if let Some(_) = P` / `while let Some(_) = P` with P the same pure place as the receiver
            for cj in _conjuncts(p["c"]):
                if cj.get("k") == "letx" and any(v.endswith(("::Some", "::Ok")) for v in fb.pat_variants(cj["pat"]) if v) and _same_place(_strip_clone(cj["init"]), _strip_clone(recv)):
                    return "inside `if/while let Some(_) = %s`" % fb.show(cj["init"])
        # (h) X.first()/last()/last_mut()/pop().unwrap() in the else-branch of `if X.is_empty()` / then-branch of `if !X.is_empty()`
        if k == "if" and getter is not None and getter["name"] in ("first", "last", "last_mut", "first_mut", "pop") and not getter["args"] and p["c"].get("k") != "letx":
            def _empty_of(cj):
                if cj.get("k") == "mcall" and cj["name"] == "is_empty" and not cj["args"]:
                    return cj["recv"]
                if cj.get("k") == "binary" and cj["op"] == "==" and cj["l"].get("k") == "mcall" and cj["l"]["name"] == "len" and cj["r"].get("k") == "lit" and cj["r"].get("v") == "i:0":
                    return cj["l"]["recv"]
                return None
            if child is p.get("e"):
                for cj in _disjuncts(p["c"]):
                    emp = _empty_of(cj)
                    if emp is not None and _same_place(emp, getter["recv"]):
                        return "else-branch of `if %s`" % fb.show(cj)
            if child is p.get("t"):
                for cj in _conjuncts(p["c"]):
                    n_ = _neg(cj)
                    emp = _empty_of(n_) if n_ is not None else None
                    if emp is not None and _same_place(emp, getter["recv"]):
                        return "then-branch of `if %s`" % fb.show(cj)
        if k == "block" and getter is not None and getter["name"] in ("first", "last", "last_mut", "first_mut", "pop") and not getter["args"]:
            seq = list(p.get("stmts", []))
            if p.get("e") is not None:
                seq.append(p["e"])
            for s_ in seq:
                if s_ is child:
                    break
                if s_.get("k") == "if" and s_.get("e") is None and _is_diverging_block(s_.get("t")):
                    for cj in _disjuncts(s_["c"]):
                        emp = None
                        if cj.get("k") == "mcall" and cj["name"] == "is_empty" and not cj["args"]:
                            emp = cj["recv"]
                        if cj.get("k") == "binary" and cj["op"] == "==" and cj["l"].get("k") == "mcall" and cj["l"]["name"] == "len" and cj["r"].get("k") == "lit" and cj["r"].get("v") == "i:0":
                            emp = cj["l"]["recv"]
                        if emp is not None and _same_place(emp, getter["recv"]):
                            return "after early exit `if %s { return }`" % fb.show(cj)
        child = p
    child = site
    for p in reversed(parents):
        k = p.get("k")
        if k == "if":
            conj = _conjuncts(p["c"])
            if child is p.get("t"):
                for c in conj:
                    if _is_test(c, recv, yes):
                        return "then-branch of `if %s`" % fb.show(c)
                    n = _neg(c)
                    if n is not None and _is_test(n, recv, no):
                        return "then-branch of `if %s`" % fb.show(c)
            if child is p.get("e"):
                for c in _disjuncts(p["c"]):
                    if _is_test(c, recv, no):
                        return "else-branch of `if %s`" % fb.show(c)
        if k == "binary" and p.get("op") == "&&" and child is p.get("r"):
            for c in _conjuncts(p["l"]):
                if _is_test(c, recv, yes):
                    return "right of `%s &&`" % fb.show(c)
        if k == "binary" and p.get("op") == "||" and child is p.get("r"):
            for c in _disjuncts(p["l"]):
                if _is_test(c, recv, no):
                    return "right of `%s ||`" % fb.show(c)
        if k == "block":
            seq = list(p.get("stmts", []))
            if p.get("e") is not None:
                seq.append(p["e"])
            # statements before `child`
            for s in seq:
                if s is child:
                    break
                if s.get("k") == "if" and s.get("e") is None and _is_diverging_block(s.get("t")):
                    for c in _disjuncts(s["c"]):
                        if _is_test(c, recv, no):
                            return "after early exit `if %s { return }`" % fb.show(c)
        if k == "closure":
            # a guard outside the closure still protects a by-value copy only if the place is immutable; accept
            pass
        child = p
    return None


def _lit_int(e, minimum=0):
    if e is None or e.get("k") != "lit":
        return None
    v = str(e.get("v", ""))
    v = v.split(":", 1)[-1]
    digits = "".join(ch for ch in v if ch.isdigit())
    if not digits or not v[0].isdigit():
        return None
    n = int(digits) if v.isdigit() else None
    if n is None:
        try:
            n = int(v.rstrip("usizeu32i648") or "x")
        except ValueError:
            return None
    return n if n >= minimum else None


def _window_size(e):
    """N if the iterator expression `e` goes over `.windows(N)` / `.chunks_exact(N)` with a literal N (through adapters that keep the items)."""
    keep = {"iter", "into_iter", "enumerate", "filter", "skip", "take", "rev", "peekable", "by_ref"}
    for x in fb.walk(e):
        if x.get("k") == "mcall" and x["name"] in ("windows", "chunks_exact", "array_windows") and x.get("args"):
            n = _lit_int(x["args"][0], 1)
            if n is not None:
                return n
    return None


def _window_index(node, parents):
    """`w[i]` with a literal i < N where `w` is the item of an iteration over `.windows(N)` (closure parameter or for-loop binding)."""
    i = _lit_int(node.get("i"))
    base = node.get("e")
    if i is None or base is None or base.get("k") != "path" or base.get("res") != "local":
        return None
    lid = base["id"]
    child = node
    for p in reversed(parents):
        if p.get("k") == "closure" and any(b == lid for prm in p.get("params", []) for _n, b in fb.pat_bindings(prm)):
            # the call the closure is an argument of
            idx = parents.index(p)
            if idx > 0 and parents[idx - 1].get("k") == "mcall" and parents[idx - 1].get("recv") is not None:
                n = _window_size(parents[idx - 1]["recv"])
                if n is not None and i < n:
                    return "item of `.windows(%d)`: index %d is in bounds" % (n, i)
            return None
        if p.get("k") == "match" and p.get("src") == "ForLoopDesugar":
            n = _window_size(p.get("e"))
            if n is not None and i < n and any(b == lid for a in fb.walk(p, with_pats=True) if fb.is_pat(a) for _n, b in fb.pat_bindings(a)):
                return "item of a loop over `.windows(%d)`: index %d is in bounds" % (n, i)
        child = p
    return None


def _stable_place(e, assigned):
    while e is not None and e.get("k") == "field":
        e = e.get("e")
    return e is not None and e.get("k") == "path" and e.get("res") == "local" and e.get("id") not in assigned


def _pos_in_params(clo, e):
    """Position of local `e` in the closure's parameter patterns (`cp0>tuple.1`), or None."""
    from vlib import q as _q
    while e is not None and e.get("k") in ("unary", "addrof"):
        e = e.get("e")
    if e is None or e.get("k") != "path" or e.get("res") != "local":
        return None
    for i, p in enumerate(clo.get("params", [])):
        for lid, pos in _q.pat_positions(p, "cp%d" % i):
            if lid == e["id"]:
                return pos
    return None


def _filter_guard(clo, host, a, b):
    if host is None or host.get("k") != "mcall" or clo not in host.get("args", []):
        return None
    pb, pa = _pos_in_params(clo, b), _pos_in_params(clo, a)
    r = host.get("recv")
    while r is not None and r.get("k") == "mcall":
        if r["name"] in ("filter", "take_while", "skip_while") and r.get("args") and r["args"][0].get("k") == "closure" and r["name"] != "skip_while":
            fc = r["args"][0]
            body = fc["body"]
            while body.get("k") == "block" and not body.get("stmts") and body.get("e") is not None:
                body = body["e"]
            for c in _conjuncts(body):
                if c.get("k") != "binary" or c.get("op") not in ("<=", "<", ">=", ">"):
                    continue
                lo, hi = (c["l"], c["r"]) if c["op"] in ("<=", "<") else (c["r"], c["l"])      # lo <= hi
                # `b` is an element component: same position in both closures; `a` an outer value: same rendering (or the same position)
                same_b = pb is not None and _pos_in_params(fc, lo) == pb
                same_a = (pa is not None and _pos_in_params(fc, hi) == pa) or (pa is None and _pos_in_params(fc, hi) is None and fb.show(hi) == fb.show(a))
                if same_b and same_a:
                    return "elements reach this closure only through `.%s(%s)`: the subtraction cannot underflow" % (r["name"], fb.show(c))
        if r["name"] in ("map", "flat_map", "filter_map", "scan", "zip"):
            break          # the element changed shape: positions are no longer comparable
        r = r.get("recv")
    return None


_LEN_OWNERS = ("Vec", "[", "str", "String", "VecDeque", "&[", "&str")


def _len_plus_const(fn, span):
    """`xs.len() + <small literal>` with xs a Vec / slice / str / String: a length is at most isize::MAX, so the sum cannot overflow a usize."""
    if not span or fn.body is None:
        return None
    for node in fb.walk(fn.body):
        if node.get("k") == "binary" and node.get("op") == "+" and node.get("s") and node["s"][0] == span[0] and node["s"][1] == span[1]:
            for a, b in ((node["l"], node["r"]), (node["r"], node["l"])):
                if a.get("k") == "mcall" and a["name"] == "len" and not a.get("args") and b.get("k") == "lit":
                    rty = str((a.get("recv") or {}).get("ty") or "").replace("&mut ", "").replace("&", "").strip()
                    cal = fb.callee(a) or ""
                    v = str(b.get("v") or "")
                    num = v.split(":")[-1]
                    if (cal.endswith("::len") and (rty.startswith(("std::vec::Vec", "alloc::vec::Vec", "Vec<", "[", "str", "std::string::String", "alloc::string::String", "String")))
                            and num.isdigit() and int(num) <= 65536):
                        return "`%s`: a length is at most isize::MAX, the sum cannot overflow" % fb.show(node)[:60]
            return None
    return None


def _sub_guarded(fn, span):
    """`a - b` in the then-branch of `if b <= a` (or `a >= b`, `b < a`, `a > b`) with a and b places that are never assigned: cannot underflow."""
    if not span or fn.body is None:
        return None
    assigned = getattr(fn, "_assigned", None)
    if assigned is None:
        assigned = set()
        for node in fb.walk(fn.body):
            if node.get("k") in ("assign", "assignop"):
                l = node["l"]
                while isinstance(l, dict) and l.get("k") in ("field", "index", "unary"):
                    l = l.get("e")
                if isinstance(l, dict) and l.get("k") == "path" and l.get("res") == "local":
                    assigned.add(l["id"])
    for node, parents in fb.walk_with_parents(fn.body):
        if node.get("k") == "binary" and node.get("op") == "-" and node.get("s") and node["s"][0] == span[0] and node["s"][1] == span[1]:
            a, b = node["l"], node["r"]
            if not (_stable_place(a, assigned) and _stable_place(b, assigned)):
                return None
            sa, sb = fb.show(a), fb.show(b)
            child = node
            for pi_, p in enumerate(reversed(parents)):
                if p.get("k") == "if" and child is p.get("t"):
                    for c in _conjuncts(p["c"]):
                        if c.get("k") == "binary":
                            l, r, op = fb.show(c["l"]), fb.show(c["r"]), c.get("op")
                            if (op in ("<=", "<") and l == sb and r == sa) or (op in (">=", ">") and l == sa and r == sb):
                                return "then-branch of `if %s`: the subtraction cannot underflow" % fb.show(c)
                if p.get("k") == "closure":
                    # `..filter(|(_, &b)| b <= a)..map(|(i, &b)| a - b)`: only elements that passed the filter reach the closure
                    idx = len(parents) - 1 - pi_
                    host = parents[idx - 1] if idx > 0 else None
                    g = _filter_guard(p, host, a, b)
                    if g:
                        return g
                    break
                child = p
            return None
    return None


class Site:
    __slots__ = ("fn", "kind", "origin", "ordinal", "loc", "detail", "auto", "body_def", "alt")

    def __init__(self, fn, kind, origin, loc, detail, auto=None, body_def=None):
        self.alt = None
        self.fn = fn
        self.kind = kind
        self.origin = origin
        self.ordinal = 0
        self.loc = loc
        self.detail = detail
        self.auto = auto
        self.body_def = body_def or fn

    @property
    def key(self):
        return "%s|%s|%s|%d" % (self.fn, self.kind, self.origin, self.ordinal)


def _macro_panic_kind(m):
    if not m:
        return None
    for name in m.split(">"):
        if name in ("panic", "unreachable", "todo", "unimplemented", "assert", "assert_eq", "assert_ne", "debug_assert",
                    "debug_assert_eq", "debug_assert_ne"):
            return name
    return None


def sites_of(facts, fn):
    """All panic sites of one outermost fn (its closures included)."""
    out = []
    if fn.body is None:
        return out
    expect_closures = set()
    # ---- HIR sites
    for node, parents in fb.walk_with_parents(fn.body):
        k = node.get("k")
        if node.get("m") and _macro_panic_kind(node.get("m")) and k not in ("mcall",):
            # constructs inside panic!/assert! expansions are accounted for by the MIR scan
            continue
        if k == "mcall":
            c = fb.callee(node)
            if c in UNWRAPS:
                if node.get("m") and _macro_panic_kind(node.get("m")):
                    continue
                if node.get("m") and any(t in node["m"] for t in ("instrument", "valueset", "fieldset", "callsite", "tracing")):
                    continue     # generated by #[tracing::instrument], not repo logic
                auto = guarded_by_presence_test(node, list(parents))
                st_ = Site(fn.def_, UNWRAPS[c], _origin(node["recv"]), "%s:%s" % (fn.file, node.get("ln")), fb.show(node)[:200], auto)
                # the same site described without looking through a thin local accessor (`get_node_id`): either description may be the audited one
                r_ = node["recv"]
                while r_ is not None and r_.get("k") == "mcall" and r_.get("name") in _TRANSPARENT_CALLS and not r_.get("args"):
                    r_ = r_.get("recv")
                if r_ is not None and r_.get("k") in ("mcall", "call") and _thin_accessor(r_) is not None:
                    st_.alt = "call:" + fb.last2(fb.callee(r_) or r_.get("name") or "?")
                # "the first element": `v.first()` (+ cloned) and `v.into_iter().next()` / `v.iter().next()` are the same site
                if r_ is not None and r_.get("k") == "mcall" and st_.alt is None:
                    if r_["name"] == "next" and (r_.get("recv") or {}).get("k") == "mcall" and r_["recv"]["name"] in ("into_iter", "iter"):
                        st_.alt = "call:slice::first"
                    elif r_["name"] == "first":
                        st_.alt = "call:Iterator::next"
                out.append((node["s"][0], st_))
            elif c in _UNWRAP_OR_ELSE and node.get("args") and node["args"][0].get("k") == "closure" and \
                    any(_macro_panic_kind(y.get("m")) for y in fb.walk(node["args"][0]["body"])) and _is_diverging_block(_last_expr(node["args"][0]["body"])):
                # `.unwrap_or_else(|| panic!(msg))` is `.expect(msg)` spelled out: one site, keyed like the expect
                expect_closures.add(fb.norm(node["args"][0].get("def") or ""))
                auto = guarded_by_presence_test(node, list(parents))
                out.append((node["s"][0], Site(fn.def_, "expect", _origin(node["recv"]), "%s:%s" % (fn.file, node.get("ln")), fb.show(node)[:200], auto)))
            elif c in PANICKING_STD:
                auto = None
                if fb.last_seg(c) in ("windows", "chunks", "step_by") and _lit_int(node["args"][0] if node.get("args") else None, 1) is not None:
                    auto = "`%s` with a non-zero literal size cannot panic" % fb.last_seg(c)
                out.append((node["s"][0], Site(fn.def_, "std-panicking-call", "call:" + fb.last2(c), "%s:%s" % (fn.file, node.get("ln")),
                                               fb.show(node)[:200], auto)))
        elif k == "index":
            out.append((node["s"][0], Site(fn.def_, "index", "%s[%s]" % (_origin(node["e"]), _origin(node["i"])),
                                           "%s:%s" % (fn.file, node.get("ln")), fb.show(node)[:200], _window_index(node, list(parents)))))
    # ---- MIR sites (explicit panics and arithmetic asserts), fn + closures
    bodies = [fn] + facts.closures_of.get(fn.def_, [])
    for h in getattr(fn, "absorbed_fns", None) or []:      # helpers analysed inlined into this fn (vlib/inline.py)
        hf = facts.fns.get(h)
        if hf is not None:
            bodies += [hf] + facts.closures_of.get(h, [])
    for b in bodies:
        if not b.mir:
            continue
        for blk in b.mir["blocks"]:
            if blk.get("cleanup"):
                continue
            t = blk["term"]
            if t["k"] == "call":
                f = fb.norm(t.get("f") or "")
                if f.startswith(PANIC_FNS_PREFIX):
                    if b.def_ in expect_closures:
                        continue      # accounted for as the `expect` site above
                    mk = _macro_panic_kind(t.get("m")) or "panic"
                    out.append((t["s"][0], Site(fn.def_, "explicit-" + mk, fb.last2(f), "%s:%s" % (fn.file, t.get("ln")),
                                                "%s! (%s)" % (mk, f), None, b.def_)))
            elif t["k"] == "assert":
                msg = t.get("msg", "")
                if msg == "bounds":
                    continue     # reported through the HIR index site
                if msg.startswith("overflow") or msg in ("div0", "rem0"):
                    if t.get("m") and "desugar:ForLoop" in t.get("m"):
                        continue
                    # operands of the checked operation (same block): skip constant folding artefacts (enum casts)
                    cl = (t.get("c") or "").split(" ")[-1].split(".")[0]
                    ops, ty = None, "?"
                    for st in blk["stmts"]:
                        if st["l"] == cl and st["rv"].get("k") == "binop":
                            ops = st["rv"].get("ops", [])
                            try:
                                ty = b.mir["locals"][int(cl[1:])].strip("()").split(",")[0]
                            except (ValueError, IndexError):
                                ty = "?"
                    if ops is not None and all(o.startswith("const") for o in ops):
                        continue
                    shape = ",".join("const" if o.startswith("const") else "var" for o in (ops or []))
                    origin = "%s<%s>(%s)" % (msg, ty, shape)
                    auto = _sub_guarded(fn, t.get("s")) if msg.startswith("overflow:Sub") or msg.startswith("overflow(Sub") or "Sub" in msg else None
                    if auto is None and "Add" in msg:
                        auto = _len_plus_const(fn, t.get("s"))
                    out.append((t["s"][0], Site(fn.def_, "arith", origin, "%s:%s" % (fn.file, t.get("ln")),
                                                "arithmetic assert %s on %s" % (msg, ty), auto, b.def_)))
    out.sort(key=lambda x: x[0])
    counts = {}
    res = []
    for _, s in out:
        base = (s.fn, s.kind, s.origin)
        s.ordinal = counts.get(base, 0)
        counts[base] = s.ordinal + 1
        res.append(s)
    return res


_TABLE = None


def table():
    global _TABLE
    if _TABLE is None:
        p = os.path.join(VERIF, "tables", "panics.json")
        if os.path.exists(p):
            with open(p) as fh:
                _TABLE = json.load(fh)
        else:
            _TABLE = {}
    return _TABLE


_SEQ_INDEX = {}


def _seq_norm(key):
    return re.sub(r"<(std::vec::Vec|alloc::vec::Vec|\[[^\]]*\]|&\[[^\]]*\])>", "<seq>", key)


def lookup(facts, tab, s):
    """Audited entry of a site: under its own key, under its alternative description (thin accessor not looked through), or under the key it had in
    a recorded helper that has since been inlined into this fn and deleted."""
    ent = tab.get(s.key)
    if ent is None and s.alt:
        for o_ in range(0, 4):
            ent = tab.get("%s|%s|%s|%d" % (s.fn, s.kind, s.alt, o_))
            if ent is not None:
                break
    if ent is None and s.kind == "index":
        # `&Vec<T>` -> `&[T]` in a private signature changes the container's type name, not the access: same site
        nk = _seq_norm(s.key)
        idx = _SEQ_INDEX.get(id(tab))
        if idx is None:
            idx = {}
            for k_, v_ in tab.items():
                if "|index|" in k_:
                    idx.setdefault(_seq_norm(k_), v_)
            _SEQ_INDEX[id(tab)] = idx
        ent = idx.get(nk)
    if ent is None:
        for m_ in (getattr(facts, "moved_into", None) or {}).get(s.fn, []):
            for o_ in range(0, 4):
                for org in [s.origin] + ([s.alt] if s.alt else []):
                    ent = tab.get("%s|%s|%s|%d" % (m_, s.kind, org, o_))
                    if ent is not None:
                        break
                if ent is not None:
                    break
            if ent is not None:
                break
    return ent


def inventory(facts, rep, rule, roots, floor=None, exclude=(), prop=None):
    """Evaluate the inventory rule for `roots`; record instances on `rep`. Returns list of Sites."""
    global _FACTS
    _FACTS = facts
    cg = facts.callgraph
    reach = cg.reachable_from(roots)
    tab = table()
    fns = [f for f in facts.fn_list if f.kind != "closure" and f.body is not None and f.def_ in reach and not f.absorbed]
    all_sites = []
    for f in sorted(fns, key=lambda x: x.def_):
        if any(f.def_.startswith(x) for x in exclude):
            continue
        rep.saw_fn(f)
        for s in sites_of(facts, f):
            # closure-local MIR sites: only if that closure (or the fn) is reachable - closures are reachable via fn
            all_sites.append(s)
            if s.auto:
                rep.ok(rule, s.key, "discharged by local guard: " + s.auto, s.loc)
                continue
            ent = lookup(facts, tab, s)
            if ent is not None and prop and prop in ent.get("props", {}):
                ent = ent["props"][prop]
            if ent is None:
                path = cg.path_to(roots, s.fn) or [s.fn]
                rep.violation(rule, s.key, "new panic site `%s` reachable via %s; not discharged by a local guard and not in tables/panics.json"
                              % (s.detail, " -> ".join(fb.last2(p) for p in path)), s.loc)
            elif ent["class"] == "finding":
                path = cg.path_to(roots, s.fn) or [s.fn]
                rep.violation(rule, s.key, "%s `%s`: %s (call path %s)" % (s.kind, s.detail, ent["reason"], " -> ".join(fb.last2(p) for p in path)), s.loc)
            else:
                from . import conditions
                failed = []
                prem = conditions.premises_for(ent["reason"])
                for pm in prem:
                    for why in conditions.evaluate(facts, pm):
                        failed.append((pm, why))
                if failed:
                    pm, why = failed[0]
                    rep.violation(rule, s.key + "|premise:" + pm, "the audited entry for `%s` (%s: %s) rests on %s, which no longer holds — %s" % (
                        s.detail[:60], ent["class"], ent["reason"][:120], pm, why), s.loc)
                else:
                    rep.ok(rule, s.key, "%s: %s%s" % (ent["class"], ent["reason"], (" [premises re-checked: %s]" % ", ".join(prem)) if prem else ""), s.loc)
    if floor is not None:
        rep.floor(rule, "reachable panic sites", len(all_sites), floor)
    return all_sites
