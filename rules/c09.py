"""C09 - extract / inline refactorings move content without losing or duplicating it (thin structural clauses).

Decides: created notes get a key from random_key(<source key>.parent()), whose accepting branch tests freshness of the very
candidate it returns; the tree surgery has the remove-one / insert-one shape (the extracted subtree is filtered out by id and
exactly one Reference to the new key, titled with the extracted node's text, is inserted; the inlined reference is removed and
exactly the referenced note's tree is inserted; the Remove names the same key that was inlined); every produced text is
rendered relative to the directory of the note it is stored under (= C15-R1).  Does NOT decide conservation of text nor the
extract-then-inline round trip at the Markdown level.
"""
import re

from vlib import factbase as fb
from vlib import q
from . import arms as A
from . import c15
from .common import ctx, loc, chain_up, pname, value_leaves

LOSSY = {"filter", "filter_map", "skip", "take", "step_by", "take_while", "skip_while", "nth", "last", "find", "find_map", "dedup", "truncate", "rev", "pop", "remove"}


def _struct_lits(e, suffix):
    return [x for x in fb.walk(e) if x.get("k") == "struct" and fb.norm(x.get("def", "")).endswith(suffix)]


def _field(s, name):
    for fl in s["fields"]:
        if fl["name"] == name:
            return fl["e"]
    return None


def _base(e):
    return c15._base_local(e)


def rule_r1(facts, rep, rid="C09-R1"):
    rep.rule(rid, "fresh names only: every Change::Create{key} (and the Update of the created note) uses a key produced by ActionContext::random_key(&<source key>.parent()); "
                  "Graph::random_key's random branch returns only on the !keys.contains_key(candidate) edge, the returned key being the tested candidate; the sequential "
                  "(predictable, untested) branch is enabled only by the test fixture's ServerParams.state")
    n = 0
    for f in facts.body_fns():
        if f.crate != "iwes" or f.kind == "closure" or "::tests::" in f.def_ or "::action::" not in f.def_:
            continue        # C09 is about the refactoring actions (the `generate` command takes its key from the client)
        creates = _struct_lits(f.body, "action::Create")
        if not creates:
            continue
        rep.saw_fn(f)
        c = ctx(f)
        src_keys = set()
        for x in fb.walk(f.body):
            if x.get("k") == "let" and x.get("init") is not None and x["init"].get("k") == "mcall" and x["init"]["name"] == "key_of":
                for nme, lid in fb.pat_bindings(x["pat"]):
                    src_keys.add(lid)
        for i, cr in enumerate(creates):
            n += 1
            key = "%s|create:%d" % (f.def_, i)
            ke = _field(cr, "key")
            b = c15._resolve_local(c, _base(ke))
            init = None
            if b is not None:
                bd = c.binds.get(b[0])
                if bd and bd[0] == "expr":
                    init = bd[1]
            okk = False
            why = "key expression `%s`" % fb.show(ke)[:60]
            if init is not None and init.get("k") == "mcall" and init["name"] == "random_key":
                arg = init["args"][0] if init["args"] else None
                par = [y for y in fb.walk(arg) if y.get("k") == "mcall" and y["name"] == "parent"] if arg else []
                if par:
                    pb = c15._resolve_local(c, _base(par[0]["recv"]))
                    if pb is not None and pb[0] in src_keys:
                        okk = True
                    else:
                        why = "random_key is asked for the directory of `%s`, not of the source note" % (pb[1] if pb else fb.show(par[0]["recv"]))
                else:
                    why = "random_key's directory argument is `%s`, not <source key>.parent()" % (fb.show(arg) if arg else "?")
            if okk:
                rep.ok(rid, key, "Create{key} <- random_key(&key.parent())", loc(f, cr))
            else:
                rep.violation(rid, key, "a note is created under a key that does not come from random_key(<source note's directory>): %s — it may overwrite an existing note or land in another directory" % why, loc(f, cr))
    rep.floor(rid, "Change::Create sites", n, 3)
    # Graph::random_key
    rk = facts.fn("GraphContext>::random_key")
    rep.saw_fn(rk)
    c = ctx(rk)
    loops = [x for x in fb.walk(rk.body) if x.get("k") == "loop"]
    key = rk.def_ + "|fresh-candidate"
    okf = False
    if loops:
        for iff in [x for x in fb.walk(loops[0]) if x.get("k") == "if"]:
            cond = iff["c"]
            neg = cond.get("k") == "unary" and cond.get("op") == "!"
            ck = [y for y in fb.walk(cond) if y.get("k") == "mcall" and y["name"] == "contains_key"]
            rets = [y for y in fb.walk(iff["t"]) if y.get("k") == "ret"]
            if neg and ck and rets:
                tested = fb.show_canon(rk, ck[0]["args"][0]).lstrip("&")
                returned = fb.show_canon(rk, rets[0]["e"]).lstrip("&")
                if tested == returned:
                    okf = True
                else:
                    rep.violation(rid, key, "random_key tests `%s` for freshness but returns `%s`" % (tested, returned), loc(rk, iff))
                    return
    # the retry loop makes progress only if every iteration draws a NEW candidate: no branch inside the loop may produce a candidate without the random source
    if loops:
        key_p = rk.def_ + "|retry-loop-draws-fresh-candidate"
        rnd = [y for y in fb.walk(loops[0]) if y.get("k") in ("call", "mcall") and re.search(r"sample_string|thread_rng|::random|gen_range|Uuid::new_v4|OsRng", (fb.callee(y) or "") + " " + (y.get("name") or ""))]
        cond_r = []
        for y in rnd:
            for p_ in c.parents(y):
                if p_ is loops[0]:
                    break
                if p_.get("k") in ("if", "match") and p_.get("src", "Normal") == "Normal":
                    cond_r.append(p_)
        if not rnd:
            rep.violation(rid, key_p, "the retry loop of random_key draws no random value: the same candidate is tested again and again (the request thread spins forever holding the read lock "
                          "once that name is taken)", rk.loc)
        elif cond_r:
            rep.violation(rid, key_p, "inside the retry loop of random_key the candidate comes from the random source only on one branch of `%s`: on the other branch every iteration tests the same "
                          "name, so the loop never ends once that name exists (the request is never answered and the next edit blocks on the lock)" % fb.show(cond_r[0].get("c") or cond_r[0].get("e"))[:60], loc(rk, cond_r[0]))
        else:
            rep.ok(rid, key_p, "every iteration draws a fresh random candidate", loc(rk, rnd[0]))
    if okf:
        rep.ok(rid, key, "loop { if !keys.contains_key(candidate) { return candidate } }", rk.loc)
    else:
        rep.violation(rid, key, "Graph::random_key no longer returns only on the !keys.contains_key(candidate) edge of its retry loop: an existing note's name can be handed out", rk.loc)
    # sequential (predictable, not freshness-tested) keys: only the in-memory test configuration may switch them on
    ssk = facts.fn("Graph::set_sequential_keys")
    callers = sorted(facts.callgraph.callers_of(ssk.def_))
    key = ssk.def_ + "|who-may-call"
    if callers == ["liwe::database::Database::new"]:
        rep.ok(rid, key, "only Database::new(state, sequential_ids, ..)", ssk.loc)
    else:
        rep.violation(rid, key, "Graph::set_sequential_keys is called from %s (audited: only Database::new forwards its flag)" % callers, ssk.loc)
    n_cfg = 0
    for f in facts.body_fns():
        if f.crate not in ("iwes", "iwe") or f.kind == "closure" or "::tests::" in f.def_:
            continue
        c = None
        for lit in [x for x in fb.walk(f.body) if x.get("k") == "struct" and fb.norm(x.get("def", "")).endswith(("router::ServerConfig", "iwes::ServerParams"))]:
            c = c or ctx(f)
            which = fb.last_seg(fb.norm(lit["def"]))
            se = _field(lit, "sequential_ids")
            n_cfg += 1
            key = "%s|%s-literal|%d" % (f.def_, which, sum(1 for y in fb.walk(f.body) if y.get("k") == "struct" and y.get("def") == lit.get("def") and (y.get("s") or [0])[0] < (lit.get("s") or [0])[0]))
            # the value(s) the field can take, through locals / branches / destructured tuples (`let (state, sequential_ids) = match params.state {..}`)
            leaves = value_leaves(c, se) if se is not None else [None]
            n_cfg += len(leaves) - 1
            val = " | ".join(sorted(set(fb.show(l) if l is not None else "(default)" for l in leaves)))

            def _off(l):
                v = fb.show(l) if l is not None else ""
                return l is None or v.endswith("None") or v.replace(" ", "").endswith("Some(false)")
            off = all(_off(l) for l in leaves)
            if which == "ServerParams":
                st = _field(lit, "state")
                st_off = st is None or fb.show(st).endswith("None")
                if off and st_off:
                    rep.ok(rid, key, "production ServerParams: state and sequential_ids left at their defaults (None)", loc(f, lit))
                else:
                    rep.violation(rid, key, "the server binary starts with state=%s / sequential_ids=%s: extracted notes would get predictable, untested names" % (fb.show(st) if st is not None else "default", val), loc(f, lit))
                continue
            if off:
                rep.ok(rid, key, "sequential_ids = %s" % val, loc(f, lit))
                continue

            def _on_state_edge(l):
                child = l
                for p in c.parents(l):
                    if p.get("k") == "if" and p["c"].get("k") == "letx" and child is p.get("t") and "state" in fb.show(p["c"].get("init")) and _is_some(p["c"].get("pat")):
                        return True
                    if p.get("k") == "match" and "state" in fb.show(p["e"]):
                        for arm in p["arms"]:
                            if arm.get("body") is child and _is_some(arm["pat"]):
                                return True
                    child = p
                return False
            if all(_off(l) or _on_state_edge(l) for l in leaves):
                rep.ok(rid, key, "sequential_ids = %s: switched on only on the `Some(state) = params.state` edge (in-memory test configuration)" % val, loc(f, lit))
            else:
                rep.violation(rid, key, "sequential keys are switched on (%s) outside the in-memory test configuration: Graph::random_key then returns keys().len()+1 without a freshness test, "
                              "so an extraction can overwrite an existing note" % val, loc(f, lit))
    rep.floor(rid, "ServerConfig / ServerParams literals (values of sequential_ids)", n_cfg, 3)
    db = [x for f in facts.body_fns() if f.crate == "iwes" and "::tests::" not in f.def_ for x in fb.walk(f.body) if x.get("k") == "call" and (fb.callee(x) or "").endswith("Database::new")]
    key = "Database::new|sequential-flag-from-config"
    if len(db) == 1 and "sequential_ids" in fb.show(db[0]["args"][1]) and "true" not in fb.show(db[0]["args"][1]):
        rep.ok(rid, key, "Database::new(.., config.sequential_ids.unwrap_or(false), ..)")
    else:
        rep.violation(rid, key, "Database::new is not given config.sequential_ids (defaulting to false) as its sequential flag: %s" % [fb.show(x["args"][1]) for x in db])


def _is_some(p):
    while isinstance(p, dict) and p.get("k") == "p_ref":
        p = p.get("pat")
    return isinstance(p, dict) and p.get("k") == "p_tstruct" and fb.last_seg(fb.norm(p.get("def") or "")) == "Some"


def _cs(fn, e, maxdepth=80):
    """canonical (rename-independent) rendering without blanks"""
    return fb.show_canon(fn, e, maxdepth=maxdepth).replace(" ", "")


def rule_r2(facts, rep, rid="C09-R2"):
    rep.rule(rid, "remove-one / insert-one: SectionExtract::extract_rec filters out exactly the child with the extracted id and inserts exactly one Reference{key: new key, "
                  "text: plain text of the extracted node} on the parent edge and maps children recursively (no filter) on the other; Tree::extract_sections replaces a node iff "
                  "its id is in the map; inline-section removes the reference node and inserts the referenced note's tree; inline-quote replaces the reference by a quote of the "
                  "referenced note's children; the removed key is the inlined key.  (Shapes are compared on a rename-independent rendering: parameters by position, closure "
                  "parameters by nesting depth, simple `let` locals inlined.)")
    f = facts.fn("SectionExtract::extract_rec")     # (tree = P0, extract_id = P1, parent_id = P2, new_key = P3)
    rep.saw_fn(f)
    c = ctx(f)
    iffs = [x for x in fb.walk(f.body, into_closures=False) if x.get("k") == "if"]
    key = f.def_ + "|parent-edge"
    iff = None
    for x in iffs:
        if _cs(f, x["c"]) == "P0.id_eq(P2)":
            iff = x
    if iff is None:
        rep.violation(rid, key, "extract_rec has no `if tree.id_eq(parent_id)` edge (conditions: %s)" % [_cs(f, x["c"])[:40] for x in iffs], f.loc)
    else:
        t = iff["t"]
        filt = [x for x in fb.walk(t) if x.get("k") == "mcall" and x["name"] == "filter"]
        okf = len(filt) == 1 and re.match(r"^\|c\d\|!c\d\.id_eq\(P1\)$", _cs(f, filt[0]["args"][0])) is not None
        ins = [x for x in fb.walk(t) if x.get("k") == "mcall" and x["name"] in ("insert", "push", "extend", "append") and (fb.callee(x) or "").startswith(("std::vec::Vec::", "alloc::vec::Vec::"))]
        refs = _struct_lits(t, "node::Reference")
        probs = []
        if not okf:
            probs.append("children are not filtered by exactly `!child.id_eq(extract_id)` (%s)" % [fb.show(x["args"][0])[:50] for x in filt])
        if len(ins) != 1:
            probs.append("%d insertions into children (expected exactly one reference)" % len(ins))
        if len(refs) != 1:
            probs.append("%d Reference literals" % len(refs))
        else:
            r = refs[0]
            kc = _cs(f, _field(r, "key"))
            tc = _cs(f, _field(r, "text"))
            if kc not in ("P3.clone()", "P3", "(*P3).clone()"):
                probs.append("the inserted reference's key is `%s`, not the new key" % fb.show(_field(r, "key")))
            if not ("plain_text()" in tc and "P0.find(P1)" in tc):
                probs.append("the inserted reference's text is not the plain text of the extracted node (`%s`)" % fb.show(_field(r, "text"))[:70])
        other = [x["name"] for x in fb.walk(t) if x.get("k") == "mcall" and x["name"] in (LOSSY - {"filter", "find"})]
        if other:
            probs.append("lossy adapters %s" % other)
        if probs:
            rep.violation(rid, key, "; ".join(probs) + " — the extracted section is lost, duplicated, or replaced by a wrong reference", loc(f, iff))
        else:
            rep.ok(rid, key, "children.filter(!id_eq(extract_id)) + insert(pre_sub_header_position, Reference{new_key, plain_text(extracted)})", loc(f, iff))
        if ins:
            pos = _cs(f, ins[0]["args"][0]) if ins[0]["name"] == "insert" else ""
            k2 = f.def_ + "|insert-position"
            if ins[0]["name"] == "insert" and pos == "P0.pre_sub_header_position()":
                rep.ok(rid, k2, "inserted before the first sub-section", loc(f, ins[0]))
            else:
                rep.violation(rid, k2, "the reference is inserted at `%s`, not at tree.pre_sub_header_position(): it would land under a sub-section" % pos, loc(f, ins[0]))
    key = f.def_ + "|other-edge"
    rec_ok = False
    for x in fb.walk(f.body):
        # `.map(rec).flatten()` and `.flat_map(rec)` are the same traversal
        if x.get("k") == "mcall" and x["name"] in ("map", "flat_map") and any(y.get("k") == "call" and (fb.callee(y) or "").endswith("SectionExtract::extract_rec") for y in fb.walk(x)):
            names = []
            r = x
            ups = [m["name"] for m in chain_up(c, x)]
            while r.get("k") == "mcall":
                names.append(r["name"])
                r = r["recv"]
            bad = set(names + ups) & LOSSY
            args_ok = any(y.get("k") == "call" and (fb.callee(y) or "").endswith("SectionExtract::extract_rec") and [_cs(f, a) for a in y["args"][1:]] == ["P1", "P2", "P3"] for y in fb.walk(x))
            rec_ok = not bad and args_ok and _cs(f, r) == "P0.children"
    if rec_ok:
        rep.ok(rid, key, "children.iter().map(extract_rec(child, same ids)).flatten().collect()", f.loc)
    else:
        rep.violation(rid, key, "on the non-parent edge extract_rec does not map all children recursively (same arguments) without filtering", f.loc)
    # extract_sections   (self, keys = P1)
    g = facts.fn("Tree::extract_sections")
    rep.saw_fn(g)
    key = g.def_ + "|replace-iff-in-map"
    cg_ = ctx(g)
    refs = _struct_lits(g.body, "node::Reference")
    from .common import maps_every_child
    rec = maps_every_child(cg_, g.body, "Tree::extract_sections")
    # the recursion passes the same map on
    rec_args_ok = all(any(y.get("k") in ("call", "mcall") and (fb.callee(y) or "").endswith("Tree::extract_sections") and
                          [_cs(g, a).replace(".clone()", "") for a in y["args"]] == ["P1"] for y in fb.walk(x)) for x in rec)
    if len(refs) == 1 and len(rec) == 1 and rec_args_ok:
        r = refs[0]
        pk, pt = cg_.vprov(_field(r, "key")), cg_.vprov(_field(r, "text"))

        def from_entry(pv, idx):
            return q.has_call(pv, "HashMap::get") and any(a[0] == "patpos" and a[1].endswith("tuple.%d" % idx) for a in pv) and ("param", pname(g, 1)) in pv
        # the entry is looked up under this node's own id
        gets = [x for x in fb.walk(g.body) if x.get("k") == "mcall" and (fb.callee(x) or "").endswith("HashMap::get")]
        own_id = bool(gets) and all(("field", "id") in cg_.mentions(x["args"][0]) for x in gets)
        # the recursion is the answer exactly when there is no entry: it sits on the None / unwrap_or_else / else edge of the lookup
        # ... and under no other condition: every test on the way to the recursion (crossing `unwrap_or_else(|| ..)` closures, including
        # early exits in front of it) is about the map lookup
        from .common import facts_at, controlling_tests
        extra = []
        cur = rec[0]
        for _hop in range(4):
            tests = [e for e, _pol in facts_at(cg_, cur)] + [e for e, _pol in controlling_tests(cg_, cur) if e is not None]
            for e in tests:
                m_ = cg_.mentions(e) | cg_.vprov(e)
                if not (q.has_call(m_, "HashMap::get") or q.has_call(m_, "HashMap::contains_key")):
                    extra.append(fb.show(e)[:50])
            clo = next((p for p in cg_.parents(cur) if p.get("k") == "closure"), None)
            if clo is None:
                break
            cur = clo
        if extra:
            rep.violation(rid, key, "on the edge without a map entry the children are walked only under `%s`: sections below the nodes for which it fails are not extracted "
                          "(or their subtree is dropped)" % extra[0], loc(g, rec[0]))
        elif from_entry(pk, 0) and from_entry(pt, 1) and own_id:
            rep.ok(rid, key, "id in map -> Reference{key, text} from that id's map entry; else every child recursively", g.loc)
        else:
            rep.violation(rid, key, "the replacing reference is not built from the (key, text) entry stored under this node's id (key from %s, text from %s)" % (
                sorted(a[1] for a in pk if a[0] == "patpos"), sorted(a[1] for a in pt if a[0] == "patpos")), g.loc)
    else:
        rep.violation(rid, key, "Tree::extract_sections no longer replaces a node that has a map entry by one Reference and otherwise maps every child recursively with the same map "
                      "(%d Reference literal(s), %d recursion site(s))" % (len(refs), len(rec)), g.loc)
    # SubSectionsExtract
    h = facts.fn("SubSectionsExtract as iwes::router::server::action::ActionProvider>::changes")
    rep.saw_fn(h)
    ch = ctx(h)
    loops = [x for x in fb.walk(h.body) if x.get("k") == "loop"]
    key = h.def_ + "|per-section-loop"
    map_ids = set()
    if not loops:
        rep.violation(rid, key, "no loop over the sub-sections", h.loc)
    else:
        l = loops[0]
        names = [x["name"] for x in fb.walk(l) if x.get("k") == "mcall"]
        creates = _struct_lits(l, "action::Create")
        updates = _struct_lits(l, "action::Update")
        skips = [x for x in fb.walk(l) if x.get("k") == "continue"] + [x for x in fb.walk(l) if x.get("k") == "if" and x["c"].get("k") != "letx"]
        for x in fb.walk(l):
            if x.get("k") == "mcall" and x["name"] == "insert" and (fb.callee(x) or "").endswith("HashMap::insert"):
                b = _base(x["recv"])
                if b:
                    map_ids.add(b[0])
        if "random_key" in names and map_ids and len(creates) == 1 and len(updates) == 1 and not skips:
            rep.ok(rid, key, "each sub-section: random_key, map entry, Create, Update — unconditionally", loc(h, l))
        else:
            rep.violation(rid, key, "the per-sub-section loop no longer creates one note, one map entry and one update for every sub-section unconditionally "
                          "(creates=%d updates=%d conditions=%d)" % (len(creates), len(updates), len(skips)), loc(h, l))
    # what the loop iterates over
    key = h.def_ + "|selects-all-section-children"
    fors = [x for x in fb.walk(h.body) if x.get("k") == "match" and x.get("src") == "ForLoopDesugar"]
    if fors:
        t = _cs(h, fors[0]["e"])
        if re.search(r"\.children\.iter\(\)\.filter\(\|c\d\|c\d\.is_section\(\)\)\.map\(\|c\d\|c\d\.id\.unwrap\(\)\)", t) and not any(m in t for m in (".skip(", ".take(", ".rev(", ".step_by(")):
            rep.ok(rid, key, "children.filter(is_section).map(id)", loc(h, fors[0]))
        else:
            rep.violation(rid, key, "sub-sections are selected by `%s`" % t[:120], loc(h, fors[0]))
    else:
        rep.violation(rid, key, "no for-loop over the sub-sections", h.loc)
    key = h.def_ + "|source-update-uses-map"
    es = [x for x in fb.walk(h.body) if x.get("k") == "mcall" and x["name"] == "extract_sections"]
    okm = False
    if es:
        b = _base(es[0]["args"][0])
        okm = b is not None and b[0] in map_ids and es[0]["recv"].get("k") == "mcall" and es[0]["recv"]["name"] == "collect"
    if okm:
        rep.ok(rid, key, "collect(key).extract_sections(<the map filled in the loop>)", loc(h, es[0]))
    else:
        rep.violation(rid, key, "the source note is not rewritten with collect(key).extract_sections(<the map filled in the loop>)", h.loc)

    # inline section / quote     (self, target_id = P1, context = P2)
    for nm, shape in (("ReferenceInlineSection", "section"), ("ReferenceInlineQuote", "quote")):
        f = facts.fn("%s as iwes::router::server::action::ActionProvider>::changes" % nm)
        rep.saw_fn(f)
        c = ctx(f)
        rem = _struct_lits(f.body, "action::Remove")
        # how the canonical rendering names the target and the section: `Some(target_id).filter(..).and_then(|target_id| ..)` rebinds the target as the outermost closure
        # parameter (c0, the section id is c1); an early `return None` keeps the parameter (P1, the section id is c0)
        TGT = "c0" if "Some(P1)" in _cs(f, f.body) else "P1"
        SEC = "c1" if TGT == "c0" else "c0"
        # the inlined key = argument of the `collect` whose tree is inserted
        key = f.def_ + "|removed-key-is-inlined-key"
        inl_c = None
        if shape == "section":
            aph = [x for x in fb.walk(f.body) if x.get("k") == "mcall" and x["name"] == "append_pre_header"]
            if aph and len(aph[0]["args"]) > 1:
                m_ = re.match(r"^P2\.collect\(&(.*)\)$", _cs(f, aph[0]["args"][1]))
                inl_c = m_.group(1) if m_ else None
        else:
            for s_ in _struct_lits(f.body, "tree::Tree"):
                if "Quote" in fb.show(_field(s_, "node")):
                    m_ = re.match(r"^P2\.collect\(&(.*)\)\.children(\.clone\(\))?$", _cs(f, _field(s_, "children")))
                    inl_c = m_.group(1) if m_ else None
        if len(rem) == 1 and inl_c:
            a = _cs(f, _field(rem[0], "key"))
            a = a[:-8] if a.endswith(".clone()") else a
            if a == inl_c and ("reference_key(%s)" % TGT) in a:
                rep.ok(rid, key, "Remove{key} and the inlined content use the same reference_key(target)", loc(f, rem[0]))
            else:
                rep.violation(rid, key, "the deleted note (`%s`) is not the note whose content was inlined (`%s`): content is deleted without being inlined" % (a[:70], inl_c[:70]), loc(f, rem[0]))
        else:
            rep.violation(rid, key, "expected exactly one Remove and an inlined collect(<reference key>) (found %d removes, inlined key %s)" % (len(rem), inl_c), f.loc)
        key = f.def_ + "|surgery"
        if shape == "section":
            ok1 = False
            for x in [y for y in fb.walk(f.body) if y.get("k") == "mcall" and y["name"] == "append_pre_header"]:
                r = x["recv"]
                if (r.get("k") == "mcall" and r["name"] == "remove_node" and _cs(f, r["args"][0]) == TGT and r["recv"].get("k") == "mcall" and r["recv"]["name"] == "collect"
                        and _cs(f, r["recv"]["args"][0]) == "&P2.key_of(P1)" and _cs(f, x["args"][0]) == SEC):
                    sel = [p_ for p_ in c.parents(x) if p_.get("k") == "mcall" and p_["name"] == "map"]
                    if sel and sel[0]["recv"].get("k") == "mcall" and sel[0]["recv"]["name"] == "get_surrounding_section_id" and _cs(f, sel[0]["recv"]["args"][0]) == TGT:
                        ok1 = True
            if ok1:
                rep.ok(rid, key, "collect(key).remove_node(target).append_pre_header(<surrounding section of target>, collect(inline_key))", f.loc)
            else:
                rep.violation(rid, key, "inline-section is no longer collect(key).remove_node(target) followed by append_pre_header(<section surrounding the target>, collect(inline_key))", f.loc)
        else:
            okq = False
            qc = None
            for s_ in _struct_lits(f.body, "tree::Tree"):
                if "Quote" in fb.show(_field(s_, "node")) and re.match(r"^P2\.collect\(&.*\)\.children(\.clone\(\))?$", _cs(f, _field(s_, "children"))):
                    okq = True
                    qc = _cs(f, s_)
            ok2 = any(x.get("k") == "mcall" and x["name"] == "replace" and (fb.callee(x) or "").endswith("Tree::replace") and _cs(f, x["args"][0]) == TGT
                      and _cs(f, x["args"][1]) == "&" + (qc or "?") and x["recv"].get("k") == "mcall" and x["recv"]["name"] == "collect" and _cs(f, x["recv"]["args"][0]) == "&P2.key_of(P1)"
                      for x in fb.walk(f.body))
            if okq and ok2:
                rep.ok(rid, key, "collect(key).replace(reference, Quote{children: collect(inline_key).children})", f.loc)
            else:
                rep.violation(rid, key, "inline-quote is no longer collect(key).replace(reference, Quote{children of the referenced note})", f.loc)
    # Tree primitives used by the surgery
    rn = facts.fn("Tree::remove_node")
    rep.saw_fn(rn)
    t = _cs(rn, rn.body)
    key = rn.def_ + "|filters-only-target"
    if re.search(r"\.filter\(\|c0\|!c0\.id_eq\(P1\)\)", t) and re.search(r"\.map\(\|c0\|c0\.remove_node\(P1\)\)", t) and len([x_ for x_ in fb.walk(rn.body) if x_.get("k") == "mcall" and x_["name"] == "filter"]) == 1:
        rep.ok(rid, key, "children.filter(!id_eq(target)).map(recursive)", rn.loc)
    else:
        rep.violation(rid, key, "Tree::remove_node does not remove exactly the node with the target id (it must filter `!child.id_eq(target)` and recurse into every remaining child)", rn.loc)
    ap = facts.fn("Tree::append_pre_header")
    rep.saw_fn(ap)
    ins = [x for x in fb.walk(ap.body) if x.get("k") == "mcall" and x["name"] == "insert"]
    key = ap.def_ + "|inserts-once-at-target"
    c = ctx(ap)
    okp = False
    if len(ins) == 1:
        guards = [p for p in c.parents(ins[0]) if p.get("k") == "if"]
        if guards and _cs(ap, guards[0]["c"]) == "self.id_eq(P1)" and _cs(ap, ins[0]["args"][0]) == "self.pre_sub_header_position()":
            okp = True
    t_ap = _cs(ap, ap.body)
    rec_all = re.search(r"\.map\(\|c0\|c0\.append_pre_header\(P1,P2(\.clone\(\))?\)\)", t_ap) is not None and not any(x_.get("k") == "mcall" and x_["name"] == "filter" for x_ in fb.walk(ap.body))
    if okp and not rec_all:
        rep.violation(rid, ap.def_ + "|recurses-into-every-child", "Tree::append_pre_header does not recurse into every child unconditionally (`children.map(|c| c.append_pre_header(target, new))`): "
                      "a target below a child that is skipped (a list item under a list, a block in a quote) is never reached, so the inlined content is inserted nowhere while the inlined note is deleted", ap.loc)
    elif okp:
        rep.ok(rid, ap.def_ + "|recurses-into-every-child", "children.into_iter().map(|c| c.append_pre_header(target, new)).collect()", ap.loc)
    if okp:
        rep.ok(rid, key, "if id_eq(target) { children.insert(pre_sub_header_position(), new) }", ap.loc)
    else:
        rep.violation(rid, key, "Tree::append_pre_header does not insert exactly once, under id_eq(target), before the first sub-section", ap.loc)
    rp = facts.fn("Tree::replace")
    rep.saw_fn(rp)
    t = _cs(rp, rp.body)
    key = rp.def_ + "|replaces-only-target"
    if re.match(r"^\{ifself\.id_eq\(P1\)\{P2\.clone\(\)\}else\{self\.map_children\(\|c0\|c0\.replace\(P1,P2\)\)\}\}$", t) or \
            re.match(r"^\{ifself\.id_eq\(P1\)\{returnP2\.clone\(\);?\};?self\.map_children\(\|c0\|c0\.replace\(P1,P2\)\)\}$", t):
        rep.ok(rid, key, "if id_eq(target) { new } else { map_children(recursive) }", rp.loc)
    else:
        rep.violation(rid, key, "Tree::replace is no longer `if id_eq(target) {new} else {map_children(recursive)}`", rp.loc)


def run(facts, rep, tier):
    rule_r1(facts, rep)
    rule_r2(facts, rep)
    rep.rule("C09-R4", "The action is offered (and resolved) for every provider: audited inventory of dropping adapters in handle_code_action / handle_code_action_resolve; the tree "
                       "primitives used by the surgery contain none beyond the id tests checked in C09-R2.")
    from .common import droppers_inventory
    droppers_inventory(facts, rep, "C09-R4", ["Server::handle_code_action", "Server::handle_code_action_resolve"], {
        ("Server::handle_code_action", "filter(|c0|P1.only_includes(&c0.action_kind()))"): "the client's `only` filter of the code-action request",
        ("Server::handle_code_action_resolve", "find(|c0|{c0.action_kind().eq(&P1.clone().kind.unwrap())})"): "selects the provider of the action being resolved",
    }, "code actions")
    # C09-R3 = C15-R1: every produced markdown is rendered relative to the directory of the note it is stored under
    rep.rule("C09-R3", "= C15-R1 restricted to the refactoring actions: each Change::Update{key: K, markdown: M} has M rendered with to_markdown(&K.parent(), ..)")
    sub = _Sub(rep, "C09-R3")
    c15.rule_r1(facts, sub, rid="C09-R3")
    rep.rule("C09-R3b", "= C15-R3: inlined content is rendered by the one Projector of the host note (only project()/with() build a Projector, with() keeps the directory), so the block references that "
                        "arrive with an inlined note are written relative to the host's directory.")
    from .c06 import _MultiOnly
    c15.rule_r3(facts, _MultiOnly(rep, ("constructs-projector", "keeps-parent")), "C09-R3b")
    rep.rule("C09-R5", "= C15-R3, C14-R3 / R5: the notes an action creates, updates and deletes are addressed through Key::parent / Key::to_path, which must use the "
             "path algebra of the reader (directory = up to the last `/`, file = key + `.md`, dots in names are not extensions).")
    from . import c15 as _c15, c14 as _c14
    _c15.rule_r3(facts, rep, "C09-R5")
    _c14.rule_r3(facts, rep, "C09-R5b")
    _c14.rule_r5(facts, rep, "C09-R5c")
    rep.rule("C09-R6", "The reference left behind is titled with the whole heading: Node::plain_text folds every inline through GraphInline::plain_text, a variant table in which every "
             "text-bearing variant (links included) contributes its payload's text.")
    from . import plaintext
    plaintext.rule_plain_text(facts, rep, "C09-R6")
    rep.rule("C09-R7", "= C10-R8: extract / inline render both notes with the configured markdown options (one value reaches the database and the action context).")
    from . import options
    options.rule_one_options(facts, rep, "C09-R7")
    rep.rule("C09-R8", "An absent note is an absent note: no node id obtained from a lookup is defaulted to a constant (0 is the first note's root) - the inline actions on a dangling "
             "reference must fail, not copy and delete another note.")
    from . import ids
    ids.rule_no_default_ids(facts, rep, "C09-R8")
    rep.rule("C09-R9", "= C10-R9: everything else in the source note is unchanged - the edit of an extract / inline keeps the note's front matter.")
    from . import frontmatter
    frontmatter.rule_updates_carry_front_matter(facts, rep, "C09-R9")
    rep.rule("C09-R10", "The actions work on the library as it is: <&Server as ActionContext>::{key_of, collect, squash, random_key, patch} forward to the graph without a fallback of their own "
             "(an action on a dangling reference fails; it does not inline an empty note and delete a file that is not there).")
    from . import forwards
    forwards.rule_context_forwards(facts, rep, "C09-R10")
    rep.rule("C09-R11", "An offered action can be carried out: every scope selector (get_surrounding_* ..) whose None makes ActionProvider::changes give up also gates ActionProvider::action - "
             "for the extract / inline providers.")
    from . import offers
    offers.rule_offer_implies_changes(facts, rep, "C09-R11", only=("SectionExtract", "SubSectionsExtract", "ReferenceInlineSection", "ReferenceInlineQuote", "ReferenceInlineList"))

class _Sub:
    """Forwards to a Report but keeps only instances located in the refactoring actions."""

    def __init__(self, rep, rid):
        self.rep = rep
        self.stats = rep.stats

    def _keep(self, key):
        return "::action::" in key

    def ok(self, rule, key, detail="", loc=None, nontrivial=True):
        if self._keep(key):
            self.rep.ok(rule, key, detail, loc, nontrivial)

    def violation(self, rule, key, detail, loc=None):
        if self._keep(key):
            self.rep.violation(rule, key, detail, loc)

    def undecided(self, rule, key, detail, loc=None):
        if self._keep(key):
            self.rep.undecided(rule, key, detail, loc)

    def floor(self, rule, what, counted, minimum):
        pass

    def anchor_missing(self, rule, what):
        self.rep.anchor_missing(rule, what)

    def saw_fn(self, fn):
        self.rep.saw_fn(fn)

    def rule(self, rid, text):
        pass
