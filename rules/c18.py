"""C18 - symbol search and path listings (structural necessary conditions)."""
from vlib import factbase as fb
from vlib import q
from .common import pname, ctx, loc, chain_up, match_arms_on, arms_by_variant
from . import c04

GRAPHNODE = "liwe::graph::graph_node::GraphNode"


def _stmts(body):
    seq = list(body.get("stmts", []))
    if body.get("e") is not None:
        seq.append(body["e"])
    return seq


def rule_r1(facts, rep, rid="C18-R1"):
    f = facts.fn("liwe::graph::path::paths_for_node")
    rep.saw_fn(f)
    c = ctx(f)
    # the visited-set parameter: &mut HashSet<NodeId>
    vis = None
    for p in f.params:
        if "HashSet" in (p.get("ty") or "") and "&mut" in (p.get("ty") or ""):
            for n, _ in fb.pat_bindings(p["pat"]):
                vis = n
    if vis is None:
        rep.anchor_missing(rid, "&mut HashSet parameter (cycle guard) of paths_for_node")
        return
    seq = _stmts(f.body)

    def on_vis(x, method):
        return x.get("k") == "mcall" and x["name"] == method and ("param", vis) in c.vprov(x["recv"]) and (fb.callee(x) or "").startswith("std::collections::HashSet")

    guard_i = insert_i = remove_i = None
    rec_is = []
    ret_is = []
    for i, s in enumerate(seq):
        if s.get("k") == "if" and any(on_vis(x, "contains") for x in fb.walk(s["c"])):
            from .panics import _is_diverging_block
            if _is_diverging_block(s["t"]) and guard_i is None:
                guard_i = i
                continue
        # test-and-set form of the same guard: `if !set.insert(id) { return .. }` (insert returns false iff the id was already there)
        if s.get("k") == "if" and guard_i is None and insert_i is None and s["c"].get("k") == "unary" and s["c"].get("op") == "!" and on_vis(s["c"]["e"], "insert"):
            from .panics import _is_diverging_block
            if _is_diverging_block(s["t"]):
                guard_i = insert_i = i
                continue
        if any(on_vis(x, "insert") for x in fb.walk(s)) and insert_i is None:
            insert_i = i
        if any(on_vis(x, "remove") for x in fb.walk(s)):
            remove_i = i
        if any(fb.callee(x) == f.def_ for x in fb.calls_in(s)):
            rec_is.append(i)
        if any(x.get("k") == "ret" or (x.get("k") == "match" and x.get("src") == "TryDesugar") for x in fb.walk(s)) and i != guard_i:
            ret_is.append(i)
    key = f.def_ + "|visited-set-typestate"
    probs = []
    if guard_i is None:
        probs.append("no early return on `%s.contains(&id)`" % vis)
    if insert_i is None:
        probs.append("the node is never inserted into the visited set")
    if remove_i is None:
        probs.append("the node is never removed from the visited set (sibling branches would lose paths)")
    if not rec_is:
        probs.append("no recursive call found")
    if not probs:
        if not (guard_i <= insert_i):
            probs.append("insert precedes the contains-guard")
        if not (insert_i < min(rec_is)):
            probs.append("a recursive call is evaluated before the node is inserted into the visited set")
        if not (max(rec_is) < remove_i):
            probs.append("the node is removed from the visited set before the last recursive call")
        for r in ret_is:
            if insert_i < r < remove_i or r == insert_i:
                probs.append("an early exit between insert and remove leaves the node marked as visited")
        # recursion must be evaluated eagerly inside its statement (collected), not returned as a lazy iterator
        for i in rec_is:
            s = seq[i]
            t = (s.get("init") or s).get("ty", "")
            if s.get("k") == "let" and not str((s.get("init") or {}).get("ty", "")).startswith("std::vec::Vec<"):
                probs.append("the recursive enumeration is bound as a lazy iterator (%s): it would run after the visited-set removal" % str((s.get("init") or {}).get("ty", ""))[:60])
    if probs:
        rep.violation(rid, key, "; ".join(probs) + " — a reference cycle then makes the enumeration diverge or drop paths", f.loc)
    else:
        rep.ok(rid, key, "contains-guard < insert < recursive calls < remove, no exit in between", f.loc)
    # every recursive call passes the same visited set
    # position of the visited-set parameter (by its type, so that reordering the parameters does not matter)
    vis_idx = next((i_ for i_, p_ in enumerate(f.params) if "HashSet" in (p_.get("ty") or "") and "&mut" in (p_.get("ty") or "")), 2)
    for i, call in enumerate(x for x in fb.calls_in(f.body) if fb.callee(x) == f.def_):
        args_ = ([call.get("recv")] if call.get("k") == "mcall" else []) + list(call.get("args", []))
        pv = c.vprov(args_[vis_idx]) if len(args_) > vis_idx else set()
        k2 = "%s|recursive-call-shares-visited-set|%d" % (f.def_, i)
        if ("param", vis) in pv and not q.has_call(pv, "HashSet::new") and not q.has_call(pv, "HashSet::clone"):
            rep.ok(rid, k2, "", loc(f, call))
        else:
            rep.violation(rid, k2, "recursive call passes `%s` instead of the caller's visited set" % (fb.show(args_[vis_idx])[:60] if len(args_) > vis_idx else "?"), loc(f, call))
    # the root call starts from an empty set
    g = facts.fn("liwe::graph::path::graph_to_paths")
    cg_ = ctx(g)
    for call in [x for x in fb.calls_in(g.body) if fb.callee(x) == f.def_]:
        args_ = ([call.get("recv")] if call.get("k") == "mcall" else []) + list(call.get("args", []))
        pv = cg_.vprov(args_[vis_idx]) if len(args_) > vis_idx else set()
        if q.has_call(pv, "HashSet::new"):
            rep.ok(rid, g.def_ + "|fresh-visited-set-per-root", "", loc(g, call))
        else:
            rep.violation(rid, g.def_ + "|fresh-visited-set-per-root", "root enumeration does not start from a fresh HashSet", loc(g, call))


def rule_r2(facts, rep, rid="C18-R2"):
    f = facts.fn("liwe::graph::path::paths_for_node")
    c = ctx(f)
    ms = match_arms_on(f, "GraphNode")
    if not ms:
        rep.anchor_missing(rid, "match on GraphNode in paths_for_node")
        return
    arms = arms_by_variant(facts, ms[0], GRAPHNODE)
    for v, (arm, binds, wild) in arms.items():
        vs = fb.last_seg(v)
        ment = c.mentions(arm["body"])
        rec = any(fb.callee(x) == f.def_ for x in fb.calls_in(arm["body"]))
        key = "%s|arm:%s" % (f.def_, vs)
        aloc = "%s:%s" % (f.file, arm.get("ln"))
        if vs == "Section":
            need = {"recursion": rec, "to_parent": q.has_call(ment, "NodePointer::to_parent"), "append(id)": q.has_call(ment, "NodePath::append"),
                    "from_id(id) chained": q.has_call(ment, "NodePath::from_id") and q.has_call(ment, "Iterator::chain")}
            miss = [k for k, ok in need.items() if not ok]
            if miss:
                rep.violation(rid, key, "Section arm lost %s: headings would miss their own path or their ancestors' paths" % miss, aloc)
            else:
                rep.ok(rid, key, "parents' paths extended by this heading, plus the singleton path", aloc)
        elif vs == "Document":
            need = {"recursion": rec, "referrers of this note": q.has_call(ment, "Graph::get_block_references_to") or q.has_call(ment, "RefIndex::get_block_references_to"),
                    "to_parent of each referrer": q.has_call(ment, "NodePointer::to_parent")}
            miss = [k for k, ok in need.items() if not ok]
            if miss:
                rep.violation(rid, key, "Document arm lost %s: paths no longer continue into notes that include this note by block reference" % miss, aloc)
            else:
                rep.ok(rid, key, "continues at the parent heading of every block reference to this note", aloc)
        else:
            if rec or q.has_call(ment, "NodePath::from_id"):
                rep.violation(rid, key, "non-heading node kind %s produces paths" % vs, aloc)
            else:
                rep.ok(rid, key, "produces no path", aloc, nontrivial=False)
    # graph_to_paths: roots filter and final total sort
    g = facts.fn("liwe::graph::path::graph_to_paths")
    rep.saw_fn(g)
    mg = ctx(g).mentions(g.body)
    for need in ("NodePointer::is_in_list", "is_document", "Itertools::sorted", "Itertools::dedup"):
        if q.has_call(mg, need):
            rep.ok(rid, g.def_ + "|uses:" + need, "", g.loc)
        else:
            rep.violation(rid, g.def_ + "|uses:" + need, "graph_to_paths no longer applies %s" % need, g.loc)


def _base_local(e):
    while e is not None and e.get("k") in ("field", "addrof", "unary", "cast", "index") or (e is not None and e.get("k") == "mcall" and e["name"] in ("clone", "as_ref", "len") and not e.get("args")):
        e = e.get("e") if e.get("k") != "mcall" else e.get("recv")
    if e is not None and e.get("k") == "path" and e.get("res") == "local":
        return e
    return None


def _direct_pos(c, e, depth=0):
    """Pattern position of the base local of `e`; a local destructured out of a closure parameter (`let (p, r) = a;`, or the parameter of an
    inlined helper bound to `a`) gets the composed position `cp0>tuple.1`."""
    b = _base_local(e)
    if b is None:
        return ""
    pos = c.pos.get(b["id"], "")
    if not pos.startswith("cp") and depth < 4:
        bd = c.binds.get(b["id"])
        if bd and bd[0] == "expr" and bd[1] is not None:
            outer = _direct_pos(c, bd[1], depth + 1)
            if outer.startswith("cp"):
                return outer + (">" + pos if pos else "")
    return pos


def _closure_param_index(c, e):
    """Which closure parameter (0/1) is expression e rooted in (direct pattern position of its base local)?"""
    pos = _direct_pos(c, e)
    if pos.startswith("cp") and len(pos) > 2 and pos[2].isdigit():
        return {int(pos[2])}
    return set()


def _first_cmp(e):
    """Outermost-first `.cmp()` of a comparator expression `A.cmp(B).then_with(..)...` or a block with let primary = ..."""
    x = e
    while x is not None:
        if x.get("k") == "block":
            seq = _stmts(x)
            x = seq[0].get("init") if seq and seq[0].get("k") == "let" else (seq[-1] if seq else None)
            continue
        if x.get("k") == "mcall" and x["name"] in ("then_with", "then", "reverse"):
            x = x["recv"]
            continue
        if x.get("k") == "mcall" and x["name"] in ("cmp", "partial_cmp"):
            return x
        return None
    return None


def rule_r4(facts, rep, rid="C18-R4"):
    f = facts.fn("Database::global_search")
    rep.saw_fn(f)
    c = ctx(f)
    pars = [x for x in fb.walk(f.body) if x.get("k") == "mcall" and x["name"] in ("par_iter", "iter", "into_iter") and x["recv"].get("k") == "field" and x["recv"]["name"] == "paths"]
    if not pars:
        rep.anchor_missing(rid, "iteration over self.paths in global_search")
        return
    from .common import value_chain, through_lets
    chain = value_chain(c, pars[0])
    names = [m["name"] for m in chain]
    key = f.def_ + "|sorted-then-truncated-to-100"
    srt = [i for i, n in enumerate(names) if n in ("sorted_by", "sorted_by_key", "sorted")]
    tk = [i for i, n in enumerate(names) if n == "take"]
    if not srt or not tk or not (srt[0] < tk[0]):
        rep.violation(rid, key, "result is not `sorted_by(..)` followed by `take(100)` (chain: %s)" % " -> ".join(names), loc(f, pars[0]))
    else:
        lim = chain[tk[0]]["args"][0]
        v = lim.get("v") if lim.get("k") == "lit" else None
        if v == "i:100":
            rep.ok(rid, key, "chain: %s" % " -> ".join(names), loc(f, pars[0]))
        else:
            rep.violation(rid, key, "truncation limit is `%s`, not the documented 100" % fb.show(lim), loc(f, chain[tk[0]]))
    # comparator: branches on query.is_empty(); empty -> node_rank descending first; else fuzzy score descending first
    if srt:
        cmpc = chain[srt[0]]["args"][0] if chain[srt[0]]["args"] else None
        body = cmpc.get("body") if cmpc and cmpc.get("k") == "closure" else None
        iff = None
        if body is not None:
            for x in fb.walk(body):
                if x.get("k") == "if" and any(y.get("k") == "mcall" and y["name"] == "is_empty" and ("param", pname(f, 1)) in c.vprov(y["recv"]) for y in fb.walk(through_lets(c, x["c"]))):
                    iff = x
                    break
        if iff is None:
            rep.violation(rid, f.def_ + "|comparator-branches-on-empty-query", "comparator no longer distinguishes the empty query", f.loc)
        else:
            negated = any(y.get("k") == "unary" and y.get("op") == "!" for y in fb.walk(through_lets(c, iff["c"])))
            empty_b, other_b = (iff["e"], iff["t"]) if negated else (iff["t"], iff["e"])
            ce = _first_cmp(empty_b)
            co = _first_cmp(other_b)
            okc = True
            if ce is None or not (ce["recv"].get("k") == "field" and ce["recv"]["name"] == "node_rank" and _closure_param_index(c, ce["recv"]) == {1} and _closure_param_index(c, ce["args"][0]) == {0}):
                okc = False
                rep.violation(rid, f.def_ + "|empty-query-orders-by-rank-desc", "for an empty query the primary comparison is not `b.node_rank.cmp(&a.node_rank)` (most-referenced first): %s" % (fb.show(ce) if ce else "none"), loc(f, iff))
            else:
                rep.ok(rid, f.def_ + "|empty-query-orders-by-rank-desc", fb.show(ce), loc(f, ce))
            def _is_score(e_):
                # the fuzzy score: second component of the (path, score) pair, or - when the pair was given a name - its i64 field
                if _direct_pos(c, e_).endswith("tuple.1"):
                    return True
                b_ = e_
                while b_ is not None and b_.get("k") in ("addrof", "unary"):
                    b_ = b_.get("e")
                return b_ is not None and b_.get("k") == "field" and str(b_.get("ty") or "").replace("&", "") == "i64"
            if co is None or not (_closure_param_index(c, co["recv"]) == {1} and _closure_param_index(c, co["args"][0]) == {0} and _is_score(co["recv"])):
                rep.violation(rid, f.def_ + "|query-orders-by-score-desc", "for a non-empty query the primary comparison is not `score_b.cmp(&score_a)`: %s" % (fb.show(co) if co else "none"), loc(f, iff))
            else:
                rep.ok(rid, f.def_ + "|query-orders-by-score-desc", fb.show(co), loc(f, co))
    # search_paths: rank descending, then key ascending
    sp = facts.fn("Graph::search_paths")
    rep.saw_fn(sp)
    cs = ctx(sp)
    srt = [x for x in fb.walk(sp.body) if x.get("k") == "mcall" and x["name"] == "sorted_by"]
    if not srt:
        rep.violation(rid, sp.def_ + "|rank-desc-then-key", "search_paths no longer sorts", sp.loc)
    else:
        body = srt[0]["args"][0]["body"]
        cmps = [x for x in fb.walk(body) if x.get("k") == "mcall" and x["name"] == "cmp"]
        ok1 = any(x["recv"].get("k") == "field" and x["recv"]["name"] == "node_rank" and _closure_param_index(cs, x["recv"]) == {1} and _closure_param_index(cs, x["args"][0]) == {0} for x in cmps)
        ok2 = any(x["recv"].get("k") == "field" and x["recv"]["name"] == "key" and _closure_param_index(cs, x["recv"]) == {0} and _closure_param_index(cs, x["args"][0]) == {1} for x in cmps)
        if ok1 and ok2:
            rep.ok(rid, sp.def_ + "|rank-desc-then-key", "b.node_rank.cmp(&a.node_rank) then a.key.cmp(&b.key)", loc(sp, srt[0]))
        else:
            rep.violation(rid, sp.def_ + "|rank-desc-then-key", "search_paths ordering changed (rank descending: %s, key ascending: %s)" % (ok1, ok2), loc(sp, srt[0]))
    rule_search_ties(facts, rep, rid)
    # node_rank applies to primary sections and sums both reference kinds (C05-R4 checks the sources)
    nr = facts.fn("liwe::model::rank::node_rank")
    if q.has_call(ctx(nr).mentions(nr.body), "NodePointer::is_primary_section"):
        rep.ok(rid, nr.def_ + "|primary-sections-only", "", nr.loc)
    else:
        rep.violation(rid, nr.def_ + "|primary-sections-only", "node_rank no longer restricts itself to a note's first heading", nr.loc)


RENDERERS = ["iwes::router::server::render_path", "liwe::graph::render_search_text", "NodePathExt>::render", "iwe::render"]


def rule_r5(facts, rep, rid="C18-R5"):
    found = 0
    for name in RENDERERS:
        f = facts.fn(name, required=False)
        if f is None:
            continue            # a duplicate renderer that was folded into one of the others
        found += 1
        rep.saw_fn(f)
        c = ctx(f)
        # the ids of the path: through the accessor, or - inside NodePath's own methods - the field itself
        ids = [x for x in fb.walk(f.body) if (x.get("k") == "mcall" and (fb.callee(x) or "").endswith("NodePath::ids")) or
               (x.get("k") == "field" and x.get("name") == "ids" and "NodePath" in str(x.get("bty") or ""))]
        if not ids:
            rep.violation(rid, f.def_ + "|renders-ids-in-order", "does not enumerate path.ids()", f.loc)
            continue
        chain = chain_up(c, ids[0])
        names = [m["name"] for m in chain]
        gt = any(q.has_call(c.mentions(m), "GraphContext::get_text") for m in chain if m["name"] == "map")
        from .common import loop_as_chain
        lp = loop_as_chain(c, f, ids[0])
        if lp is not None:
            # `for id in path.ids() { out.push(get_text(id)) }; out.join(..)` is the same enumeration written as a loop
            names, mapped = lp
            gt = any(q.has_call(c.mentions(m), "GraphContext::get_text") for m in mapped)
        bad = [n for n in names if n in ("rev", "skip", "filter", "take", "step_by", "skip_while", "take_while", "sorted", "unique", "dedup", "filter_map")]
        if bad or not gt or "join" not in names:
            rep.violation(rid, f.def_ + "|renders-ids-in-order", "symbol name is not `ids().iter().map(get_text).join(..)` in order: chain %s" % names, loc(f, ids[0]))
        else:
            rep.ok(rid, f.def_ + "|renders-ids-in-order", " -> ".join(names), loc(f, ids[0]))
    # nested_render: indentation by depth, text = last id
    f = facts.fn("NodePathExt>::nested_render")
    m = ctx(f).mentions(f.body)
    if q.has_call(m, "GraphContext::get_text") and (q.has_call(m, "slice::last") or q.has_call(m, "core::slice::last")):
        rep.ok(rid, f.def_ + "|text-of-last-id", "", f.loc)
    else:
        rep.violation(rid, f.def_ + "|text-of-last-id", "nested symbol name is not the text of the path's last heading", f.loc)
    rep.floor(rid, "path renderers", found, 3)


def run(facts, rep, tier):
    rep.rule("C18-R1", "Cycle guard of the path enumeration as a typestate on the visited set: contains-guard (early return) < insert < "
             "every recursive call < remove, no exit in between, every recursive call shares the caller's set, each root starts from a fresh set.")
    rep.rule("C18-R2", "Both step kinds are walked: Section arm extends the parents' paths by the heading and adds the singleton path; "
             "Document arm continues at the parent heading of every block reference to the note; other kinds yield nothing; "
             "graph_to_paths filters list items and non-root starts and sorts+dedups totally.")
    rep.rule("C18-R3", "= C04-R1: the root filter and the Document arm read the tombstone-filtered index.")
    rep.rule("C18-R4", "Search contract: global_search sorts then truncates to the literal 100; the comparator branches on query.is_empty(): "
             "empty -> node_rank descending first, otherwise fuzzy score descending first; search_paths orders by rank descending, then key, then the rendered path text (ties are never left to node ids, which follow the edit history).")
    rep.rule("C18-R5", "Symbol names map path.ids() in order through get_text (no rev/skip/filter in the chain).")
    rule_r1(facts, rep)
    rule_r2(facts, rep)
    c04.rule_r1(facts, rep, "C18-R3")
    rep.rule("C18-R6", "= C04-R2 / C04-R6: the step to an including note and the reference count both read the reference index, so the index walker must reach every node through "
             "child and next (a hole hides block references that follow a code block, rule, table ... on the incremental path) and merging must be a per-key union.")
    c04.rule_r2(facts, rep, "C18-R6")
    c04.rule_r6(facts, rep, "C18-R6b")
    rule_r4(facts, rep)
    rule_r5(facts, rep)
    rep.rule("C18-R7", "Every heading that ends a path is listed: audited inventory of dropping adapters (filter / take / skip / dedup / find ...) in the symbol handlers and the path "
             "renderers; a new one is reported.")
    from .common import droppers_inventory
    n = droppers_inventory(facts, rep, "C18-R7", ["Server::handle_workspace_symbols", "Server::handle_document_symbols", "NodePathExt>::nested_render", "NodePathExt>::to_nested_symbol",
                                                 "liwe::graph::path::graph_to_paths", "Database::global_search", "Graph::search_paths"], {
        ("Server::handle_workspace_symbols", "filter(|c0|!c0.name.is_empty())"): "entries whose rendered name is empty (headings without text) cannot be shown",
        ("Server::handle_document_symbols", "filter(|c0|!c0.name.is_empty())"): "entries whose rendered name is empty cannot be shown",
        ("Server::handle_document_symbols", "filter(|c0|(c0.ids().len()<4))"): "documentSymbol shows at most three levels below the note (documented nesting limit of the outline view)",
        ("Server::handle_document_symbols", "filter(|c0|(c0.ids().len()>1))"): "the note's own first heading is the container, not a symbol inside it; also guards drop_first()",
        ("Server::handle_document_symbols", "filter(|c0|(c0.contains(v?)||c0.contains(v?)))"): "selects the paths that run through this note (its first block or its root)",
        ("liwe::graph::path::graph_to_paths", "filter(|c0|!matchc0{GraphNode::Empty=>true,_=>false})"): "tombstones are not nodes of any note",
        ("liwe::graph::path::graph_to_paths", "filter(|c0|!c0.is_empty())"): "tombstones are not nodes of any note (GraphNode::is_empty is that match)",
        ("liwe::graph::path::graph_to_paths", "filter(|c0|!P0.node(c0.id()).is_in_list())"): "list items are not headings",
        ("liwe::graph::path::graph_to_paths", "filter(|c0|!c0.ids.is_empty())"): "a node that is not a section yields no path",
        ("liwe::graph::path::graph_to_paths", "filter(|c0|{(P0.get_block_references_to(&P0.node_key(c0.first_id())).is_empty()&&P0.node(c0.first_id()).to_parent().u"): "keeps the paths that start at a root: first heading of a note that no other note includes (C18-R2 / R3 check its parts)",
        ("NodePathExt>::nested_render", "last()"): "the symbol's own name is the last path element",
        ("NodePathExt>::nested_render", "skip(1)"): "the container (first element) is rendered separately",
        ("liwe::graph::path::graph_to_paths", "dedup()"): "sorted().dedup(): the same path can be reached through two referrers",
        ("Database::global_search", "take(100)"): "documented limit of 100 entries (C18-R4 checks it comes after the sort)",
    }, "headings / paths")
    rep.floor("C18-R7", "dropping adapters audited in the symbol path", n, 8)
    rep.rule("C18-R8", "= C15-R3: the keys block references are filed under are normalised with the reader's path algebra (`../x`, `./x`), otherwise included notes are listed as roots "
             "and their chains are missing.")
    from . import c15 as _c15
    _c15.rule_r3(facts, rep, "C18-R8")
    rep.rule("C18-R9", "Names are the headings' words: GraphInline::plain_text / DocumentInline::to_plain_text give every text-bearing variant its own arm built from its payload; the catch-all "
             "yields \"\" only for audited variants (a heading's link text must not vanish from symbol names and search paths).")
    from . import plaintext
    plaintext.rule_plain_text(facts, rep, "C18-R9")
    rep.rule("C18-R10", "= C16-R8: graph_to_paths removes duplicate paths with sorted().dedup(), which needs NodePath's order to be total and to agree with == (derived, or visibly lexicographic).")
    from . import c16 as _c16
    _c16.rule_r8(facts, rep, "C18-R10")


def rule_search_ties(facts, rep, rid):
    """Paths that tie on (rank, key) - one note reached through two parents - must be ordered by something the listing shows.  The sort is stable, so a comparator that stops at the key
    leaves them in the order graph_to_paths produced them: by node id, and node ids follow the edit history (Graph::update_key re-inserts a note with new, larger ids).  A server that
    has seen an edit then lists `t|B T ; t|A T` where a fresh one lists `t|A T ; t|B T` (found on the pinned tree through a sub-agent's remark, repaired)."""
    sp = facts.fn("Graph::search_paths")
    rep.saw_fn(sp)
    cs = ctx(sp)
    key = sp.def_ + "|ties-broken-by-content"
    srt = [x for x in fb.walk(sp.body) if x.get("k") == "mcall" and x["name"] in ("sorted_by", "sort_by", "sorted_by_key", "sort_by_key", "sorted_by_cached_key", "sort_by_cached_key", "sort_unstable_by", "sort_unstable_by_key")]
    if not srt:
        rep.violation(rid, key, "search_paths no longer sorts", sp.loc)
        return
    body = srt[0]["args"][0].get("body") if srt[0]["args"] and srt[0]["args"][0].get("k") == "closure" else srt[0]["args"][0] if srt[0]["args"] else None
    m = cs.mentions(body) if body is not None else set()
    fields = set(a[1] for a in m if a[0] == "field")
    if "search_text" in fields and "key" in fields:
        rep.ok(rid, key, "comparator reads %s" % sorted(fields & {"node_rank", "key", "search_text", "line", "root"}), loc(sp, srt[0]))
    elif fields & {"path"} or any(a[0] == "call" and a[1] and fb.last_seg(a[1]) in ("ids", "last_id", "target", "first_id") for a in m):
        rep.violation(rid, key, "ties are broken by node ids, which follow the edit history, not the library's content", loc(sp, srt[0]))
    else:
        rep.violation(rid, key, "the comparator stops at %s: paths to one note through different parents tie and keep the order of their node ids, which follows the edit history (an edited "
                      "library lists them in another order than a freshly loaded one)" % sorted(fields & {"node_rank", "key", "line", "root"}), loc(sp, srt[0]))

