"""Allocator freshness of the arena (shared by C01 / C04 / C20): a line or node id handed out by the arena names storage that nobody else holds.

`Arena::delete_branch` blanks `lines[line_id]` of every node of the replaced note: if two nodes (of two notes) ever shared a line id, editing one note would
empty text of the other (C01: content silently deleted; C04: differs from a fresh start; C20: a line owned by two nodes).  So:

  * `Arena::new_line_id` / `Arena::new_node_id` return exactly `self.<vec>.len()`;
  * `Arena::add_line(inlines)` returns, on every exit, the id it drew from `new_line_id()` (or `self.lines.len()`), after one unconditional
    `self.lines.push(Line::new(<that id>, inlines))` that follows the draw - no exit hands out the id of an existing line."""
from vlib import factbase as fb
from vlib import q
from .common import ctx, loc, value_leaves, through_lets, pname


def _is_len_of(c, e, field):
    pv = c.vprov(e)
    return q.has_call(pv, "Vec::len") and ("field", field) in pv and not any(a[0] in ("binary", "lit") for a in pv)


def rule_fresh_ids(facts, rep, rid):
    for name, field in (("Arena::new_line_id", "lines"), ("Arena::new_node_id", "nodes")):
        f = facts.fn(name)
        rep.saw_fn(f)
        c = ctx(f)
        rets = [x["e"] for x in fb.walk(f.body) if x.get("k") in ("ret", "iret") and x.get("e") is not None]
        leaves = [l for e in [f.body] + rets for l in value_leaves(c, e)]
        key = f.def_ + "|fresh-id-is-arena-length"
        if leaves and all(_is_len_of(c, l, field) for l in leaves):
            rep.ok(rid, key, "returns self.%s.len()" % field, f.loc)
        else:
            rep.violation(rid, key, "%s no longer returns exactly self.%s.len() on every exit: ids could be reused or skipped" % (fb.last2(f.def_), field), f.loc)
    f = facts.fn("Arena::add_line")
    rep.saw_fn(f)
    c = ctx(f)
    key = f.def_ + "|returns-the-id-it-allocated"
    rets = [x["e"] for x in fb.walk(f.body) if x.get("k") in ("ret", "iret") and x.get("e") is not None]
    leaves = [l for e in [f.body] + rets for l in value_leaves(c, e)]
    pushes = [x for x in fb.walk(f.body) if x.get("k") == "mcall" and x["name"] == "push" and (fb.callee(x) or "").startswith(("std::vec::Vec::", "alloc::vec::Vec::"))
              and ("field", "lines") in c.vprov(x["recv"])]
    probs = []

    def _fresh(l):
        pv = c.vprov(l)
        return (q.has_call(pv, "Arena::new_line_id") and not any(a[0] in ("binary", "field") for a in pv)) or _is_len_of(c, l, "lines")
    stale = [l for l in leaves if not _fresh(l)]
    if not leaves or stale:
        probs.append("an exit returns `%s`, which is not the id just drawn from new_line_id() (an existing line's id is handed out again: the line gets a second owner)"
                     % (fb.show(stale[0])[:60] if stale else "?"))
    if len(pushes) != 1:
        probs.append("%d pushes onto self.lines (expected exactly one)" % len(pushes))
    else:
        p = pushes[0]
        cond = [a for a in c.parents(p) if a.get("k") in ("if", "loop", "closure") or (a.get("k") == "match" and a.get("src", "Normal") == "Normal")]
        if cond:
            probs.append("the push onto self.lines is conditional (`%s ..`): some exits return an id without storing a line" % cond[0].get("k"))
        # the stored Line carries the id that is returned and the inlines it was given
        ln = [y for y in fb.walk(p["args"][0]) if y.get("k") == "call" and (fb.callee(y) or "").endswith("Line::new")] if p.get("args") else []
        if not ln or len(ln[0].get("args", [])) != 2:
            probs.append("the pushed value is not Line::new(id, inlines)")
        else:
            a0, a1 = ln[0]["args"]
            if not _fresh(a0):
                probs.append("Line::new is given the id `%s`, not the one drawn from new_line_id()" % fb.show(a0)[:40])
            if ("param", pname(f, 1)) not in c.vprov(a1):
                probs.append("Line::new is not given add_line's `inlines` argument")
            locs = set(x.get("id") for x in [a0] + leaves if x.get("k") == "path" and x.get("res") == "local")
            if len(locs) > 1:
                probs.append("the stored line and the returned value use different draws of the id")
            # the draw precedes the push (an id drawn after the push is the next line's)
            if len(locs) == 1:
                lid = next(iter(locs))
                b = c.binds.get(lid)
                blk = f.body
                while blk.get("k") == "block" and not blk.get("stmts") and blk.get("e") is not None:
                    blk = blk["e"]
                order = list(blk.get("stmts", [])) + ([blk["e"]] if blk.get("e") is not None else [])
                li = [i for i, s in enumerate(order) if s.get("k") == "let" and any(l2 == lid for _n, l2 in fb.pat_bindings(s["pat"]))]
                pi = [i for i, s in enumerate(order) if any(y is p for y in fb.walk(s))]
                if li and pi and not li[0] < pi[0]:
                    probs.append("the id is drawn after the push")
    if probs:
        rep.violation(rid, key, "Arena::add_line: " + "; ".join(probs), f.loc)
    else:
        rep.ok(rid, key, "let id = new_line_id(); lines.push(Line::new(id, inlines)); id", f.loc)
