"""An offered action can be carried out (C09, C10): `ActionProvider::action` decides whether the menu shows the action, `ActionProvider::changes` computes the edit when the user picks it,
and `handle_code_action_resolve` unwraps it.  Every *scope selector* of the tree - an Option-returning `get_surrounding_*` / `get_top_level_surrounding_*` query - whose None makes
`changes` give up must also gate `action`; otherwise the action is offered at a place where resolving it panics (answered with "request handler panicked", nothing is edited).
Found on the pinned tree for `Inline section` on a reference outside any section (repaired in 90013fb)."""
import re
from vlib import factbase as fb
from .common import ctx, loc, value_chain

_DEFAULTING = ("unwrap_or", "unwrap_or_else", "unwrap_or_default", "or", "or_else", "map_or", "map_or_else")


def _selectors(facts, f, narrowing_only):
    out = {}
    fns = [f] + [g for g in facts.body_fns() if g.kind == "closure" and (g.parent or "") == f.def_]
    c = ctx(f)
    for x in fb.walk(f.body):
        if x.get("k") == "mcall" and re.match(r"^get_(top_level_)?surrounding_", x["name"]) and "Option" in (x.get("ty") or ""):
            names = [m_["name"] for m_ in value_chain(c, x)]
            if narrowing_only and any(n in _DEFAULTING for n in names):
                continue        # a fallback value: the absence of the scope does not stop the action
            out.setdefault(x["name"], x)
    return out


def rule_offer_implies_changes(facts, rep, rid, only=None):
    provs = {}
    for f in facts.body_fns():
        if f.kind == "closure":
            continue
        m = re.match(r"^<iwes::router::server::action::(\w+) as iwes::router::server::action::ActionProvider>::(action|changes)$", f.def_)
        if m and m.group(1) != "ActionEnum":
            provs.setdefault(m.group(1), {})[m.group(2)] = f
    n = 0
    for p, fs in sorted(provs.items()):
        if only and p not in only:
            continue
        if "action" not in fs or "changes" not in fs:
            continue
        n += 1
        rep.saw_fn(fs["action"])
        rep.saw_fn(fs["changes"])
        need = _selectors(facts, fs["changes"], True)
        have = _selectors(facts, fs["action"], False)
        key = "%s|offer-implies-changes" % p
        missing = sorted(set(need) - set(have))
        if missing:
            rep.violation(rid, key, "%s::changes gives up (None) when `%s` finds nothing, but %s::action offers the action without asking: where that scope is missing the offered action "
                          "cannot be resolved - handle_code_action_resolve unwraps the None and the request is answered with `request handler panicked`" % (p, "`, `".join(missing), p),
                          loc(fs["action"]))
        else:
            rep.ok(rid, key, "every scope selector of changes (%s) also gates the offer" % (", ".join(sorted(need)) or "none"), fs["action"].loc)
    rep.floor(rid, "action providers with an offer and an edit", n, 8 if not only else len(only))
