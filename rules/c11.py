"""C11 - no edit notification is lost, whatever requests are in flight."""
from vlib import factbase as fb
from . import panics

FALLIBLE_PROBES = {
    "std::sync::Arc::get_mut": "Arc::get_mut",
    "std::sync::Arc::try_unwrap": "Arc::try_unwrap",
    "std::sync::Arc::into_inner": "Arc::into_inner",
    "std::sync::Arc::make_mut": None,  # make_mut clones: the edit would go to a private copy
    "std::rc::Rc::get_mut": "Rc::get_mut",
    "std::sync::RwLock::try_write": "RwLock::try_write",
    "std::sync::RwLock::try_read": "RwLock::try_read",
    "std::sync::Mutex::try_lock": "Mutex::try_lock",
    "std::sync::poison::rwlock::RwLock::try_write": "RwLock::try_write",
    "std::sync::poison::rwlock::RwLock::try_read": "RwLock::try_read",
    "std::sync::poison::mutex::Mutex::try_lock": "Mutex::try_lock",
}

SPAWNS = ("std::thread::spawn", "std::thread::Builder::spawn", "std::thread::scope", "rayon::spawn", "rayon_core::spawn")


def shared_types(facts):
    """Types a clone/value of which is moved into a closure given to a thread-spawning call, closed
    over their fields (so `Router` shares `Arc<Server>`).  Returns {type: [spawn site loc]}."""
    out = {}
    spawn_sites = []
    for f in facts.body_fns():
        if f.crate not in ("iwes",):
            continue
        for c in fb.calls_in(f.body, lambda p: p in SPAWNS):
            for a in c.get("args", []):
                if a.get("k") == "closure":
                    spawn_sites.append((f, c, a))
                    for cap in a.get("caps", []):
                        t = cap.get("ty", "")
                        out.setdefault(t, []).append("%s:%s" % (f.file, c.get("ln")))
    # close over fields
    changed = True
    while changed:
        changed = False
        for t in list(out.keys()):
            a = facts.adts.get(t)
            if not a:
                continue
            for v in a["variants"]:
                for fld in v["fields"]:
                    ft = fld["ty"]
                    if ft not in out:
                        out[ft] = out[t]
                        changed = True
    return out, spawn_sites


def run(facts, rep, tier):
    rep.rule("C11-R1", "No fallible exclusivity probe (Arc::get_mut / try_unwrap / into_inner / make_mut, RwLock::try_write, "
             "Mutex::try_lock) may be applied to state of a type whose clone is moved into a spawned worker thread: while a worker "
             "is alive the probe fails, and on that edge the notification's update is not applied.")
    rep.rule("C11-R2", "Every panic site reachable from the notification path (Router::on_notification and below) is an obligation: "
             "Router::run catches the panic and drops the message. Audited inventory (tables/panics.json).")
    rep.rule("C11-R3", "Requests read the state that includes earlier notifications: one Server/Database instance (constructed once, "
             "not Clone), notifications are applied synchronously on the loop thread (not inside a spawned closure) and reach "
             "Database::update_document; the worker closure captures the router by value (a clone taken on the loop thread).")

    shared, spawn_sites = shared_types(facts)
    if not spawn_sites:
        rep.ok("C11-R1", "no-spawn", "no thread-spawning call with a closure in iwes: nothing is shared across threads", nontrivial=False)
    for f, c, a in spawn_sites:
        rep.saw_fn(f)
        caps = ", ".join("%s:%s(%s)" % (x["name"], x["ty"], x["mode"]) for x in a.get("caps", []))
        bad = [x for x in a.get("caps", []) if x["mode"] != "value"]
        if bad:
            rep.violation("C11-R3", "%s|spawn-capture-by-ref" % f.def_, "spawned closure captures by reference: %s" % caps, "%s:%s" % (f.file, c.get("ln")))
        else:
            rep.ok("C11-R3", "%s|spawn-captures-by-value" % f.def_, caps, "%s:%s" % (f.file, c.get("ln")))

    # R1: probes on shared state
    n_probe = 0
    counts = {}
    for f in facts.body_fns():
        if f.crate != "iwes":
            continue
        for c in fb.calls_in(f.body, lambda p: p in FALLIBLE_PROBES):
            cal = fb.callee(c)
            arg = c["args"][0] if c.get("k") == "call" and c.get("args") else c.get("recv")
            aty = (arg or {}).get("ty", "")
            inner = aty.replace("&mut ", "").replace("&", "")
            n_probe += 1
            key0 = (f.def_, cal)
            n = counts.get(key0, 0)
            counts[key0] = n + 1
            key = "%s|%s|%d" % (f.def_, fb.last2(cal), n)
            loc = "%s:%s" % (f.file, c.get("ln"))
            if inner in shared:
                rep.violation("C11-R1", key, "`%s` on `%s`, a value of which is moved into a worker thread at %s: whenever a request worker "
                              "is still alive the probe yields None/Err and the notification's update is skipped (here the result is "
                              "unwrapped -> panic -> caught by Router::run -> message dropped)" % (fb.last2(cal), inner, shared[inner][0]), loc)
            else:
                rep.ok("C11-R1", key, "probe on `%s`, which is not shared with a spawned thread" % inner, loc)
    if n_probe == 0:
        rep.ok("C11-R1", "no-fallible-probe", "no Arc::get_mut / try_unwrap / try_lock / try_write call in iwes; %d type(s) shared with workers" % len(shared))

    # R3: single instance, not Clone, notification plumbing
    for ty in ("iwes::router::server::Server", "liwe::database::Database"):
        facts.adt(ty)
        if facts.has_impl(ty, "std::clone::Clone") or facts.has_impl(ty, "core::clone::Clone"):
            rep.violation("C11-R3", "%s|not-clone" % ty, "%s implements Clone: a second copy of the server state can exist, so a request could be answered from a copy that misses a notification" % ty)
        else:
            rep.ok("C11-R3", "%s|not-clone" % ty, "no Clone impl")
    cg = facts.callgraph
    for ctor, allowed in (("iwes::router::server::Server::new", {"iwes::router::Router::new"}),
                          ("liwe::database::Database::new", {"iwes::router::server::Server::new"})):
        facts.fn(ctor)
        callers = set(x for x in cg.callers_of(ctor) if not x.startswith(ctor))
        extra = callers - allowed
        if extra:
            rep.violation("C11-R3", "%s|single-constructor-site" % ctor, "constructed outside %s: %s" % (sorted(allowed), sorted(extra)))
        else:
            rep.ok("C11-R3", "%s|single-constructor-site" % ctor, "callers: %s" % sorted(callers))

    on_notif = facts.fn("Router::on_notification")
    handle = facts.fn("Router::handle_message")
    rep.saw_fn(on_notif)
    rep.saw_fn(handle)
    # on_notification is called directly on the loop thread, not from inside a spawned closure
    direct = False
    for node, parents in fb.walk_with_parents(handle.body):
        if node.get("k") == "mcall" and fb.callee(node) == on_notif.def_:
            if any(p.get("k") == "closure" for p in parents):
                rep.violation("C11-R3", "handle_message|notification-inline", "on_notification is called from inside a closure (deferred / other thread): program order with later requests is lost", "%s:%s" % (handle.file, node.get("ln")))
            else:
                direct = True
    if direct:
        rep.ok("C11-R3", "handle_message|notification-inline", "on_notification is called synchronously in handle_message")
    else:
        rep.violation("C11-R3", "handle_message|notification-inline:missing", "handle_message does not call on_notification directly")
    # the two notification methods reach Database::update_document
    want = {"textDocument/didChange": "handle_did_change_text_document", "textDocument/didSave": "handle_did_save_text_document"}
    found = {}
    for node in fb.walk(on_notif.body):
        if node.get("k") == "match":
            for arm in node["arms"]:
                for v in fb.pat_variants(arm["pat"]):
                    if v.startswith("lit:s:"):
                        m = v[6:]
                        if m in want:
                            found[m] = [fb.callee(c) for c in fb.calls_in(arm["body"])]
    for m, h in want.items():
        calls = found.get(m)
        if calls is None:
            rep.violation("C11-R3", "on_notification|arm:%s" % m, "no match arm for notification method %s" % m, on_notif.loc)
        elif not any(c and c.endswith("::" + h) for c in calls):
            rep.violation("C11-R3", "on_notification|arm:%s" % m, "arm for %s does not call Server::%s (calls: %s)" % (m, h, calls), on_notif.loc)
        else:
            rep.ok("C11-R3", "on_notification|arm:%s" % m, "calls Server::%s" % h, on_notif.loc)
    for h in want.values():
        hf = facts.fn("Server::" + h)
        rep.saw_fn(hf)
        reach = cg.reachable_from([hf.def_])
        if "liwe::database::Database::update_document" in reach or "liwe::database::Database::insert_document" in reach:
            rep.ok("C11-R3", "%s|reaches-update" % hf.def_, "reaches Database::update_document", hf.loc)
        else:
            rep.violation("C11-R3", "%s|reaches-update" % hf.def_, "does not reach Database::update_document: the edit is not applied", hf.loc)

    # R3b: the update is applied on every path of the handler (no "stale edit" / "nothing changed" shortcut in front of it)
    rep.rule("C11-R3b", "Every edit notification is applied: in Server::handle_did_{change,save}_text_document the call to Database::update_document is not preceded by an early return and "
             "is not nested in a condition, except the audited `params.text.map(..)` of didSave (a save without text carries no edit).")
    from .common import ctx as _ctx
    for h in want.values():
        hf = facts.fn("Server::" + h)
        c_ = _ctx(hf)
        ups = [x for x in fb.walk(hf.body) if x.get("k") == "mcall" and (fb.callee(x) or "").endswith(("Database::update_document", "Database::insert_document"))]
        key = hf.def_ + "|update-on-every-path"
        if not ups:
            rep.violation("C11-R3b", key, "no call to Database::update_document", hf.loc)
            continue
        u = ups[0]
        rets = [r_ for r_ in fb.walk(hf.body, into_closures=False) if r_.get("k") == "ret" and (r_.get("s") or [0])[0] < (u.get("s") or [0])[0]]
        conds = []
        from .common import controlling_tests
        child_ = u
        for p_ in c_.parents(u):
            if p_.get("k") in ("if", "match"):
                # `if let Some(text) = params.text { update(.., text) }` / `match params.text { Some(text) => .. }` is the audited
                # "a save without text carries no edit" in another idiom
                tst = [t_ for t_ in controlling_tests(c_, child_) if t_[0] is (p_["c"].get("init") if p_.get("k") == "if" and p_["c"].get("k") == "letx" else p_.get("e"))]
                ok_text = False
                if tst and tst[0][1] == "pat:Some":
                    hc = fb.show_canon(hf, tst[0][0]).replace(" ", "")
                    ok_text = hc in ("P1.text", "P1.text.clone()", "P1.text.as_ref()", "P1.text.as_deref()", "&P1.text")
                if not ok_text:
                    conds.append(fb.show(p_.get("c") or p_.get("e"))[:60])
            child_ = p_
            if p_.get("k") == "closure":
                host = [q_ for q_ in c_.parents(p_)[:2] if q_.get("k") == "mcall" and p_ in q_.get("args", [])]
                if host:
                    hc = fb.show_canon(hf, host[0]["recv"]).replace(" ", "")
                    if not (host[0]["name"] in ("map", "for_each", "inspect") and hc in ("P1.text", "P1.text.clone()", "P1.text.as_ref()", "P1.text.as_deref()")):
                        conds.append("%s(..) on %s" % (host[0]["name"], fb.show(host[0]["recv"])[:40]))
        if rets:
            g_ = [p_ for p_ in c_.parents(rets[0]) if p_.get("k") in ("if", "match")]
            rep.violation("C11-R3b", key, "%s returns early under `%s` before the edit is applied: notifications for which that holds are dropped silently (the note keeps its previous text)" % (
                fb.last_seg(hf.def_), fb.show(g_[0].get("c") or g_[0].get("e"))[:70] if g_ else "?"), "%s:%s" % (hf.file, rets[0].get("ln")))
        elif conds:
            rep.violation("C11-R3b", key, "the edit is applied only under %s" % conds, "%s:%s" % (hf.file, u.get("ln")))
        else:
            rep.ok("C11-R3b", key, "update_document is reached on every path", "%s:%s" % (hf.file, u.get("ln")))

    # R2: panic inventory below the notification path
    panics.inventory(facts, rep, "C11-R2", [on_notif.def_], floor=40, prop="C11")
    rep.rule("C11-R4", "= C04-R6: applying an edit merges the new note's index into the library's by per-key union (an overwrite would take earlier edits' links out of "
             "the answers to later requests).")
    from . import c04 as _c04
    _c04.rule_r6(facts, rep, "C11-R4")
    rep.rule("C11-R5", "= C12-R5: lock discipline - no worker takes the state lock twice (a writer queued between the two reads deadlocks the loop thread, and every later "
             "notification with it).")
    from . import c12 as _c12
    _c12.rule_r5(facts, rep, "C11-R5")
    rep.rule("C11-R6", "= C04-R3: applying an edit replaces every per-note cache (front matter, line table, title) - insert on Some, remove on None - so that the state after the "
             "last notification is the state of the last text sent, not a mix with earlier ones.")
    _c04.rule_r3(facts, rep, "C11-R6")
    rep.rule("C11-R7", "The state after a didChange is the LAST text it carries: with full-document sync every content change of one notification replaces the whole text, so the handler applies "
             "the last one (or all of them in order) - never the first / a fixed index.")
    rule_last_change_wins(facts, rep, "C11-R7")
    rep.rule("C11-R8", "Every message taken from the inbox is handled: Router::next_event hands out what the channel yields (no buffering, no loop that can consume a message and go on to the "
             "next, no look-ahead that decides a queued notification is superseded), and Router::run passes each one to handle_message unconditionally.")
    rule_every_message_handled(facts, rep, "C11-R8")


CONSUMERS = {"try_iter", "try_recv", "recv_timeout", "recv_deadline", "iter", "pop_front", "pop_back", "pop", "drain", "retain", "retain_mut", "filter", "filter_map", "skip", "skip_while",
             "take_while", "dedup", "dedup_by", "dedup_by_key", "last", "nth", "truncate", "clear", "remove", "swap_remove"}


def rule_every_message_handled(facts, rep, rid):
    from .common import ctx as _ctx, controlling_tests
    ne = facts.fn("Router::next_event", required=False)
    run_ = facts.fn("Router::run")
    rep.saw_fn(run_)
    hm = facts.fn("Router::handle_message")
    # the event source(s): every fn of Router between run and the channel
    srcs = [f for f in ([ne] if ne is not None else [])]
    for f in srcs:
        rep.saw_fn(f)
        key = f.def_ + "|hands-out-what-the-channel-yields"
        loops = [x for x in fb.walk(f.body) if (x.get("k") == "loop" and x.get("src") in ("Loop", "While") and not x.get("m")) or (x.get("k") == "match" and x.get("src") == "ForLoopDesugar" and not x.get("m"))]
        cons = sorted(set(x["name"] for x in fb.walk(f.body) if x.get("k") == "mcall" and x["name"] in CONSUMERS and not x.get("m")))
        extra_params = [p_ for p_ in (f.params or [])[2:]] if hasattr(f, "params") and f.params else []
        if loops or cons:
            rep.violation(rid, key, "the event source %s: a message can be taken from the inbox and dropped or overtaken before it is handled - a didChange / didSave skipped here is an edit "
                          "the server never applies" % ("; ".join(x_ for x_ in ["loops over messages" if loops else "", ("uses " + ", ".join(cons)) if cons else ""] if x_)), f.loc)
        else:
            rep.ok(rid, key, "no loop, no buffering / dropping adapter", f.loc)
    # run: handle_message(message) on every iteration
    c = _ctx(run_)
    calls = [x for x in fb.walk(run_.body) if x.get("k") == "mcall" and (fb.callee(x) or "") == hm.def_]
    key = run_.def_ + "|each-message-reaches-handle_message"
    if not calls:
        rep.violation(rid, key, "Router::run no longer calls handle_message", run_.loc)
    else:
        u = calls[0]
        conds = [p_ for p_ in c.parents(u) if p_.get("k") in ("if", "match") and not (p_.get("src") in ("WhileLetDesugar", "ForLoopDesugar") or p_.get("k") == "match" and p_.get("src") not in (None, "Normal"))]
        # the `while let Some(message) = next_event()` header is the loop itself
        conds = [p_ for p_ in conds if not any(("call", (ne.def_ if ne is not None else "?")) in c.mentions(p_.get("c") or p_.get("e")) for _ in [0])]
        cons = sorted(set(x["name"] for x in fb.walk(run_.body) if x.get("k") == "mcall" and x["name"] in CONSUMERS and not x.get("m") and "Receiver" in str((x.get("recv") or {}).get("ty") or "")))
        if conds:
            rep.violation(rid, key, "handle_message is called only under `%s`: messages for which it does not hold are taken from the inbox and never handled" % fb.show(conds[0].get("c") or conds[0].get("e"))[:80], "%s:%s" % (run_.file, u.get("ln")))
        elif cons:
            rep.violation(rid, key, "Router::run drains the inbox itself (%s)" % ", ".join(cons), run_.loc)
        else:
            rep.ok(rid, key, "handle_message(message) is reached for every message next_event returns", "%s:%s" % (run_.file, u.get("ln")))


def rule_last_change_wins(facts, rep, rid):
    from .common import ctx as _ctx
    hf = facts.fn("Server::handle_did_change_text_document")
    rep.saw_fn(hf)
    c = _ctx(hf)
    key = hf.def_ + "|last-content-change-wins"
    ups = [x for x in fb.walk(hf.body) if x.get("k") == "mcall" and (fb.callee(x) or "").endswith(("Database::update_document", "Database::insert_document"))]
    if not ups:
        rep.anchor_missing(rid, "Database::update_document in handle_did_change_text_document")
        return
    u = ups[0]
    text = u["args"][-1] if u.get("args") else None
    m = c.vprov(text) | c.mentions(text)
    if ("field", "content_changes") not in m:
        # applied inside a loop / for_each over the changes: every change is applied, in order
        looped = any(p_.get("k") in ("loop", "for", "while") or (p_.get("k") == "closure") for p_ in c.parents(u))
        whole = c.mentions(hf.body)
        if looped and ("field", "content_changes") in whole:
            rep.ok(rid, key, "every content change is applied in order", "%s:%s" % (hf.file, u.get("ln")))
        else:
            rep.violation(rid, key, "the text given to update_document does not come from params.content_changes", "%s:%s" % (hf.file, u.get("ln")))
        return
    names = set(fb.last_seg(a[1]) for a in m if a[0] == "call" and a[1])
    last = names & {"last", "pop", "next_back", "last_mut", "rev", "fold", "reduce"}
    first = names & {"first", "next", "nth", "get", "first_mut", "swap_remove", "remove"}
    if last and not (first - ({"next"} if "rev" in names else set())):
        rep.ok(rid, key, "text <- content_changes.%s()" % sorted(last)[0], "%s:%s" % (hf.file, u.get("ln")))
    elif first or ("index",) in m:
        rep.violation(rid, key, "the text applied is the FIRST content change (`%s`): a didChange that carries several changes leaves the note at an intermediate text - the last one is the editor's state" % (
            sorted(first)[0] if first else "[..]"), "%s:%s" % (hf.file, u.get("ln")))
    else:
        rep.undecided(rid, key, "cannot see which content change is applied (calls: %s)" % sorted(names), "%s:%s" % (hf.file, u.get("ln")))

