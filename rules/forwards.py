"""Three small contracts between the server, the library graph and the scratch graphs built from it (C09 / C17 / C20):

  * `<&Server as ActionContext>::{key_of, collect, squash, random_key, patch}` are plain forwards to the library graph: they add no fallback of their own.  An unknown key must fail the
    request (the graph panics, the dispatcher answers with an error, nothing is edited); an empty tree made up for it lets the inline actions "inline" nothing and delete a note that
    does not exist.
  * `Graph::new_patch` hands out an EMPTY graph that only knows the options and the front matter: a patch that also copies `keys` (or the arena, the index, the line tables) has keys whose
    roots live in another arena - trees of two graphs are no longer disjoint, `keys()` / `export()` of the patch name notes it never built.
  * `Graph::build_key_from_iter` (the way a squashed / collected tree is written into a scratch graph) does not record a title for the key it builds: the scratch graph must not relabel
    the links that point back at that note with the first heading of the *squashed* text."""
from vlib import factbase as fb
from vlib import q
from .common import ctx, loc, pname, delegates_to

FORWARDS = {
    "key_of": None,                       # node(id).node_key(): two calls, checked for the absence of fallbacks only
    "collect": "GraphContext::collect",
    "squash": "GraphContext::squash",
    "random_key": "GraphContext::random_key",
    "patch": "Graph::new_patch",
}
FALLBACKS = ("unwrap_or", "unwrap_or_else", "unwrap_or_default", "map_or", "map_or_else", "or", "or_else", "ok")


def rule_context_forwards(facts, rep, rid):
    n = 0
    for name, target in sorted(FORWARDS.items()):
        f = facts.fn("ActionContext>::" + name)
        rep.saw_fn(f)
        n += 1
        key = f.def_ + "|plain-forward"
        fall = [x["name"] for x in fb.walk(f.body) if x.get("k") == "mcall" and x["name"] in FALLBACKS]
        made = [x for x in fb.walk(f.body) if x.get("k") == "struct" and fb.norm(x.get("def", "")).endswith(("tree::Tree", "model::Key"))]
        branches = [x for x in fb.walk(f.body) if x.get("k") in ("if", "match") and x.get("src", "Normal") == "Normal"]
        calls = [fb.callee(x) or fb.rcallee(x) or "" for x in fb.walk(f.body) if x.get("k") in ("call", "mcall")]
        probs = []
        if fall:
            probs.append("a fallback (`%s`)" % fall[0])
        if made:
            probs.append("a value made up on the spot (`%s { .. }`)" % fb.last_seg(fb.norm(made[0]["def"])))
        if branches:
            probs.append("a branch of its own")
        if target and not any(c_.endswith(target) or c_.endswith(target.split("::")[-1]) for c_ in calls):
            probs.append("no call of %s" % target)
        if probs:
            rep.violation(rid, key, "<&Server as ActionContext>::%s is no longer a plain forward to the library graph: it has %s - an unknown key / node no longer fails the request, the action "
                          "runs on something that is not in the library" % (name, ", ".join(probs)), f.loc)
        else:
            rep.ok(rid, key, "forwards to the graph, no fallback", f.loc)
    rep.floor(rid, "ActionContext forwards of &Server", n, 5)


def rule_patch_is_empty(facts, rep, rid):
    f = facts.fn("Graph::new_patch")
    rep.saw_fn(f)
    key = f.def_ + "|starts-empty"
    lits = [x for x in fb.walk(f.body) if x.get("k") == "struct" and fb.norm(x.get("def", "")).endswith("graph::Graph")]
    allowed = {"markdown_options", "metadata"}
    if len(lits) != 1:
        # built through a constructor: whatever it calls, it must not read the structural fields of `self`
        reads = sorted(set(x["name"] for x in fb.walk(f.body) if x.get("k") == "field" and x.get("name") not in allowed and (x.get("e") or {}).get("name") == "self"))
        if reads:
            rep.violation(rid, key, "Graph::new_patch reads self.%s: the patch graph is not empty / shares structure with the library" % ", self.".join(reads), f.loc)
        else:
            rep.ok(rid, key, "only options and front matter are taken from the library", f.loc)
        return
    extra = sorted(fl["name"] for fl in lits[0].get("fields", []) if fl["name"] not in allowed)
    if extra:
        rep.violation(rid, key, "Graph::new_patch copies `%s` from the library: the patch's keys / nodes point into another graph's arena (two graphs claim one tree; `keys()`, `export()` and "
                      "`maybe_key` of the patch answer for notes it never built)" % "`, `".join(extra), loc(f, lits[0]))
    else:
        rep.ok(rid, key, "Graph { markdown_options, metadata, ..Default::default() }", loc(f, lits[0]))


def rule_scratch_graph_has_no_titles(facts, rep, rid):
    from .c16 import _field_effects
    f = facts.fn("Graph::build_key_from_iter")
    rep.saw_fn(f)
    key = f.def_ + "|records-no-title"
    _reads, direct_w = _field_effects(facts)
    cg = facts.callgraph
    seen, todo, hit = set(), [f.def_], None
    while todo:
        d = todo.pop()
        if d in seen:
            continue
        seen.add(d)
        if "keys_to_ref_text" in direct_w.get(d, ()):
            hit = d
            break
        for cal in cg.edges.get(d, ()):
            if cal.startswith(("liwe::", "<liwe::", "<&liwe::")) and len(seen) < 400:
                todo.append(cal)
    if hit:
        rep.violation(rid, key, "Graph::build_key_from_iter reaches %s, which writes Graph.keys_to_ref_text: the scratch graph learns a title for the key it builds (the first heading of the "
                      "squashed text), and every link back to that note - kept references and inline links alike - is relabelled with it on export" % fb.last2(hit), f.loc)
    else:
        rep.ok(rid, key, "no fn reachable from build_key_from_iter writes the title cache (%d fns)" % len(seen), f.loc)
