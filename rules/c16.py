"""C16 - results do not depend on thread count, load order or hash seeds.

R1 hash-order taint: every iteration over a std HashMap/HashSet is a *source*; its value is followed through method chains, locals,
closures and fn returns (interprocedural fixpoint) until it meets an order-insensitive sink (collect into a map/set, len/any/all/...,
a total sort) or an order-sensitive use.  The *fate* of every source is computed; fates outside the OK set must be in the audited table
below with exactly that fate, so deleting a `.sorted()` (fate changes) is reported.
R2 rayon discipline, R3 explicit nondeterminism is confined.
"""
import re

from vlib import factbase as fb
from vlib import q
from .common import ctx, loc, strip_refs

HASH_TY = re.compile(r"^(std::collections::(hash::map::|hash::set::|hash_map::|hash_set::)?(HashMap|HashSet)|hashbrown::\w+::(HashMap|HashSet))<")
ITER_METHODS = {"iter", "iter_mut", "keys", "values", "values_mut", "into_iter", "drain", "par_iter", "into_par_iter", "into_keys",
                "into_values", "par_iter_mut", "par_drain"}
UNORDERED_RESULT = re.compile(r"^(std::collections::(hash::map::|hash::set::|btree::map::|btree::set::|hash_map::|hash_set::)?(HashMap|HashSet|BTreeMap|BTreeSet))<")

SINK_OK = {"len", "count", "is_empty", "contains", "contains_key", "any", "all", "sum", "product", "min", "max", "min_by_key", "max_by_key",
           "min_by", "max_by", "get", "get_mut", "is_some", "is_none", "eq", "ne"}
SORT_TOTAL = {"sorted", "sort", "sorted_unstable", "sort_unstable"}
SORT_BY = {"sorted_by", "sorted_by_key", "sort_by", "sort_by_key", "sorted_unstable_by", "sorted_unstable_by_key", "sort_unstable_by", "sort_unstable_by_key",
           "sorted_by_cached_key", "sort_by_cached_key"}
ORDER_SENSITIVE = {"first", "last", "next", "nth", "find", "find_map", "position", "take", "skip", "step_by", "take_while", "skip_while",
                   "find_any", "find_first", "reduce", "fold", "try_fold", "last_mut", "first_mut", "pop", "nth_back", "next_back", "rposition"}
PRESERVE = {"map", "filter", "filter_map", "cloned", "copied", "iter", "into_iter", "par_iter", "into_par_iter", "chain", "flat_map",
            "flatten", "enumerate", "rev", "collect_vec", "unique", "dedup", "peekable", "inspect", "to_vec", "clone", "as_ref", "as_mut",
            "unwrap_or", "unwrap_or_default", "unwrap_or_else", "unwrap", "expect", "to_owned", "into", "as_slice", "iter_mut", "zip",
            "map_or", "and_then", "ok", "flat_map_iter", "join", "concat", "to_string", "unique_by", "dedup_by_key", "borrow", "deref", "by_ref",
            "into_boxed_slice", "as_deref", "then", "or", "or_else", "map_while", "scan", "interleave", "merge"}


def is_hash_ty(t):
    t = strip_refs(t or "")
    return bool(HASH_TY.match(t))


def is_unordered_result(t):
    t = strip_refs(t or "")
    return bool(UNORDERED_RESULT.match(t))


class Taint:
    def __init__(self, facts):
        self.facts = facts
        self.tainted_fns = {}     # def -> reason
        self.records = []         # (fn, source node, descr, fates)

    # ---- sources

    def sources(self, f):
        out = []
        for x in fb.walk(f.body):
            k = x.get("k")
            if k == "mcall":
                if x["name"] in ITER_METHODS and (is_hash_ty(x.get("rty")) or is_hash_ty(x.get("rtya"))):
                    out.append((x, "%s.%s()" % (fb.show(x["recv"])[:40], x["name"]), "hash-iter"))
                    continue
                cal = fb.callee(x)
                rc = fb.rcallee(x)
                for c_ in (rc, cal):
                    if c_ in self.tainted_fns:
                        out.append((x, "%s(..) [returns hash-ordered data]" % fb.last2(c_), "tainted-call"))
                        break
            elif k == "call":
                cal = fb.callee(x)
                if cal and cal.endswith("IntoIterator::into_iter") and x["args"] and is_hash_ty(x["args"][0].get("ty")):
                    out.append((x, "for _ in %s" % fb.show(x["args"][0])[:40], "hash-iter"))
                    continue
                rc = fb.rcallee(x)
                for c_ in (rc, cal):
                    if c_ in self.tainted_fns:
                        out.append((x, "%s(..) [returns hash-ordered data]" % fb.last2(c_), "tainted-call"))
                        break
        return out

    # ---- fate of a tainted value

    def _closure_fate(self, f, c, p, seen, depth, hops=0):
        """Where does the value a closure returns go?  `p` is the closure, or a use of the local it was bound to (`let handler = |..| ..; x.map(handler)`)."""
        gp = c.parent_of.get(id(p))
        if gp is not None and gp.get("k") in ("mcall", "call"):
            name = gp.get("name", "")
            if name in ("sorted_by", "sorted_by_key", "sort_by", "sort_by_key", "filter", "any", "all", "position", "find", "take_while", "skip_while", "retain", "max_by_key", "min_by_key"):
                return {"ok:predicate/key-only"}
            if name in ("for_each", "inspect", "try_for_each"):
                return {"ok:dropped"}
            return self.fate(f, c, gp, seen, depth + 1)
        if gp is not None and gp.get("k") == "let" and gp.get("init") is p and (gp.get("pat") or {}).get("k") == "p_bind" and hops < 3:
            out = set()
            for use in fb.local_uses(f.body, gp["pat"]["id"]):
                out |= self._closure_fate(f, c, use, seen, depth + 1, hops + 1)
            return out or {"ok:unused"}
        return {"escapes:closure"}

    def fate(self, f, c, node, seen, depth=0):
        """Set of fate strings for the tainted value produced by `node`."""
        if depth > 60 or id(node) in seen:
            return set()
        seen.add(id(node))
        p = c.parent_of.get(id(node))
        if p is None:
            # node is the fn body itself
            return {"returns"}
        k = p.get("k")
        if k == "mcall":
            if p.get("recv") is node:
                name = p["name"]
                if name in SINK_OK:
                    return {"ok:" + name}
                if name in SORT_TOTAL:
                    return {"ok:sorted"}
                if name in SORT_BY:
                    sk = self.sort_key(p)
                    if sk == "0" and self._is_map_entries(node):
                        return {"ok:sorted-by-map-key"}
                    return {"sorted-by-key(%s)" % sk}
                if name in ("collect", "collect_into_vec", "from_iter", "extend", "par_extend"):
                    if is_unordered_result(p.get("ty")):
                        return {"ok:collect-into-map/set"}
                    return self.fate(f, c, p, seen, depth + 1)
                if name in ("for_each", "try_for_each"):
                    # try_for_each = for_each that stops at the first Err: the same per-element effects as a `for` loop with `?`
                    return self.effects(f, c, p["args"][0]["body"] if p["args"] and p["args"][0].get("k") == "closure" else p, seen, depth)
                if name in ORDER_SENSITIVE:
                    return {"order-sensitive:" + name}
                # PRESERVE or unknown: keep following
                return self.fate(f, c, p, seen, depth + 1)
            # node is an argument of a method call
            name = p["name"]
            recv_t = p.get("rty") or ""
            if name in ("extend", "par_extend", "insert", "entry", "append", "push", "push_str", "extend_from_slice"):
                if is_unordered_result(recv_t):
                    return {"ok:into-map/set"}
                # vec.extend(tainted): the receiver becomes tainted
                return self.fate_of_place(f, c, p["recv"], seen, depth + 1) | {"into:" + fb.show(p["recv"])[:30]} - {"into:" + fb.show(p["recv"])[:30]}
            if name in ("chain", "zip", "interleave", "merge", "or", "unwrap_or"):
                return self.fate(f, c, p, seen, depth + 1)
            return {"escapes:arg-of-%s" % name}
        if k == "call":
            cal = fb.callee(p) or ""
            if p.get("f") is node:
                return set()
            if cal.endswith("IntoIterator::into_iter"):
                # for-loop desugaring: `match into_iter(X) { mut iter => loop { match next(&mut iter) { Some(pat) => body } } }`
                m = c.parent_of.get(id(p))
                if m is not None and m.get("k") == "match" and m.get("src") == "ForLoopDesugar":
                    return self.effects(f, c, m, seen, depth)
                return self.fate(f, c, p, seen, depth + 1)
            if p.get("ctor") or fb.last_seg(cal) in ("Some", "Ok", "Err", "from", "new", "catch_unwind"):
                return self.fate(f, c, p, seen, depth + 1)
            if cal.endswith(("HashSet::from_iter", "HashMap::from_iter", "FromIterator::from_iter")) and is_unordered_result(p.get("ty")):
                return {"ok:collect-into-map/set"}
            if p.get("m") and ("format" in p["m"] or "print" in p["m"] or "write" in p["m"]):
                return {"formatted"}
            return {"escapes:arg-of-%s" % fb.last2(cal)}
        if k in ("let", "letx"):
            out = set()
            for name, lid in fb.pat_bindings(p["pat"]):
                for use in fb.local_uses(f.body, lid):
                    out |= self.fate(f, c, use, seen, depth + 1)
            return out or {"ok:unused"}
        if k == "closure":
            # value returned from a closure: flows into whatever consumes the closure
            return self._closure_fate(f, c, p, seen, depth)
        if k == "block":
            if p.get("e") is node:
                return self.fate(f, c, p, seen, depth + 1)
            return {"ok:dropped"}   # statement position
        if k == "if":
            if p.get("c") is node:
                return {"ok:condition"}
            return self.fate(f, c, p, seen, depth + 1)
        if k == "match":
            if p.get("e") is node and p.get("src") == "ForLoopDesugar":
                return self.effects(f, c, p, seen, depth)
            if p.get("e") is node:
                out = set()
                for arm in p["arms"]:
                    for name, lid in fb.pat_bindings(arm["pat"]):
                        for use in fb.local_uses(arm["body"], lid):
                            out |= self.fate(f, c, use, seen, depth + 1)
                return out or {"ok:matched-only"}
            return self.fate(f, c, p, seen, depth + 1)
        if k == "ret":
            return {"returns"}
        if k in ("field", "index", "addrof", "unary", "cast", "tup", "array", "struct"):
            if k == "struct":
                return {"stored-in-struct:" + fb.last2(fb.norm(p.get("def", "")))}
            return self.fate(f, c, p, seen, depth + 1)
        if k == "assign":
            if p.get("r") is node:
                return self.fate_of_place(f, c, p["l"], seen, depth + 1)
            return set()
        if k == "binary":
            return {"ok:compared"}
        if k == "loop":
            return {"ok:dropped"}
        return {"unknown-parent:" + str(k)}

    def fate_of_place(self, f, c, place, seen, depth):
        """A local / field was assigned or extended with tainted data: follow later reads of it."""
        base = place
        while base is not None and base.get("k") in ("field", "index", "addrof", "unary"):
            if base.get("k") == "field":
                fo = fb.show(base)
                if fo.startswith("self."):
                    return {"stored-in-field:" + fo}
            base = base.get("e")
        if base is not None and base.get("k") == "path" and base.get("res") == "local":
            out = set()
            for use in fb.local_uses(f.body, base["id"]):
                if use is base:
                    continue
                if use["s"][0] <= base["s"][0]:
                    continue
                out |= self.fate(f, c, use, seen, depth + 1)
            return out or {"ok:unused"}
        return {"stored:" + fb.show(place)[:40]}

    def effects(self, f, c, body, seen, depth):
        """A loop / for_each body runs once per element in hash order: classify its side effects."""
        out = set()
        for x in fb.walk(body):
            if x.get("k") == "mcall":
                name = x["name"]
                rt = x.get("rty") or ""
                if name in ("insert", "entry", "extend", "remove", "or_insert_with", "or_insert", "or_default"):
                    if is_unordered_result(rt) or name.startswith("or_"):
                        out.add("ok:into-map/set")
                        continue
                if name in ("push", "push_str", "extend", "append", "insert") and not is_unordered_result(rt):
                    recv = x["recv"]
                    out |= self.fate_of_place(f, c, recv, seen, depth + 1)
                    continue
            if x.get("k") in ("call", "mcall"):
                cal = fb.rcallee(x) or ""
                if x.get("m") and ("print" in x["m"] or "write" in x["m"]) and "format_args" not in (x.get("m") or "").split(">")[-1:]:
                    out.add("effect-in-hash-order:" + x["m"].split(">")[0])
                elif cal.startswith("liwe::fs::") or cal.startswith("std::fs::") or cal.startswith("std::io::"):
                    out.add("effect-in-hash-order:" + fb.last2(cal))
                elif cal in self.facts.fns and self._has_output_effect(cal):
                    out.add("effect-in-hash-order:" + fb.last2(cal))
        return out or {"ok:no-ordered-effect"}

    def _has_output_effect(self, d, _depth=0):
        fn = self.facts.fns.get(d)
        if fn is None or fn.body is None or _depth > 3:
            return False
        for x in fb.walk(fn.body):
            if x.get("k") in ("call", "mcall"):
                cal = fb.rcallee(x) or ""
                if cal.startswith(("std::fs::", "std::io::")):
                    return True
                if x.get("m") and x["m"].split(">")[0] in ("write", "writeln", "print", "println"):
                    return True
                if cal in self.facts.fns and cal != d and _depth < 2 and self._has_output_effect(cal, _depth + 1):
                    return True
        return False

    def _is_map_entries(self, node):
        """node is (a chain of order-preserving adaptors over) `.iter()` of a HashMap: elements are (key, value), keys unique."""
        x = node
        while x is not None and x.get("k") == "mcall":
            if x["name"] in ("iter", "into_iter", "par_iter") and is_hash_ty(x.get("rty")) and "HashMap" in (x.get("rty") or ""):
                return True
            if x["name"] in ("map",) and x["args"] and x["args"][0].get("k") == "closure":
                # identity-like re-tupling `|(k, v)| (k, v)` keeps the key in position 0
                b = x["args"][0]["body"]
                if not (b.get("k") == "tup" and len(b.get("es", [])) == 2):
                    return False
            elif x["name"] not in ("cloned", "copied", "collect_vec", "collect", "filter"):
                return False
            x = x.get("recv")
        return False

    def sort_key(self, p):
        """Describe the comparator of a sorted_by/sorted_by_key call (fields compared)."""
        fields = []
        for a in p.get("args", []):
            if a.get("k") == "closure":
                # `|(key, _)| *key` is `|a| a.0`: the binding the parameter pattern takes from tuple position 0
                b_ = a["body"]
                while b_ is not None and b_.get("k") in ("unary", "addrof", "block") and (b_.get("e") is not None):
                    b_ = b_.get("e")
                if b_ is not None and b_.get("k") == "mcall" and b_["name"] in ("clone", "to_owned", "as_str", "as_ref") and not b_.get("args"):
                    b_ = b_["recv"]
                    while b_ is not None and b_.get("k") in ("unary", "addrof"):
                        b_ = b_.get("e")
                if b_ is not None and b_.get("k") == "path" and b_.get("res") == "local" and len(a.get("params", [])) == 1:
                    pos = dict(q.pat_positions(a["params"][0], "cp0"))
                    if pos.get(b_["id"]) == "cp0>tuple.0":
                        return "0"
                for x in fb.walk(a["body"]):
                    if x.get("k") == "field" and x["name"] not in fields:
                        fields.append(x["name"])
                    if x.get("k") == "mcall" and x["name"] in ("ids", "len", "key", "label") and x["name"] not in fields:
                        fields.append(x["name"] + "()")
        return ",".join(fields) or "closure"

    # ---- fixpoint

    def run(self):
        fns = [f for f in self.facts.body_fns() if f.crate in ("liwe", "iwes", "iwe") and f.kind != "closure"]
        changed = True
        rounds = 0
        while changed and rounds < 8:
            changed = False
            rounds += 1
            self.records = []
            for f in fns:
                srcs = self.sources(f)
                if not srcs:
                    continue
                c = ctx(f)
                for node, descr, kind in srcs:
                    fates = self.fate(f, c, node, set())
                    self.records.append((f, node, descr, kind, fates))
                    if "returns" in fates and f.def_ not in self.tainted_fns:
                        self.tainted_fns[f.def_] = descr
                        if f.trait_item:
                            self.tainted_fns.setdefault(f.trait_item, descr)
                        changed = True
        return self.records


# audited (fn, fate) pairs that are not in the automatic OK set, with reasons
AUDITED = {
    ("liwe::graph::index::RefIndex::get_block_references_to", "returns"): "raw accessor; order is hash order by design - every consumer is checked as a tainted call site",
    ("liwe::graph::index::RefIndex::get_inline_references_to", "returns"): "raw accessor; see above",
    ("liwe::graph::Graph::get_block_references_to", "returns"): "filtered wrapper keeps hash order; consumers are checked",
    ("liwe::graph::Graph::get_inline_references_to", "returns"): "filtered wrapper keeps hash order; consumers are checked",
    ("liwe::graph::Graph::keys", "returns"): "Vec of keys in hash order; consumers are checked (completion sorts by label, random_key uses len)",
    ("liwe::graph::path::paths_for_node", "returns"): "Document arm enumerates referrers in hash order; graph_to_paths sorts the union totally",
    ("iwes::router::server::Server::handle_references", "sorted-by-key(uri)"): "locations are sorted by uri only, order inside one file follows hash order; C16 speaks of backlink *sets* (set-equal)",
    ("iwes::router::server::Server::handle_link_completion", "sorted-by-key(label)"): "completion items sorted by label; equal labels (notes with the same title) keep hash order - completion order is not an observable named by C16",
    ("iwes::router::server::Server::handle_plus_completions", "sorted-by-key(label)"): "as above",
    ("liwe::fs::write_store_at_path", "effect-in-hash-order:fs::write_file"): "one file write per entry: the order of writes varies, the set of files and their contents does not",
    ("<liwe::graph::Graph as std::fmt::Debug>::fmt", "effect-in-hash-order:Graph::node_fmt"): "Debug output only",
    ("iwes::router::server::action::all_action_types", "returns"): "order of configured custom actions in the offered list; not an observable named by C16",
    ("iwes::router::server::Server::handle_code_action", "returns"): "order of offered code actions (built-ins first, then configured ones in map order); not an observable named by C16",
    ("iwes::main", "stored-in-struct:lsp_types::CodeActionOptions"): "advertised action kinds in capability list; a set for the client",
    ("iwes::router::server::Server::handle_code_action_resolve", "order-sensitive:find"): "find by action kind over the offered actions; kinds are unique (built-ins are fixed, configured ones are keyed by their map key), so the match does not depend on order",
    ("iwes::router::Router::on_request", "stored-in-struct:lsp_server::Response"): "the code-action list of handle_code_action (see there): order of offered actions is not an observable named by C16",
    ("iwes::router::Router::on_request", "escapes:arg-of-Response::new_err"): "the Err side (error code, message) of handle_request's result; the taint engine does not separate Ok/Err payloads of a matched Result",
    ("iwes::router::Router::handle_request", "returns"): "the code-action list of handle_code_action (see there), serialised into the response value",
}


def rule_r1(facts, rep, rid="C16-R1"):
    t = Taint(facts)
    recs = t.run()
    n_src = 0
    counts = {}
    for f, node, descr, kind, fates in recs:
        rep.saw_fn(f)
        n_src += 1
        i = counts.get((f.def_, kind), 0)
        counts[(f.def_, kind)] = i + 1
        bad = []
        for ft in sorted(fates):
            if ft.startswith("ok:"):
                continue
            if (f.def_, ft) in AUDITED:
                continue
            bad.append(ft)
        key = "%s|%s|%d" % (f.def_, kind, i)
        if bad:
            rep.violation(rid, key + "|" + ",".join(bad), "hash-ordered data from `%s` reaches %s without passing an order-insensitive sink or a total sort: "
                          "the result depends on the process's hash seeds / insertion order" % (descr, ", ".join(bad)), loc(f, node))
        else:
            why = "; ".join(sorted(fates))
            rep.ok(rid, key, "%s -> %s" % (descr, why[:200]), loc(f, node))
    rep.floor(rid, "hash-order sources (direct iterations + calls of tainted fns)", n_src, 30)
    return t


def rule_r2(facts, rep, rid="C16-R2"):
    n = 0
    counts = {}
    for f in facts.body_fns():
        if f.crate not in ("liwe", "iwes", "iwe"):
            continue
        c = None
        for x in fb.walk(f.body):
            if x.get("k") == "mcall" and x["name"] in ("par_iter", "into_par_iter", "par_iter_mut", "par_bridge", "par_drain"):
                c = c or ctx(f)
                rep.saw_fn(f)
                n += 1
                i = counts.get(f.def_, 0)
                counts[f.def_] = i + 1
                key = "%s|par-chain|%d" % (f.def_, i)
                from .common import chain_up
                chain = chain_up(c, x)
                names = [m["name"] for m in chain]
                probs = []
                banned = [m for m in names if m in ("for_each", "reduce", "fold", "find_any", "find_first", "try_for_each", "for_each_with", "reduce_with", "position_any", "any", "sum")]
                banned = [b for b in banned if b not in ("any", "sum")]
                if banned:
                    probs.append("uses %s (order- or schedule-dependent combinator)" % banned)
                coll = [m for m in chain if m["name"] in ("collect", "collect_vec", "collect_into_vec")]
                if not coll:
                    probs.append("parallel chain does not end in an indexed collect")
                else:
                    ty = strip_refs(coll[0].get("ty") or "")
                    if not (ty.startswith("std::vec::Vec<") or is_unordered_result(ty)):
                        probs.append("collects into %s (neither an indexed Vec nor a map/set)" % ty[:60])
                # closures must not capture mutable / interior-mutable state
                for m in chain:
                    for a in m.get("args", []):
                        if a.get("k") == "closure":
                            for cap in a.get("caps", []):
                                ty = cap.get("ty", "")
                                if cap.get("mode") == "refmut" or any(z in ty for z in ("Mutex<", "RefCell<", "Atomic", "RwLock<", "Cell<")):
                                    probs.append("closure of .%s() captures %s: %s (%s)" % (m["name"], cap["name"], ty[:60], cap["mode"]))
                if probs:
                    rep.violation(rid, key, "; ".join(probs), loc(f, x))
                else:
                    rep.ok(rid, key, "chain: %s" % " -> ".join(names), loc(f, x))
    rep.floor(rid, "rayon chains", n, 6)
    # import: the input of the parallel parse is sorted before par_iter
    imp = facts.fn("Graph::import")
    c = ctx(imp)
    okp = False
    for x in fb.walk(imp.body):
        if x.get("k") == "mcall" and x["name"] == "par_iter":
            below = [y.get("name") for y in fb.walk(x["recv"]) if y.get("k") == "mcall"]
            if any(b in ("sorted_by", "sorted", "sorted_by_key", "sort") for b in below):
                okp = True
    if okp:
        rep.ok(rid, imp.def_ + "|sorted-before-parallel-parse", "keys are sorted before par_iter; the sequential build loop consumes them in that order", imp.loc)
    else:
        rep.violation(rid, imp.def_ + "|sorted-before-parallel-parse", "Graph::import no longer sorts the (hash-ordered) input before the parallel parse: node ids then depend on hash order", imp.loc)


NONDET = [
    ("rand::", {"<&liwe::graph::Graph as liwe::graph::GraphContext>::random_key"}, "random note names"),
    ("uuid::", {"iwes::router::Router::on_request", "iwes::router::Router::handle_request"}, "id of the server-initiated workspace/applyEdit request"),
    ("std::time::SystemTime::now", set(), ""),
    ("std::time::Instant::now", set(), ""),
    ("std::fs::read_dir", {"liwe::fs::new_for_path_rec"}, "directory listing flows into a State map (order-insensitive)"),
    ("std::thread::current", set(), ""),
    ("std::process::id", set(), ""),
    ("std::collections::hash_map::RandomState::new", set(), ""),
]


def rule_r3(facts, rep, rid="C16-R3"):
    for prefix, allowed, why in NONDET:
        hits = {}
        for f in facts.body_fns():
            if f.crate not in ("liwe", "iwes", "iwe"):
                continue
            for x in fb.calls_in(f.body, lambda p: p.startswith(prefix)):
                hits.setdefault(f.def_, []).append(x)
                rep.saw_fn(f)
        for d, xs in hits.items():
            key = "%s|uses:%s" % (d, prefix.rstrip(":"))
            f = facts.fns[d]
            if d in allowed:
                rep.ok(rid, key, why, loc(f, xs[0]))
            else:
                rep.violation(rid, key, "explicit nondeterminism source %s* used outside its audited place(s) %s" % (prefix, sorted(allowed)), loc(f, xs[0]))
        if not hits:
            rep.ok(rid, "none|uses:%s" % prefix.rstrip(":"), "no use in the workspace", nontrivial=False)


# ------------------------------------------------------------------------------------------ R4 comparators

def _cmp_param_sets(cl):
    """For a 2-parameter comparator closure: for every `x.cmp(&y)` / `partial_cmp` / `==`/`<` inside, which closure parameters each side mentions."""
    params = []
    for p in cl.get("params", []):
        params.append(set(lid for _n, lid in fb.pat_bindings(p)))
    if len(params) != 2:
        return None
    out = []

    def side(e):
        got = set()
        for y in fb.walk(e):
            if y.get("k") == "path" and y.get("res") == "local":
                if y["id"] in params[0]:
                    got.add(0)
                if y["id"] in params[1]:
                    got.add(1)
        return got
    # locals defined inside the closure from one parameter count as that parameter
    binds = {}
    for y in fb.walk(cl["body"]):
        if y.get("k") == "let" and y.get("init") is not None:
            sset = side(y["init"])
            for _n, lid in fb.pat_bindings(y["pat"]):
                binds[lid] = sset

    def side2(e):
        got = side(e)
        for y in fb.walk(e):
            if y.get("k") == "path" and y.get("res") == "local" and y["id"] in binds:
                got |= binds[y["id"]]
        return got
    for y in fb.walk(cl["body"]):
        if y.get("k") == "mcall" and y["name"] in ("cmp", "partial_cmp", "total_cmp", "eq", "ne", "lt", "gt", "le", "ge") and y["args"]:
            out.append((y, side2(y["recv"]), side2(y["args"][0])))
        if y.get("k") == "binary" and y["op"] in ("==", "!=", "<", ">", "<=", ">="):
            out.append((y, side2(y["l"]), side2(y["r"])))
    return out


def rule_r4(facts, rep, rid="C16-R4"):
    n = 0
    for f in facts.body_fns():
        if f.crate not in ("liwe", "iwes", "iwe") or f.kind == "closure" or "::tests::" in f.def_ or "::test::" in f.def_:
            continue
        counts = {}
        for x in fb.walk(f.body):
            if x.get("k") != "mcall" or x["name"] not in ("sorted_by", "sort_by", "sort_unstable_by", "max_by", "min_by", "binary_search_by", "sorted_unstable_by", "dedup_by"):
                continue
            cls = [a for a in x["args"] if a.get("k") == "closure"]
            if not cls:
                continue
            i = counts.get(x["name"], 0)
            counts[x["name"]] = i + 1
            sets = _cmp_param_sets(cls[0])
            if sets is None:
                continue
            rep.saw_fn(f)
            for j, (node, l, r) in enumerate(sets):
                if not l and not r:
                    continue        # comparison between things that are not elements (e.g. `query.is_empty()`, `primary == Equal`)
                n += 1
                key = "%s|%s:%d|cmp:%d" % (f.def_, x["name"], i, j)
                if (l == {0} and r == {1}) or (l == {1} and r == {0}):
                    rep.ok(rid, key, "compares the two elements (%s)" % fb.show(node)[:70], loc(f, node))
                elif l == r and len(l) == 1:
                    rep.violation(rid, key, "degenerate comparison `%s`: both operands come from the same element, so this level of the ordering is always Equal and the "
                                  "result order falls back to the input order (insertion / load history, hash order)" % fb.show(node)[:90], loc(f, node))
                elif not l or not r:
                    rep.ok(rid, key, "compares an element with a constant (%s)" % fb.show(node)[:60], loc(f, node), nontrivial=False)
                else:
                    rep.undecided(rid, key, "comparison mixes both elements on one side: %s" % fb.show(node)[:80], loc(f, node))
    rep.floor(rid, "element comparisons inside comparator closures", n, 8)


# ------------------------------------------------------------------------------------------ R6 loop-carried dependence in hash-ordered loops

def _field_effects(facts):
    """Per fn (liwe): fields of Graph read / written directly; closed transitively over the call graph for reads."""
    G = "liwe::graph::Graph"
    direct_r, direct_w = {}, {}
    for f in facts.body_fns():
        if f.crate != "liwe":
            continue
        owner = f.parent if f.kind == "closure" and f.parent else f.def_
        r = direct_r.setdefault(owner, set())
        w = direct_w.setdefault(owner, set())
        for x in fb.walk(f.body):
            if x.get("k") == "field" and fb.norm(strip_refs(fb.tnorm(x.get("bty") or ""))) == G:
                r.add(x["name"])
            if x.get("k") == "mcall" and x["name"] in ("insert", "remove", "extend", "entry", "clear", "retain", "push"):
                rc = x["recv"]
                while rc is not None and rc.get("k") in ("addrof", "unary"):
                    rc = rc["e"]
                if rc is not None and rc.get("k") == "field" and fb.norm(strip_refs(fb.tnorm(rc.get("bty") or ""))) == G:
                    w.add(rc["name"])
    cg = facts.callgraph
    memo = {}

    def reads(fn_def, depth=0, stack=()):
        if fn_def in memo:
            return memo[fn_def]
        if depth > 8 or fn_def in stack:
            return set(direct_r.get(fn_def, ()))
        out = set(direct_r.get(fn_def, ()))
        for cal in cg.edges.get(fn_def, ()):
            if cal.startswith(("liwe::", "<liwe::", "<&liwe::")):
                out |= reads(cal, depth + 1, stack + (fn_def,))
        memo[fn_def] = out
        return out
    return reads, direct_w


def _tainted_fns(facts):
    t = getattr(facts, "_c16_taint", None)
    if t is None:
        t = Taint(facts)
        t.run()
        facts._c16_taint = t
    return t.tainted_fns


def rule_r6(facts, rep, rid="C16-R6"):
    reads, direct_w = _field_effects(facts)
    n = 0
    for f in facts.body_fns():
        if f.crate != "liwe" or f.kind == "closure" or "::tests::" in f.def_ or "::test::" in f.def_:
            continue
        li = 0
        for x in fb.walk(f.body):
            if not (x.get("k") == "match" and x.get("src") == "ForLoopDesugar"):
                continue
            it = x["e"]
            arg = it["args"][0] if it.get("k") == "call" and it.get("args") else it
            tys = [arg.get("ty")] + [y.get("ty") for y in fb.walk(arg)] + [y.get("rty") for y in fb.walk(arg) if y.get("k") == "mcall"]
            if not any(is_hash_ty(t) for t in tys if t):
                # ... or a sequence that a fn of the workspace filled in hash order (`for key in graph.keys()` where keys() collects the map's keys into a Vec)
                tf = _tainted_fns(facts)
                if not any(y.get("k") in ("call", "mcall") and ((fb.rcallee(y) or "") in tf or (fb.callee(y) or "") in tf) for y in fb.walk(arg)):
                    continue
            # writes in the loop body (directly, incl. closures) and reads through callees
            written = set()
            read = set()
            for y in fb.walk(x):
                if y.get("k") == "mcall" and y["name"] in ("insert", "remove", "extend", "entry", "push"):
                    rc = y["recv"]
                    while rc is not None and rc.get("k") in ("addrof", "unary"):
                        rc = rc["e"]
                    if rc is not None and rc.get("k") == "field" and fb.norm(strip_refs(fb.tnorm(rc.get("bty") or ""))).endswith("graph::Graph"):
                        written.add(rc["name"])
                        continue
                if y.get("k") in ("call", "mcall"):
                    cal = fb.rcallee(y) or fb.callee(y)
                    if cal and cal.startswith(("liwe::", "<liwe::", "<&liwe::")):
                        read |= reads(cal)
            if not written:
                continue
            n += 1
            key = "%s|hash-ordered-loop:%d|no-loop-carried-dependence" % (f.def_, li)
            li += 1
            dep = written & read
            if dep:
                rep.violation(rid, key, "the loop iterates a hash container (order = hash seed) and each iteration writes Graph.%s, which the calls made in the same loop body also read: what an "
                              "iteration computes depends on which keys were processed before it, so the result (titles, exported text) varies with the hash seed and the insert history" % sorted(dep), loc(f, x))
            else:
                rep.ok(rid, key, "writes %s; the calls in the body read only %s" % (sorted(written), sorted(read)[:6]), loc(f, x))
    rep.floor(rid, "hash-ordered loops that write graph state", n, 1)


def _self_other_field(e):
    """`self.f` / `other.f` / `&self.f` -> ('self'|'other'|name, field)"""
    while e is not None and e.get("k") in ("addrof", "unary"):
        e = e["e"]
    if e is not None and e.get("k") == "field":
        b = e["e"]
        while b is not None and b.get("k") in ("addrof", "unary"):
            b = b["e"]
        if b is not None and b.get("k") == "path" and b.get("res") == "local":
            return (b.get("name"), e["name"])
    return None


def rule_r8(facts, rep, rid="C16-R8", only=None, floor=6):
    """Sorting and de-duplicating with the natural order (`sorted()`, `sort()`, `dedup()`, BTree keys) removes the hash order only if that order is total *and* agrees with ==:
    two different values that compare Equal keep their incoming (hash) order under a stable sort and are not adjacent for dedup.  Derived Ord/PartialOrd on a type with derived
    PartialEq is the lexicographic order over all fields, which is.  A hand-written order is accepted only if it visibly is that order: a chain of `self.f.cmp(&other.f)` over every
    field of the type, each field compared with itself, nothing else compared."""
    n = 0
    ordered = {}
    for i in facts.impls:
        t = fb.last_seg(i.get("trait") or "")
        if t in ("Ord", "PartialOrd", "PartialEq", "Eq", "Hash") and (i.get("unit") or "").split("-")[0] in ("liwe", "iwes", "iwe") and "::tests::" not in (i.get("self") or ""):
            ordered.setdefault(i["self"], {})[t] = i
    for ty, tr in sorted(ordered.items()):
        if "Ord" not in tr and "PartialOrd" not in tr:
            continue
        for t in ("Ord", "PartialOrd", "PartialEq", "Hash"):
            if t not in tr:
                continue
            if only and fb.last_seg(ty) not in only:
                continue
            n += 1
            key = "%s|%s" % (ty, t)
            i = tr[t]
            if i.get("derived"):
                rep.ok(rid, key, "derived (lexicographic over all fields, consistent with the derived ==)", "%s:%s" % (i.get("file"), i.get("line")))
                continue
            if t == "Hash":
                adt_h = facts.adts.get(ty)
                fields_h = [fl["name"] for v in (adt_h or {}).get("variants", []) for fl in v.get("fields", [])] if adt_h and adt_h.get("kind") == "struct" else None
                hf = [f for f in facts.body_fns() if f.def_.endswith("::hash") and (f.impl_self or "") == ty and fb.last_seg(f.impl_trait or "").startswith("Hash")]
                if fields_h is not None and len(hf) == 1:
                    rep.saw_fn(hf[0])
                    hs = [y for y in fb.walk(hf[0].body) if y.get("k") in ("mcall", "call") and (y.get("name") == "hash" or (fb.callee(y) or "").endswith("Hash::hash"))]
                    got = []
                    for y in hs:
                        so = _self_other_field(y.get("recv") if y.get("k") == "mcall" else (y.get("args") or [None])[0])
                        got.append(so[1] if so and so[0] == "self" else None)
                    others = [y for y in fb.walk(hf[0].body) if y.get("k") in ("mcall", "call") and y not in hs]
                    if got == fields_h and not others:
                        rep.ok(rid, key, "hand-written, hashes every field %s in declaration order (what the derive does)" % fields_h, "%s:%s" % (i.get("file"), i.get("line")))
                        continue
                rep.violation(rid, key, "%s has a hand-written Hash next to its order and ==: the three notions of `same value` (hash + ==, order) can disagree - map lookups, sort and dedup "
                              "then treat different values as one or one value as two" % fb.last_seg(ty), "%s:%s" % (i.get("file"), i.get("line")))
                continue
            if t == "PartialEq":
                adt_e = facts.adts.get(ty)
                fields_e = [fl["name"] for v in (adt_e or {}).get("variants", []) for fl in v.get("fields", [])] if adt_e and adt_e.get("kind") == "struct" else None
                ef = [f for f in facts.body_fns() if f.def_.endswith("::eq") and (f.impl_self or "") == ty and fb.last_seg(f.impl_trait or "").startswith("PartialEq")]
                if fields_e is not None and len(ef) == 1:
                    rep.saw_fn(ef[0])
                    cmps = [y for y in fb.walk(ef[0].body) if (y.get("k") == "binary" and y["op"] == "==") or (y.get("k") == "mcall" and y["name"] == "eq" and y.get("args"))]
                    got = set()
                    plain = True
                    for y in cmps:
                        l = _self_other_field(y["l"] if y.get("k") == "binary" else y["recv"])
                        r = _self_other_field(y["r"] if y.get("k") == "binary" else y["args"][0])
                        if l is None or r is None or l[1] != r[1] or l[0] == r[0]:
                            plain = False
                        else:
                            got.add(l[1])
                    rest = [y for y in fb.walk(ef[0].body) if (y.get("k") in ("mcall", "call", "if", "match", "unary") and y not in cmps) or (y.get("k") == "binary" and y["op"] not in ("==", "&&"))]
                    if plain and got == set(fields_e) and not rest:
                        rep.ok(rid, key, "hand-written, compares every field %s for equality (what the derive does)" % sorted(got), "%s:%s" % (i.get("file"), i.get("line")))
                        continue
                rep.violation(rid, key, "%s has a hand-written == next to its order: `a == b` and `a.cmp(b) == Equal` can disagree, and then sort + dedup neither orders nor "
                              "de-duplicates the hash-ordered input" % fb.last_seg(ty), "%s:%s" % (i.get("file"), i.get("line")))
                continue
            adt = facts.adts.get(ty)
            fields = [fl["name"] for v in (adt or {}).get("variants", []) for fl in v.get("fields", [])] if adt and adt.get("kind") == "struct" else None
            meth = "cmp" if t == "Ord" else "partial_cmp"
            fns = [f for f in facts.body_fns() if f.def_.endswith("::" + meth) and (f.impl_self or "") == ty and fb.last_seg(f.impl_trait or "") == t]
            why = None
            if fields is None or len(fns) != 1:
                why = "its shape cannot be read (%d fns, %s)" % (len(fns), "struct" if fields is not None else "not a struct")
            else:
                f = fns[0]
                rep.saw_fn(f)
                calls = [y for y in fb.walk(f.body) if (y.get("k") == "mcall" and y["name"] in ("cmp", "partial_cmp", "total_cmp") and y.get("args")) or
                         (y.get("k") == "binary" and y["op"] in ("<", ">", "<=", ">=", "==", "!="))]
                seen = []
                delegates = t == "PartialOrd" and any(y.get("k") in ("mcall", "call") and (fb.callee(y) or "").endswith("::cmp") and _self_other_field(y.get("recv") or {}) is None
                                                      for y in fb.walk(f.body)) and "Ord" in tr
                if delegates and len(calls) == 1:
                    rep.ok(rid, key, "partial_cmp = Some(self.cmp(other))", f.loc)
                    continue
                for y in calls:
                    l = _self_other_field(y["recv"] if y.get("k") == "mcall" else y["l"])
                    r = _self_other_field(y["args"][0] if y.get("k") == "mcall" else y["r"])
                    if l is None or r is None or l[1] != r[1] or l[0] == r[0]:
                        why = "it compares `%s`, which is not a field of one value against the same field of the other" % fb.show(y)[:60]
                        break
                    seen.append(l[1])
                if why is None and seen != fields:
                    why = "it compares %s while the type's fields are %s: values that differ elsewhere compare Equal" % (seen, fields)
            if why:
                rep.violation(rid, key, "hand-written %s for %s is not visibly the lexicographic order over all its fields (%s); `sorted()` / `dedup()` on hash-ordered %ss then leave ties in hash "
                              "order and duplicates apart" % (t, fb.last_seg(ty), why, fb.last_seg(ty)), "%s:%s" % (i.get("file"), i.get("line")))
            else:
                rep.ok(rid, key, "hand-written, lexicographic over all fields %s" % fields, "%s:%s" % (i.get("file"), i.get("line")))
    rep.floor(rid, "Ord / PartialOrd / PartialEq / Hash impls of ordered workspace types", n, floor)


def run(facts, rep, tier):
    rep.rule("C16-R1", "Hash-order taint: every iteration over a HashMap/HashSet (and every call of a fn returning such data) must end in an "
             "order-insensitive sink (collect into map/set, len/any/all/contains/min/max, total sort) before it reaches a return value, "
             "formatted output, a struct or an ordered side effect; other fates must be in the audited table with exactly that fate.")
    rep.rule("C16-R2", "Rayon discipline: every parallel chain ends in an indexed collect (Vec) or a map/set, uses no schedule-dependent "
             "combinator, its closures capture no mutable/interior-mutable state; Graph::import sorts its input before the parallel parse.")
    rep.rule("C16-R3", "Explicit nondeterminism (rand, uuid, clocks, read_dir, thread/process ids) is confined to its audited places.")
    rule_r1(facts, rep)
    rule_r2(facts, rep)
    rule_r3(facts, rep)
    rep.rule("C16-R4", "Comparator sanity: inside every comparator closure (sorted_by / sort_by / max_by ...) each comparison relates the first element to the second; a comparison "
             "whose operands both come from the same element makes that level constant, so ties are broken by input order (load/insert history, hash order).")
    rule_r4(facts, rep)
    rep.rule("C16-R6", "No loop-carried dependence in hash-ordered loops: a loop over a HashMap/HashSet that writes a field of Graph must not (transitively) read that same field in its body - "
             "otherwise each iteration sees the effects of the ones the hash order happened to put before it.")
    rule_r6(facts, rep)
    rep.rule("C16-R5", "= C18-R1: the path enumeration walks the referrers of a note in hash order; its result is a *set* independent of that order only if the visited set is a stack "
             "discipline (insert on entry, remove on exit): a persistent visited set lets the first branch explored consume shared ancestors, so which paths exist depends on the hash seed.")
    from . import c18
    c18.rule_r1(facts, rep, "C16-R5")
    rep.rule("C16-R7", "= C04-R6: notes inserted one by one end up with the index a bulk load builds, whatever the order: per-note indexes are merged by per-key union.")
    from . import c04 as _c04
    _c04.rule_r6(facts, rep, "C16-R7")
    rep.rule("C16-R8", "The natural order used by sorted() / sort() / dedup() is total and agrees with ==: Ord, PartialOrd and PartialEq of every ordered workspace type (NodePath, Key, Position) "
             "are derived, or a hand-written order visibly compares every field with itself in declaration order.")
    rule_r8(facts, rep)
    rep.rule("C16-R7b", "= C04-R2: a note that arrives by insert / edit is indexed from its root only, a bulk load indexes every arena slot: both give the same backlinks only if the index walker "
             "follows every `child` and `next` link of every node kind.")
    _c04.rule_r2(facts, rep, "C16-R7b")
    rep.rule("C16-R9", "= C18-R4 (ties): paths that tie on rank and key are ordered by their rendered text, not by node ids - ids follow the order in which notes were inserted or edited.")
    c18.rule_search_ties(facts, rep, "C16-R9")
    rep.rule("C16-R7c", "= C04-R1 / C04-R6: whether a note arrived by bulk load, by insert or by a later edit, the references TO it are the same: only RefIndex's own methods and the two "
             "tombstone-filtering wrappers touch the index fields (an `update` that clears a key's entries forgets every other note's links to it - backlinks, ranks and search order "
             "then depend on which notes were edited).")
    _c04.rule_r1(facts, rep, "C16-R7c")

