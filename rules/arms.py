"""Match-arm x payload tables: which payload slots of an enum variant does an arm keep, and which does it drop.

A *slot* is a payload position of a variant: `Variant.0` (tuple position), `Variant.field` (struct-like variant) and,
when the payload is a local struct bound as a whole (`DocumentBlock::CodeBlock(code_block)`), the fields of that struct
(`CodeBlock.0>text`).  A slot is *kept* when the arm's body (or guard) reads it, *dropped* when it is matched with `_`,
elided with `..`, or bound and never read.
"""
from vlib import factbase as fb
from .common import strip_refs


def _peel(e):
    while e is not None and (e.get("k") in ("addrof", "cast") or (e.get("k") == "unary" and e.get("op") == "*")):
        e = e["e"]
    return e


def variant_fields(facts, variant_path):
    """[(slot name, type)] of a *local* enum variant / struct, else None."""
    if not variant_path:
        return None
    enum = variant_path.rsplit("::", 1)[0]
    a = facts.adts.get(enum)
    if a is not None:
        for v in a["variants"]:
            if v["path"] == variant_path:
                return [(f["name"], f["ty"]) for f in v["fields"]]
    a = facts.adts.get(variant_path)
    if a is not None and len(a["variants"]) == 1:
        return [(f["name"], f["ty"]) for f in a["variants"][0]["fields"]]
    return None


def struct_of_type(facts, ty):
    """Local struct ADT named by a type string (refs/generics stripped), else None."""
    t = fb.norm(strip_refs(fb.tnorm(ty) or ""))
    a = facts.adts.get(t)
    if a is not None and a.get("kind", "struct") != "enum" and len(a["variants"]) == 1:
        return a
    return None


def _getter_fields(facts, callee_def, depth=0):
    """Fields of `self` read by a local method (one level of local self-method calls followed)."""
    f = facts.fns.get(callee_def)
    if f is None or f.body is None or depth > 2:
        return None
    out = set()
    whole = False
    selfid = None
    if f.params:
        for name, lid in fb.pat_bindings(f.params[0]["pat"]):
            if name == "self":
                selfid = lid
    if selfid is None:
        return None
    for node, parents in fb.walk_with_parents(f.body):
        if node.get("k") == "path" and node.get("res") == "local" and node.get("id") == selfid:
            p = None
            for cand in reversed(parents):
                if cand.get("k") in ("addrof", "cast") or (cand.get("k") == "unary" and cand.get("op") == "*"):
                    continue
                p = cand
                break
            if p is not None and p.get("k") == "field":
                out.add(p["name"])
            elif p is not None and p.get("k") == "mcall" and _peel(p.get("recv")) is node:
                sub = _getter_fields(facts, fb.callee(p), depth + 1)
                if sub is None:
                    whole = True
                else:
                    out |= sub[0]
                    whole = whole or sub[1]
            else:
                whole = True
    return out, whole


def binding_use(facts, body_nodes, lid):
    """How is local `lid` used under the given nodes?  -> (fields read, used as a whole?, used at all?)"""
    fields = set()
    whole = False
    used = False
    for root in body_nodes:
        if root is None:
            continue
        for node, parents in fb.walk_with_parents(root):
            if node.get("k") == "path" and node.get("res") == "local" and node.get("id") == lid:
                used = True
                p = None
                for cand in reversed(parents):
                    if cand.get("k") in ("addrof", "cast") or (cand.get("k") == "unary" and cand.get("op") == "*"):
                        continue
                    p = cand
                    break
                if p is None:
                    whole = True
                elif p.get("k") == "field":
                    fields.add(p["name"])
                elif p.get("k") == "mcall" and _peel(p.get("recv")) is node:
                    g = _getter_fields(facts, fb.callee(p))
                    if g is None:
                        whole = True
                    else:
                        fields |= g[0]
                        whole = whole or g[1]
                else:
                    whole = True
    return fields, whole, used


def arm_slots(facts, arm, expand_structs=True):
    """Slots of an arm's pattern: list of dict(slot, state in kept|dropped, how, ty)."""
    out = []
    roots = [arm.get("body"), arm.get("guard")]

    def visit(p, prefix):
        k = p.get("k")
        if k in ("p_ref", "p_guard"):
            return visit(p.get("pat"), prefix)
        if k == "p_or":
            for qp in p.get("pats", []):
                visit(qp, prefix)
            return
        if k == "p_tstruct":
            v = fb.last2(fb.norm(p.get("def") or "?"))
            vf = variant_fields(facts, fb.norm(p.get("def") or ""))
            for i, qp in enumerate(p.get("pats", [])):
                ty = vf[i][1] if vf and i < len(vf) else None
                slot(qp, (prefix + ">" if prefix else "") + "%s.%d" % (v, i), ty)
            return
        if k == "p_struct":
            v = fb.last2(fb.norm(p.get("def") or "?"))
            vf = variant_fields(facts, fb.norm(p.get("def") or ""))
            listed = set()
            for f in p.get("fields", []):
                listed.add(f["name"])
                ty = None
                if vf:
                    for n_, t_ in vf:
                        if n_ == f["name"]:
                            ty = t_
                slot(f["pat"], (prefix + ">" if prefix else "") + "%s.%s" % (v, f["name"]), ty)
            if p.get("rest") and vf:
                for n_, t_ in vf:
                    if n_ not in listed:
                        out.append({"slot": (prefix + ">" if prefix else "") + "%s.%s" % (v, n_), "state": "dropped", "how": "elided by `..`", "ty": t_})
            return
        if k == "p_tuple":
            for i, qp in enumerate(p.get("pats", [])):
                slot(qp, (prefix + ">" if prefix else "") + "tuple.%d" % i, None)
            return

    def slot(p, name, ty):
        k = p.get("k")
        if k in ("p_ref", "p_guard"):
            return slot(p.get("pat"), name, ty)
        if k == "p_wild":
            out.append({"slot": name, "state": "dropped", "how": "matched with `_`", "ty": ty})
            return
        if k == "p_bind" and "sub" not in p:
            lid = p["id"]
            bty = p.get("ty") or ty
            st = struct_of_type(facts, bty) if expand_structs else None
            fields, whole, used = binding_use(facts, roots, lid)
            if not used:
                out.append({"slot": name, "state": "dropped", "how": "bound as `%s` and never read" % p["name"], "ty": bty})
                if st is not None:
                    for f in st["variants"][0]["fields"]:
                        out.append({"slot": name + ">" + f["name"], "state": "dropped", "how": "`%s` is never read" % p["name"], "ty": f["ty"]})
                return
            out.append({"slot": name, "state": "kept", "how": "read as `%s`" % p["name"], "ty": bty})
            if st is not None:
                for f in st["variants"][0]["fields"]:
                    if whole or f["name"] in fields:
                        out.append({"slot": name + ">" + f["name"], "state": "kept", "how": "whole value used" if whole and f["name"] not in fields else "field read", "ty": f["ty"]})
                    else:
                        out.append({"slot": name + ">" + f["name"], "state": "dropped", "how": "field `%s.%s` is never read in the arm" % (p["name"], f["name"]), "ty": f["ty"]})
            return
        if k in ("p_tstruct", "p_struct", "p_tuple", "p_or"):
            return visit(p, name)
        if k == "p_bind" and "sub" in p:
            return slot(p["sub"], name, ty)
        if k in ("p_lit", "p_path"):
            out.append({"slot": name, "state": "kept", "how": "matched against a constant", "ty": ty})
            return
        out.append({"slot": name, "state": "kept", "how": "pattern %s" % k, "ty": ty})

    visit(arm["pat"], "")
    return out


def arms_of(m):
    """[(variants, arm)] with or-patterns expanded to a variant list; wildcard arms have variants == ['_']."""
    return [(fb.pat_variants(a["pat"]), a) for a in m["arms"]]


def has_effect(e):
    """Does the expression do anything (a call, an assignment, a macro, a return value other than unit)?"""
    if e is None:
        return False
    for x in fb.walk(e):
        if x.get("k") in ("call", "mcall", "assign", "assignop", "ret", "break", "struct", "lit", "path", "match", "if"):
            return True
    return False


def matches_on(fn, enum_suffix):
    out = []
    for n in fb.walk(fn.body):
        if n.get("k") == "match" and n.get("src") in ("Normal", None):
            t = fb.norm(strip_refs(fb.tnorm(n.get("sty", "")) or ""))
            t = t.replace("<>", "")
            if t == enum_suffix or t.endswith("::" + enum_suffix):
                out.append(n)
    return out


def iflets_on(fn, variant_suffix):
    """`if let <Variant>(..) = e` conditions (letx) anywhere in fn whose pattern names the variant."""
    out = []
    for n in fb.walk(fn.body, with_pats=False):
        if n.get("k") == "if":
            c = n.get("c")
            if c is not None and c.get("k") == "letx":
                vs = fb.pat_variants(c["pat"])
                if any(v == variant_suffix or v.endswith("::" + variant_suffix) for v in vs if v):
                    out.append(n)
    return out
