"""C13 - positions sent and received refer to the right place in the editor's text (structural clauses)."""
from vlib import factbase as fb
from vlib import q
from .common import ctx, loc, field_of, match_arms_on, chain_up
from .c14 import _deep_mentions

UTF16 = ("encode_utf16", "len_utf16", "utf16")
OFFSET_SOURCES = ("match_indices", "char_indices", "bytes", "split_inclusive", "find", "memchr", "rmatch_indices", "as_bytes")


def rule_r1(facts, rep, rid="C13-R1"):
    rd = facts.fn("MarkdownEventsReader::read")
    rep.saw_fn(rd)
    producer = None
    for x in fb.walk(rd.body):
        if x.get("k") == "assign":
            fo = field_of(x["l"])
            if fo and fo[1] == "line_starts":
                for y in fb.walk(x["r"]):
                    if y.get("k") in ("call", "mcall") and fb.callee(y) in facts.fns:
                        producer = facts.fns[fb.callee(y)]
    if producer is None:
        rep.anchor_missing(rid, "producer of MarkdownEventsReader.line_starts")
        return
    rep.saw_fn(producer)
    m = _deep_mentions(facts, producer)
    names = set(a[1].rsplit("::", 1)[-1] for a in m if a[0] == "call" and a[1])
    key = producer.def_ + "|line-starts-from-terminator-offsets"
    if "lines" in names or "split_terminator" in names:
        rep.violation(rid, key, "line starts are derived from str::lines()/split_terminator() plus a constant: lines() strips `\\r\\n` as well as `\\n`, so no constant is "
                      "right for both; with CRLF every line start after the first is short by one byte per preceding line and all line ranges / link columns drift", producer.loc)
    elif names & set(OFFSET_SOURCES):
        rep.ok(rid, key, "derived from byte offsets of the terminator (%s)" % sorted(names & set(OFFSET_SOURCES)), producer.loc)
    else:
        rep.violation(rid, key, "cannot see a byte-offset source (match_indices / char_indices / bytes / split_inclusive) in the line-start computation: %s" % sorted(names)[:8], producer.loc)
    # consumers compare line starts with parser byte ranges using <=
    for name in ("MarkdownEventsReader::to_line_range", "MarkdownEventsReader::to_inline_range"):
        f = facts.fn(name)
        rep.saw_fn(f)
        cmp_ = [x for x in fb.walk(f.body) if x.get("k") == "binary" and x["op"] in ("<=", "<", ">=", ">")]
        if name.endswith("to_line_range"):
            # the comparison against the range's exclusive END is C13-R1b's business (there `<` is the right operator)
            cmp_ = [x for x in cmp_ if not _mentions_range_end(x)]
        ops = sorted(set(x["op"] for x in cmp_))
        if ops == ["<="]:
            rep.ok(rid, f.def_ + "|inclusive-line-start-comparison", "%d comparisons, all `line_start <= offset`" % len(cmp_), f.loc)
        else:
            rep.violation(rid, f.def_ + "|inclusive-line-start-comparison", "comparison operators %s (expected only `<=`): an offset exactly at a line start would be attributed to the previous line" % ops, f.loc)


def _mentions_range_end(x):
    return any(y.get("k") == "field" and y.get("name") == "end" for y in fb.walk(x))


def rule_r1b(facts, rep, rid="C13-R1b"):
    """A parser byte range is half-open.  Its last line is the line of its LAST byte: `line_start < range.end` (then one past that line), or a comparison with `range.end - 1`.
    `line_start <= range.end` asks for the line of the first byte AFTER the block - the same line only when the block ends with its newline; a block that ends the file without
    one loses its last line (no block covers it: no definition, no code action there)."""
    f = facts.fn("MarkdownEventsReader::to_line_range")
    rep.saw_fn(f)
    key = f.def_ + "|end-line-is-the-line-of-the-last-byte"
    cmps = [x for x in fb.walk(f.body) if x.get("k") == "binary" and x["op"] in ("<=", "<", ">=", ">") and _mentions_range_end(x)]
    if not cmps:
        rep.undecided(rid, key, "cannot see how the end line is computed (no comparison with range.end)", f.loc)
        return
    bad = []
    for x in cmps:
        side = x["r"] if _mentions_range_end(x["r"]) else x["l"]
        adjusted = any(y.get("k") == "binary" and y.get("op") == "-" for y in fb.walk(side)) or any(y.get("k") == "mcall" and y["name"] in ("saturating_sub", "checked_sub", "wrapping_sub") for y in fb.walk(side))
        strict = (x["op"] == "<" and side is x["r"]) or (x["op"] == ">" and side is x["l"])
        if not (adjusted or strict):
            bad.append(x)
    if bad:
        rep.violation(rid, key, "the end line is taken from `%s`: that is the line of the first byte AFTER the block; a block that ends the file without a newline (`a\\nb`) is given one "
                      "line too few, and its last line is covered by no block" % fb.show(bad[0])[:60], loc(f, bad[0]))
    else:
        rep.ok(rid, key, "strict comparison with the exclusive end (or with end - 1)", loc(f, cmps[0]))


def _boundary_fns(facts):
    """fns converting between liwe::model::Position / InlineRange and lsp_types::Position / Range."""
    out = []
    for f in facts.body_fns():
        if f.crate != "iwes":
            continue
        tys = [p.get("ty", "") for p in f.params] + [f.ret or ""]
        has_lsp = any("lsp_types::Position" in t or "lsp_types::Range" in t for t in tys)
        has_model = any("liwe::model::Position" in t or "std::ops::Range<liwe::model::Position>" in t for t in tys)
        if has_lsp and has_model:
            out.append(f)
    return out


def rule_r2(facts, rep, rid="C13-R2"):
    bfs = _boundary_fns(facts)
    if len(bfs) < 2:
        rep.anchor_missing(rid, "boundary fns between model::Position and lsp_types::Position (found %d)" % len(bfs))
        return
    any_utf16_anywhere = False
    for f in facts.body_fns():
        if f.crate in ("liwe", "iwes"):
            for x in fb.walk(f.body):
                if x.get("k") == "mcall" and any(u in x["name"] for u in UTF16):
                    any_utf16_anywhere = True
    for f in bfs:
        rep.saw_fn(f)
        m = _deep_mentions(facts, f)
        conv = any(a[0] == "call" and a[1] and any(u in a[1] for u in UTF16) for a in m)
        key = f.def_ + "|utf16-conversion-at-lsp-boundary"
        if conv:
            rep.ok(rid, key, "converts between byte columns and UTF-16 code units", f.loc)
        else:
            rep.violation(rid, key, "columns cross the LSP boundary unconverted: the model computes `character` as a *byte* difference (to_inline_range) while LSP positions "
                          "are UTF-16 code units; any non-ASCII character before a link shifts go-to-definition / prepare-rename / rename ranges"
                          + ("" if any_utf16_anywhere else " (no encode_utf16/len_utf16 call exists anywhere in liwe/iwes)"), f.loc)
    # every lsp Position built with a non-constant character comes from a boundary fn
    allowed = set(f.def_ for f in bfs)
    for f in facts.body_fns():
        if f.crate != "iwes":
            continue
        for x in fb.walk(f.body):
            ch = None
            if x.get("k") == "call" and (fb.callee(x) or "").endswith("lsp_types::Position::new") and len(x["args"]) == 2:
                ch = x["args"][1]
            if x.get("k") == "struct" and fb.norm(x.get("def", "")) == "lsp_types::Position":
                for fl in x["fields"]:
                    if fl["name"] == "character":
                        ch = fl["e"]
            if ch is None or ch.get("k") == "lit":
                continue
            k2 = "%s|non-constant-character" % f.def_
            if f.def_ in allowed:
                rep.ok(rid, k2, "boundary fn", loc(f, x), nontrivial=False)
            else:
                rep.violation(rid, k2, "an lsp_types::Position with a computed `character` (%s) is built outside the boundary fns %s" % (fb.show(ch)[:40], sorted(allowed)), loc(f, x))


def rule_r3(facts, rep, rid="C13-R3"):
    # incoming: line / character are copied, no arithmetic
    for f in _boundary_fns(facts):
        c = ctx(f)
        for x in fb.walk(f.body):
            if x.get("k") == "struct" and fb.norm(x.get("def", "")).endswith("model::Position"):
                for fl in x["fields"]:
                    pv = c.vprov(fl["e"])
                    key = "%s|copies:%s" % (f.def_, fl["name"])
                    if ("field", fl["name"]) in pv and not any(a[0] == "binary" for a in pv):
                        rep.ok(rid, key, "", loc(f, x))
                    else:
                        rep.violation(rid, key, "incoming position field `%s` is not a plain copy of the LSP value: %s" % (fl["name"], fb.show(fl["e"])[:40]), loc(f, x))
    # code actions: the line handed to get_node_id_at is params.range.start.line unchanged
    h = facts.fn("Server::handle_code_action")
    rep.saw_fn(h)
    c = ctx(h)
    calls = [x for x in fb.calls_in(h.body) if (fb.callee(x) or "").endswith("GraphContext::get_node_id_at")]
    if calls:
        pv = c.vprov(calls[0]["args"][1])
        if ("field", "line") in pv and ("field", "start") in pv and not any(a[0] == "binary" for a in pv):
            rep.ok(rid, h.def_ + "|line-passed-unchanged", "range.start.line", loc(h, calls[0]))
        else:
            rep.violation(rid, h.def_ + "|line-passed-unchanged", "the line given to get_node_id_at is `%s`" % fb.show(calls[0]["args"][1])[:60], loc(h, calls[0]))
    else:
        rep.violation(rid, h.def_ + "|line-passed-unchanged", "handle_code_action no longer looks the node up by line", h.loc)
    # lookup picks the last (innermost) node containing the line
    g = facts.fn("GraphContext>::get_node_id_at")
    rep.saw_fn(g)
    cg_ = ctx(g)
    it = [x for x in fb.walk(g.body) if x.get("k") == "mcall" and x["name"] == "iter"]
    names = [m["name"] for m in chain_up(cg_, it[0])] if it else []
    mm = cg_.mentions(g.body)
    if "rev" in names and "find" in names and names.index("rev") < names.index("find") and q.has_call(mm, "Range::contains"):
        rep.ok(rid, g.def_ + "|innermost-last-node-containing-line", " -> ".join(names), g.loc)
    else:
        rep.violation(rid, g.def_ + "|innermost-last-node-containing-line", "lookup is no longer `iter().rev().find(range.contains(line))` (chain %s): a line inside a nested block would resolve to the outer block" % names, g.loc)
    # every node-creating arm of SectionsBuilder::block / section_block records its line range after the node exists
    ctor_names = ("raw", "leaf", "section", "reference_with_text", "quote", "horizontal_rule", "table")
    exempt = {"BulletList": "lists have no line range of their own (their items do)", "OrderedList": "lists have no line range of their own (their items do)"}
    for name in ("SectionsBuilder::block", "SectionsBuilder::section_block"):
        f = facts.fn(name)
        rep.saw_fn(f)
        ms = match_arms_on(f, "DocumentBlock")
        if not ms:
            rep.anchor_missing(rid, "match on DocumentBlock in " + name)
            continue
        for arm in ms[0]["arms"]:
            vs = [fb.last_seg(v) for v in fb.pat_variants(arm["pat"])]
            ctors = [x for x in fb.walk(arm["body"]) if x.get("k") == "mcall" and x["name"] in ctor_names and (fb.callee(x) or "").startswith("liwe::graph::builder::GraphBuilder::")]
            if not ctors:
                continue
            sets = [x for x in fb.walk(arm["body"]) if x.get("k") == "mcall" and x["name"] == "set_lines_range"]
            key = "%s|arm:%s|records-line-range" % (f.def_, "/".join(vs))
            aloc = "%s:%s" % (f.file, arm.get("ln"))
            if sets and all(s["s"][0] > min(cx["s"][0] for cx in ctors) for s in sets):
                rep.ok(rid, key, "%d node constructor(s), set_lines_range after the first" % len(ctors), aloc)
            elif any(v in exempt for v in vs):
                rep.ok(rid, key, exempt[[v for v in vs if v in exempt][0]], aloc, nontrivial=False)
            else:
                rep.violation(rid, key, "the arm creates a node (%s) but does not record its line range afterwards: code actions / references for that block resolve to the wrong block or none" % ctors[0]["name"], aloc)


def rule_r4(facts, rep, rid="C13-R4"):
    """Position's derived ordering must be line-major: `Range<Position>::contains` decides whether the cursor is inside a link."""
    a = facts.adt("liwe::model::Position")
    derived_ord = [i for i in facts.impls if i["nself"] == a["path"] and i.get("trait") in ("std::cmp::Ord", "std::cmp::PartialOrd", "core::cmp::Ord", "core::cmp::PartialOrd")]
    fields = [fl["name"] for fl in a["variants"][0]["fields"]]
    key = a["path"] + "|ordering-is-line-major"
    users = []
    for f in facts.body_fns():
        if f.crate != "liwe" or "::tests::" in f.def_:
            continue
        for x in fb.walk(f.body):
            if x.get("k") == "mcall" and x["name"] == "contains" and "Range<liwe::model::Position>" in fb.tnorm(x.get("rty") or ""):
                users.append(f.def_)
            if x.get("k") == "binary" and x["op"] in ("<", "<=", ">", ">=") and "liwe::model::Position" in (x["l"].get("ty") or ""):
                users.append(f.def_)
    if not derived_ord:
        rep.undecided(rid, key, "Position has no Ord/PartialOrd impl in the fact base (ordering is hand-written or gone); users: %s" % sorted(set(users)))
        return
    if all(i.get("derived") for i in derived_ord):
        if fields[:2] == ["line", "character"]:
            rep.ok(rid, key, "derive(Ord) on fields %s: compares line first, then column (used by %s)" % (fields, sorted(set(users)) or "-"), "%s:%s" % (a["file"], a["line"]))
        else:
            rep.violation(rid, key, "Position derives its ordering from the field order %s: positions compare by %s first, so `Range<Position>::contains` (link_at_position) "
                          "accepts cursors on other lines of a multi-line block and rejects cursors inside a link that wraps" % (fields, fields[0]), "%s:%s" % (a["file"], a["line"]))
    else:
        rep.undecided(rid, key, "Position's ordering is hand-written; not analysed")
    rep.floor(rid, "ordering users of Position", len(users), 1)


def rule_r7(facts, rep, rid="C13-R7"):
    """Ranges are read off the source, end and start independently: the reader looks both ends of an inline range up in the line table (an inline may
    span several lines), and the destination range of a link ends where the link ends in the source - not where a length computed from parsed
    (unescaped) text would put it."""
    f = facts.fn("MarkdownEventsReader::to_inline_range")
    rep.saw_fn(f)
    c = ctx(f)
    from .common import through_lets
    key = f.def_ + "|end-looked-up-from-range-end"
    rng = [x for x in fb.walk(f.body) if x.get("k") == "struct" and fb.norm(x.get("def", "")).endswith(("ops::Range", "range::Range", "model::InlineRange"))]
    if not rng:
        rep.anchor_missing(rid, "the start..end range built by MarkdownEventsReader::to_inline_range")
    else:
        flds = {fl["name"]: fl["e"] for fl in rng[-1]["fields"]}
        e_end, e_start = flds.get("end"), flds.get("start")
        m_end = c.mentions(e_end) if e_end is not None else set()
        # assignments to the locals the end position is built from (`end = line; end_char = range.end - line_start`)
        params_ = set(lid for p_ in f.params for _n, lid in fb.pat_bindings(p_["pat"]))
        ids = set(y["id"] for y in fb.walk(e_end or {}) if y.get("k") == "path" and y.get("res") == "local") - params_
        # ... transitively: locals the end is bound from (`let (end, end_char) = <block ending in located>`), and what is assigned to those
        from vlib.q import _inl_value
        for _round in range(4):
            more = set()
            for lid in list(ids):
                b_ = c.binds.get(lid)
                if b_ and b_[0] == "expr" and b_[1] is not None:
                    for y in fb.walk(_inl_value(b_[1])):
                        if y.get("k") == "path" and y.get("res") == "local" and y.get("id") not in params_:
                            more.add(y["id"])
            if more <= ids:
                break
            ids |= more
        for x in fb.walk(f.body):
            if x.get("k") in ("assign", "assignop") and x["l"].get("k") == "path" and x["l"].get("id") in ids:
                m_end |= c.mentions(x["r"])
        uses_end = ("field", "end") in m_end
        uses_len = any(a[0] == "call" and a[1] and a[1].endswith(("::len", "ExactSizeIterator::len")) for a in m_end)
        start_ids = set(y["id"] for y in fb.walk(e_start or {}) if y.get("k") == "path" and y.get("res") == "local") - params_
        from_start = bool(ids & start_ids) or ("field", "start") in c.mentions(e_end or {})
        if uses_end and not uses_len and not from_start:
            rep.ok(rid, key, "the end position is computed from range.end with its own line lookup", loc(f, rng[-1]))
        else:
            rep.violation(rid, key, "the end of an inline range is not looked up from `range.end` on its own (uses range.end: %s, derived from the start position: %s, from a length: %s): "
                          "a link whose text wraps over a line break gets an end on the start's line, and the cursor on its second line is no longer inside it" % (uses_end, from_start, uses_len), loc(f, rng[-1]))
    g = facts.fn("DocumentInline::key_range")
    rep.saw_fn(g)
    cg_ = ctx(g)
    key = g.def_ + "|end-from-source-span"
    lit = [x for x in fb.walk(g.body) if x.get("k") == "struct" and _is_inline_range_lit(x)]
    if not lit:
        rep.anchor_missing(rid, "InlineRange literal in DocumentInline::key_range")
        return
    # a wiki link (`[[key]]`, `[[key|text]]`) has its key right behind the opening brackets: a literal under a test of `link_type` may measure the key by its
    # length (a wiki target is literal source text, nothing is unescaped in it); the literal for ordinary links is the one this rule is about
    def _reads_link_type(e_):
        # `link.link_type`, or the field taken out by the pattern (`Link { link_type, .. }`)
        if e_ is None:
            return False
        if ("field", "link_type") in cg_.mentions(e_):
            return True
        return any(y.get("k") == "path" and y.get("res") == "local" and str(cg_.pos.get(y.get("id"), "")).endswith(".link_type") for y in fb.walk(e_))

    def _under_link_type(x_):
        for p_ in cg_.parents(x_):
            if p_.get("k") == "if" and _reads_link_type(p_.get("c")):
                return True
            if p_.get("k") == "match":
                if _reads_link_type(p_.get("e")):
                    return True
                for arm_ in p_.get("arms", []):
                    if arm_.get("guard") is not None and any(y is x_ for y in fb.walk(arm_["body"])) and _reads_link_type(arm_["guard"]):
                        return True
        return False
    plain = [x for x in lit if not _under_link_type(x)]
    for i_, x in enumerate(x_ for x_ in lit if _under_link_type(x_)):
        fl_ = {fl["name"]: fl["e"] for fl in x["fields"]}
        sm = cg_.mentions(fl_.get("start"))
        span_ = ("field", "inline_range") in sm or any(y.get("k") == "path" and y.get("res") == "local" and str(cg_.pos.get(y.get("id"), "")).endswith(".inline_range")
                                                        for y in fb.walk(through_lets(cg_, fl_.get("start")) or {})) or \
            any(a[0] == "patpos" and str(a[1]).endswith(".inline_range") for a in cg_.vprov(through_lets(cg_, fl_.get("start")) or {}))
        if not span_:
            # the start position is a struct literal whose fields read `inline_range.start.*` (destructured or not)
            for y in fb.walk(through_lets(cg_, fl_.get("start")) or {}):
                if y.get("k") == "path" and y.get("res") == "local":
                    pv_ = cg_.vprov(y)
                    if ("field", "inline_range") in pv_ or any(a[0] == "patpos" and ".inline_range" in str(a[1]) for a in pv_):
                        span_ = True
        if span_ and ("field", "start") in sm:
            rep.ok(rid, "%s|wiki-link-key-behind-the-brackets|%d" % (g.def_, i_), "start = inline_range.start + 2", loc(g, x))
        else:
            rep.violation(rid, "%s|wiki-link-key-behind-the-brackets|%d" % (g.def_, i_), "the key range of a wiki link does not start from the link's source start", loc(g, x))
    k_w = g.def_ + "|wiki-links-measured-as-wiki-links"
    if len(plain) < len(lit):
        rep.ok(rid, k_w, "a separate range under a test of link_type", loc(g, lit[0]))
    else:
        rep.violation(rid, k_w, "key_range applies the `[text](url)` arithmetic (text length + 3 .. end - 1) to every link: for `[[key]]` the range handed to prepare-rename is "
                      "inverted, for `[[key|text]]` it lies inside the text", loc(g, lit[0]))
    if not plain:
        rep.anchor_missing(rid, "InlineRange literal for ordinary links in DocumentInline::key_range")
        return
    lit = plain
    flds = {fl["name"]: fl["e"] for fl in lit[0]["fields"]}
    endp = through_lets(cg_, flds.get("end"))
    ch = None
    if endp is not None and endp.get("k") == "struct":
        ch = {fl["name"]: fl["e"] for fl in endp["fields"]}.get("character")
    m = cg_.mentions(ch) if ch is not None else set()
    pv = cg_.vprov(ch) if ch is not None else set()
    end_by_pattern = any(a[0] == "patpos" and str(a[1]).endswith(".end") for a in pv)        # `let InlineRange { start, end } = &link.inline_range;`
    span_by_pattern = any(a[0] == "patpos" and str(a[1]).endswith(".inline_range") for a in pv) or ("field", "inline_range") in pv       # `let Link(Link { inline_range, .. }) = self else ..`
    from_span = (("field", "inline_range") in m or span_by_pattern) and (("field", "end") in m or end_by_pattern)
    from_text = any(a[0] == "call" and a[1] and a[1].endswith("::len") for a in m) or ("field", "url") in m
    if from_span and not from_text:
        rep.ok(rid, key, "end.character = inline_range.end.character - 1 (the closing parenthesis)", loc(g, lit[0]))
    else:
        rep.violation(rid, key, "the end of the destination range is computed from %s instead of the link's source span: `url` is the parsed, unescaped destination, so for `my\\_note`, "
                      "`q&amp;a` or `<..>` the range handed to prepare-rename is shorter than the text in the editor" % ("a text length" if from_text else "something other than inline_range.end"), loc(g, lit[0]))


def _is_inline_range_lit(x):
    """`InlineRange { start, end }` - InlineRange is an alias of Range<Position>, so `start..end` is the same literal"""
    d = fb.norm(x.get("def", ""))
    return d.endswith("model::InlineRange") or (d.endswith(("ops::Range", "ops::range::Range")) and "Position" in (x.get("ty") or ""))


def run(facts, rep, tier):
    rep.rule("C13-R1", "The line table is built from real byte offsets of the line terminators (never lines()/split_terminator() + constant) and is compared with `<=`.")
    rep.rule("C13-R2", "Unit discipline at the LSP boundary: the fns converting between model::Position (byte columns) and lsp_types::Position (UTF-16 code units) "
             "perform a UTF-16 conversion; no other fn builds an lsp Position with a computed character.")
    rep.rule("C13-R3", "Line plumbing: incoming positions are plain copies; code actions pass range.start.line unchanged; get_node_id_at picks the last (innermost) node "
             "containing the line; every node-creating arm of SectionsBuilder records the node's line range after creating it.")
    rule_r1(facts, rep)
    rep.rule("C13-R1b", "A block's line range ends at the line of its LAST byte: the parser's exclusive end offset is compared strictly (or as end - 1) - otherwise a block that ends the file "
             "without a newline loses its last line.")
    rule_r1b(facts, rep)
    rule_r2(facts, rep)
    rule_r3(facts, rep)
    rep.rule("C13-R4", "Position's ordering is line-major: it is derived, so the struct's field order (line, character) IS the comparison order that Range<Position>::contains relies on.")
    rule_r4(facts, rep)
    rep.rule("C13-R5", "= C04-R3 for the line table: the block under the cursor is looked up in Graph.nodes_map[key], which the single-key update must replace (not extend) - otherwise a line "
             "that no longer holds a block still answers with a block of an earlier version.")
    from . import c04
    from .c01 import _Only
    c04.rule_r3(facts, _Only(rep, "cache:nodes_map"), "C13-R5")
    rep.rule("C13-R6", "= C04-R4: the per-note line table is only rebuilt by the re-parse, so Graph::update_key must reach Graph::from_markdown on every path (no `nothing changed` shortcut): an "
             "edit that only moves blocks (blank lines added on top) otherwise leaves every line answer pointing at the old positions.")
    c04.rule_r4(facts, rep, "C13-R6")
    rep.rule("C13-R7", "Ranges come from source positions: both ends of an inline range are looked up in the line table independently; the destination range of a link ends at the link's source end.")
    rule_r7(facts, rep)
    rep.rule("C13-R8", "The link under the cursor is searched in every block and inline that can hold one: each variant of DocumentBlock / DocumentInline whose payload has nested blocks / items / "
             "inlines hands them out in child_blocks / child_inlines (audited: table cells).")
    from . import children
    children.rule_child_tables(facts, rep, "C13-R8")
    rep.rule("C13-R3c", "A nested SectionsBuilder (the content of a block quote) records its blocks' lines in its OWN table: that table has to be taken over by the builder that made it "
             "(`.nodes_map()` merged into `self.nodes_map`), otherwise no block inside a quote has a line - a link there is reported at line 0 and the quote's blocks are invisible to line lookups.")
    rule_r3c(facts, rep)
    rep.rule("C13-R9", "= C01-R1 (stored-verbatim): the url the reader stores is the source's destination byte for byte - rename / prepare-rename measure the link's target by it, so a "
             "destination that was cut (fragment stripped, case folded) shifts every range derived from its length.")
    from . import c01 as _c01
    _c01.rule_r1(facts, _c01._Only(rep, "stored-verbatim"), "C13-R9")


def rule_r3c(facts, rep, rid="C13-R3c"):
    n = 0
    for f in facts.body_fns():
        if f.crate != "liwe" or "::tests::" in f.def_ or "::test::" in f.def_ or f.kind == "closure":
            continue
        c = None
        i = 0
        for x in fb.walk(f.body):
            if x.get("k") in ("call", "mcall") and (fb.callee(x) or "").endswith("SectionsBuilder::new"):
                c = c or ctx(f)
                rep.saw_fn(f)
                n += 1
                key = "%s|SectionsBuilder::new|%d|line-table-taken-over" % (f.def_, i)
                i += 1
                # what happens to the builder: the value must flow into a `.nodes_map()` call (directly, or through the local it is bound to)
                used = False
                par = c.parent_of.get(id(x))
                if par is not None and par.get("k") == "mcall" and par.get("recv") is x:
                    used = (fb.callee(par) or "").endswith("SectionsBuilder::nodes_map") or par["name"] == "nodes_map"
                    if not used:
                        # builder.some_method(): look for a nodes_map call on the same chain
                        used = any(m_.get("name") == "nodes_map" for m_ in chain_up(c, x))
                if not used:
                    # bound to a local that is later asked for its table
                    for y in fb.walk(f.body):
                        if y.get("k") == "mcall" and y["name"] == "nodes_map" and y is not par:
                            if q.has_call(c.vprov(y["recv"]), "SectionsBuilder::new"):
                                used = True
                if used:
                    rep.ok(rid, key, "the builder's nodes_map() is read", loc(f, x))
                else:
                    rep.violation(rid, key, "the nested builder is dropped with its line table: blocks built by it (the content of a block quote) have no line range - a link inside a quote is "
                                  "reported at line 0, and no line inside the quote resolves to the block that covers it", loc(f, x))
    rep.floor(rid, "SectionsBuilder::new call sites", n, 3)

