"""Re-checked premises of audited table entries.

A table entry (tables/panics.json) of class `invariant` / `guarded` / `benign` may rest on a fact that lives somewhere else in the
code (another fn's shape, another property's rule).  Such premises are named here and RE-EVALUATED ON EVERY RUN: if a premise no
longer holds, every panic site that was discharged by it is reported again ("premise of the audited entry is gone"), even though the
site itself is unchanged.  This is how two cooperating sites that each look fine alone are caught.

A premise is either
  rule:<RID>   - the named rule of another property produces no violation (known findings of that property excepted), or
  shape:<name> - a small shape predicate defined below.
"""
import importlib

from vlib import factbase as fb
from vlib import report as vreport

_RULES = {
    "C04-R1": ("c04", "rule_r1"), "C04-R5": ("c04", "rule_r5"),
    "C20-R2": ("c20", "rule_r2"), "C20-R3": ("c20", "rule_r3"), "C20-R4": ("c20", "rule_r4"), "C20-R6": ("c20", "rule_r6"),
    "C17-R1": ("c17", "rule_r1"), "C17-R2": ("c17", "rule_r2"),
    "C13-R1": ("c13", "rule_r1"),
    "C01-R1": ("c01", "rule_r1"), "C01-R1b": ("c01", "rule_r1b"),
}

# reason prefix (as written in tables/panics.json) -> premises
PREMISES = [
    ("reached with TreeIter / a freshly built document", ["shape:treeiter-child-total"]),
    ("C20 invariant: the id comes from the graph structure itself", ["rule:C04-R1", "rule:C20-R3", "rule:C20-R4"]),
    ("C20 invariant: node/line ids handed out by the arena", ["rule:C04-R5"]),
    ("called only on live nodes", ["rule:C04-R1", "rule:C20-R4"]),
    ("the builder links a child only when the cursor is insertable", ["rule:C20-R2", "rule:C20-R3"]),
    ("the builder cursor is always a live node", ["rule:C20-R2"]),
    ("SquashIter is never constructed", ["rule:C17-R2"]),
    ("`depth - 1` under", ["rule:C17-R1"]),
    ("a link's source span has at least one character", ["rule:C13-R1"]),
    ("pulldown-cmark emits balanced Start/End events", ["rule:C01-R1", "rule:C01-R1b"]),
    ("leaf inlines (Str, Code, Math, breaks) are pushed and popped immediately", ["rule:C01-R1"]),
    ("DocumentBlock::Div is never produced by the reader", ["shape:div-never-constructed"]),
    ("handle_document_symbols filters ids().len() > 1", ["shape:document-symbols-filter-len"]),
    ("callers drop_first() only paths with more than one id", ["shape:document-symbols-filter-len"]),
    ("Graph::export_key always returns Some", ["shape:export-key-total"]),
    ("GraphNodePointer::id() is always Some", ["shape:graphnodepointer-id-some"]),
    ("trees collected from the graph carry Some(id) on every node", ["shape:from-pointer-copies-id"]),
    ("the callee returns `vec![..]` with exactly one element on every path", ["shape:extract-rec-returns-singleton"]),
]


class _Collector:
    """Report stand-in: collects violations of a premise rule."""

    def __init__(self):
        self.viol = []
        self.stats = {"functions": set(), "call_sites": 0, "arms": 0}

    def rule(self, rid, text):
        pass

    def ok(self, *a, **k):
        pass

    def undecided(self, *a, **k):
        pass

    def saw_fn(self, fn):
        pass

    def violation(self, rule, key, detail, loc=None):
        self.viol.append(("%s|%s" % (rule, key), detail, loc))

    def anchor_missing(self, rule, what):
        self.viol.append(("%s|anchor-missing:%s" % (rule, what), "anchor not found: " + what, None))

    def floor(self, rule, what, counted, minimum):
        if counted < minimum:
            self.viol.append(("%s|floor:%s" % (rule, what), "%d < %d" % (counted, minimum), None))


_cache = {}


def _known_keys():
    k = vreport.load_known()
    return set(e["key"] for e in k.get("findings", []))


def evaluate(facts, premise):
    """-> list of failure strings (empty = premise holds)."""
    ck = (id(facts), premise)
    if ck in _cache:
        return _cache[ck]
    out = []
    try:
        if premise.startswith("rule:"):
            rid = premise[5:]
            mod, fn = _RULES[rid]
            m = importlib.import_module("rules." + mod)
            col = _Collector()
            getattr(m, fn)(facts, col)
            known = _known_keys()
            for key, detail, loc in col.viol:
                if key in known:
                    continue
                out.append("%s fails: %s" % (rid, detail[:160]))
        else:
            out = _SHAPES[premise[6:]](facts)
    except (fb.AnchorMissing, fb.AnchorAmbiguous) as e:
        out = ["premise %s cannot be evaluated: anchor %s" % (premise, e)]
    _cache[ck] = out
    return out


def premises_for(reason):
    res = []
    for prefix, ps in PREMISES:
        if reason.startswith(prefix):
            res += ps
    return res


# ----------------------------------------------------------------------------------------------------- shapes

def _shape_treeiter_child_total(facts):
    """<TreeIter as NodeIter>::child returns Some(placeholder) for every existing node: the only test on the way is `self.node().is_some()`,
    never a test on the child itself (GraphBuilder::{insert_from_iter, append_from_visitor} unwrap child() of a document root)."""
    f = facts.fn("TreeIter as liwe::model::node::NodeIter>::child")
    fails = []
    filters = [x for x in fb.walk(f.body) if x.get("k") == "mcall" and x["name"] in ("filter", "and_then", "filter_map", "take_if")]
    for x in filters:
        for a in x["args"]:
            if a.get("k") == "closure":
                pids = set(lid for p in a.get("params", []) for _n, lid in fb.pat_bindings(p))
                if any(fb.uses_local(a["body"], lid) for lid in pids):
                    fails.append("TreeIter::child tests the child itself (`%s`): it returns None for a childless node, and the builder unwraps child() of a document root "
                                 "(an empty note / an empty expansion then panics)" % fb.show(a)[:80])
    from .common import ctx, controlling_tests, absent_test
    c = ctx(f)
    for x in fb.walk(f.body):
        if x.get("k") == "path" and fb.last_seg(fb.norm(x.get("def") or "")) == "None":
            # an explicit None is fine when it is the answer for a cursor that points at nothing (`if self.node().is_none() { return None }`)
            tests = controlling_tests(c, x)
            if not (tests and absent_test(c, tests[0], "::node")):
                fails.append("TreeIter::child has an explicit None result that does not depend on `self.node()` being None")
    if not any(x.get("k") == "call" and fb.last_seg(fb.callee(x) or "") == "Some" for x in fb.walk(f.body)):
        fails.append("TreeIter::child no longer builds Some(child cursor)")
    return fails


def _shape_div_never_constructed(facts):
    fails = []
    for f in facts.body_fns():
        if f.crate in ("liwe", "iwes", "iwe") and "::tests::" not in f.def_ and "::test::" not in f.def_:
            for x in fb.walk(f.body):
                if x.get("k") == "call" and x.get("ctor") and (fb.callee(x) or "").endswith("DocumentBlock::Div"):
                    fails.append("DocumentBlock::Div is constructed in %s" % f.def_)
    return fails


def _shape_document_symbols_filter_len(facts):
    """Every caller of NodePath::drop_first filters `ids().len() > 1` upstream in the same chain."""
    fails = []
    n = 0
    for f in facts.body_fns():
        if f.crate not in ("liwe", "iwes", "iwe") or "::tests::" in f.def_ or "::test::" in f.def_:
            continue
        for x in fb.walk(f.body):
            if x.get("k") == "mcall" and (fb.callee(x) or "").endswith("NodePath::drop_first"):
                n += 1
                # find the enclosing map(..) call and walk its receiver chain for filter(|p| p.ids().len() > 1)
                from .common import ctx
                c = ctx(f)
                okf = False
                for p in c.parents(x):
                    if p.get("k") == "mcall" and p["name"] == "map":
                        r = p["recv"]
                        while r is not None and r.get("k") == "mcall":
                            if r["name"] == "filter":
                                t = fb.show(r["args"][0]).replace(" ", "")
                                if "ids().len()>1" in t or "ids().len()>=2" in t:
                                    okf = True
                            r = r["recv"]
                        break
                if not okf:
                    fails.append("%s calls NodePath::drop_first without an upstream filter(ids().len() > 1): a one-element path makes Vec::remove / the later unwrap panic" % f.def_)
    if n == 0:
        return []
    return fails


def _shape_export_key_total(facts):
    f = facts.fn("Graph::export_key")
    t = fb.show(f.body).replace(" ", "")
    if t.startswith("{v1::Some(") or t.startswith("{Some("):
        return []
    return ["Graph::export_key no longer returns Some(..) unconditionally (`%s`)" % t[:60]]


def _shape_gnp_id_some(facts):
    f = facts.fn("GraphNodePointer as liwe::model::node::NodePointer>::id")
    t = fb.show(f.body).replace(" ", "")
    if t in ("{v1::Some(self.id)}", "{Some(self.id)}"):
        return []
    return ["GraphNodePointer::id is `%s`, not Some(self.id)" % t[:60]]


def _shape_from_pointer_copies_id(facts):
    f = facts.fn("Tree::from_pointer")
    from .common import ctx
    c = ctx(f)
    for s in [x for x in fb.walk(f.body) if x.get("k") == "struct" and fb.norm(x.get("def", "")).endswith("model::tree::Tree")]:
        for fl in s["fields"]:
            if fl["name"] == "id":
                at = c.mentions(fl["e"])
                if any(a[0] == "call" and a[1] and a[1].endswith("NodePointer::id") for a in at):
                    return []
    return ["Tree::from_pointer does not copy pointer.id() into Tree.id"]


def _shape_extract_rec_singleton(facts):
    f = facts.fn("SectionExtract::extract_rec")
    rets = [x for x in fb.walk(f.body, into_closures=False) if x.get("k") == "ret"]
    fails = []
    vals = [r.get("e") for r in rets]
    b = f.body
    if b.get("k") == "block" and b.get("e") is not None:
        vals.append(b["e"])
    for v in vals:
        if v is None:
            fails.append("extract_rec returns ()")
            continue
        t = fb.show(v).replace(" ", "")
        n = t.count("tree::Tree{") + t.count("Tree{")
        if "box_assume_init_into_vec" not in t and "vec!" not in t:
            fails.append("extract_rec returns `%s`, not a vec![..] literal" % t[:60])
    if len(vals) < 1:
        fails.append("no return value found in extract_rec")
    return fails


_SHAPES = {
    "treeiter-child-total": _shape_treeiter_child_total,
    "div-never-constructed": _shape_div_never_constructed,
    "document-symbols-filter-len": _shape_document_symbols_filter_len,
    "export-key-total": _shape_export_key_total,
    "graphnodepointer-id-some": _shape_gnp_id_some,
    "from-pointer-copies-id": _shape_from_pointer_copies_id,
    "extract-rec-returns-singleton": _shape_extract_rec_singleton,
}
