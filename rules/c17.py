"""C17 - squash expands references to a bounded depth and always terminates."""
from vlib import factbase as fb
from vlib import q
from .common import ctx, loc


def _is_param(c, e, name):
    while e is not None and e.get("k") in ("addrof", "cast") or (e is not None and e.get("k") == "unary" and e.get("op") == "*"):
        e = e["e"]
    if e is None or e.get("k") != "path" or e.get("res") != "local":
        return False
    b = c.binds.get(e["id"])
    return b is not None and b[0] == "param" and b[2] == name


def _lit_int(e):
    if e is not None and e.get("k") == "lit" and str(e.get("v", "")).startswith("i:"):
        try:
            return int(e["v"][2:])
        except ValueError:
            return None
    return None


def _positive_depth_test(c, e, pname):
    """e is `depth > 0` / `depth != 0` / `depth >= 1` / `0 < depth` on the depth parameter."""
    if e is None:
        return False
    while e.get("k") == "block" and not e.get("stmts") and e.get("e") is not None:
        e = e["e"]
    if e.get("k") != "binary":
        return False
    op, l, r = e["op"], e["l"], e["r"]
    if _is_param(c, l, pname):
        v = _lit_int(r)
        return (op == ">" and v == 0) or (op == "!=" and v == 0) or (op == ">=" and v is not None and v >= 1)
    if _is_param(c, r, pname):
        v = _lit_int(l)
        return (op == "<" and v == 0) or (op == "!=" and v == 0) or (op == "<=" and v is not None and v >= 1)
    return False


def _guarded(c, call, pname):
    """The cross-note call lies in a region guarded by a positive-depth test (enumerated idioms)."""
    child = call
    for p in c.parents(call):
        k = p.get("k")
        if k == "if" and child is p.get("t"):
            from .panics import _conjuncts
            if any(_positive_depth_test(c, cj, pname) for cj in _conjuncts(p["c"])):
                return "if depth > 0 { .. }"
        if k == "mcall" and child.get("k") == "closure" and child in p.get("args", []) and p["name"] in ("map", "and_then", "flat_map", "filter_map", "then", "map_or", "map_or_else"):
            # Option/iterator chain: a `.filter(|_| depth > 0)` upstream of this adaptor
            x = p.get("recv")
            while x is not None and x.get("k") == "mcall":
                if x["name"] == "filter" and x["args"] and x["args"][0].get("k") == "closure" and _positive_depth_test(c, x["args"][0]["body"], pname):
                    return "….filter(|_| depth > 0) upstream of .%s(..)" % p["name"]
                x = x.get("recv")
        if k == "block":
            seq = list(p.get("stmts", []))
            for s in seq:
                if s is child:
                    break
                if s.get("k") == "if" and s.get("e") is None:
                    from .panics import _is_diverging_block
                    cnd = s["c"]
                    if cnd.get("k") == "binary" and cnd["op"] == "==" and _is_param(c, cnd["l"], pname) and _lit_int(cnd["r"]) == 0 and _is_diverging_block(s["t"]):
                        return "early `if depth == 0 { return .. }`"
        if k == "match" and child is not p.get("e"):
            # depth.checked_sub(1) with the call on the Some arm
            if p["e"].get("k") == "mcall" and p["e"]["name"] == "checked_sub" and _is_param(c, p["e"]["recv"], pname):
                return "match depth.checked_sub(..)"
        child = p
    return None


def rule_r1(facts, rep, rid="C17-R1"):
    f = facts.fn("Tree::squash_from_pointer")
    rep.saw_fn(f)
    c = ctx(f)
    # name of the depth parameter = the u8 parameter
    pname = None
    for p in f.params:
        if p.get("ty") == "u8":
            for n, _ in fb.pat_bindings(p["pat"]):
                pname = n
    if pname is None:
        rep.anchor_missing(rid, "u8 depth parameter of squash_from_pointer")
        return
    rec = [x for x in fb.calls_in(f.body) if fb.callee(x) == f.def_]
    n_cross = 0
    for i, call in enumerate(sorted(rec, key=lambda x: x["s"][0])):
        parg, darg = call["args"][0], call["args"][1]
        pv = c.vprov(parg)
        cross = q.has_call(pv, "NodePointer::to_key") or q.has_call(pv, "Graph::maybe_key") or q.has_call(pv, "GraphContext::get_node_id")
        key = "%s|recursive-call|%d|%s" % (f.def_, i, "cross-note" if cross else "structural")
        dshow = fb.show(darg)
        if cross:
            n_cross += 1
            dec = darg.get("k") == "binary" and darg["op"] == "-" and _is_param(c, darg["l"], pname) and (_lit_int(darg["r"]) or 0) >= 1
            g = _guarded(c, call, pname)
            if dec and g:
                rep.ok(rid, key, "depth argument `%s` strictly decreases and the call is guarded: %s" % (dshow, g), loc(f, call))
            else:
                why = []
                if not dec:
                    why.append("the depth argument `%s` is not `%s - <positive literal>`" % (dshow, pname))
                if not g:
                    why.append("the call is not guarded by a positive-depth test (%s > 0)" % pname)
                rep.violation(rid, key, "recursive call that crosses into the referenced note: %s; on a cyclic reference graph the expansion "
                              "does not terminate (or `%s - 1` underflows at 0)" % ("; ".join(why), pname), loc(f, call))
        else:
            okd = _is_param(c, darg, pname) or _lit_int(darg) is not None or (darg.get("k") == "binary" and darg["op"] == "-" and _is_param(c, darg["l"], pname))
            if okd:
                rep.ok(rid, key, "structural recursion (child/next of the same note) with depth `%s`" % dshow, loc(f, call))
            else:
                rep.violation(rid, key, "structural recursive call passes depth `%s` (must be unchanged, smaller or a constant)" % dshow, loc(f, call))
    rep.floor(rid, "recursive calls of squash_from_pointer", len(rec), 3)
    rep.floor(rid, "cross-note recursive calls", n_cross, 1)


def rule_r2(facts, rep, rid="C17-R2"):
    cg = facts.callgraph
    new = facts.fn("SquashIter::new", required=False)
    if new is None:
        rep.ok(rid, "SquashIter::new|absent", "the unguarded alternative iterator has been removed", nontrivial=False)
    else:
        callers = cg.callers_of(new.def_)
        if callers:
            rep.violation(rid, new.def_ + "|no-callers", "SquashIter (depth + 1 on u8, no positive-depth guard) is now used by %s" % sorted(callers), new.loc)
        else:
            rep.ok(rid, new.def_ + "|no-callers", "dead code stays dead", new.loc)
    sq = facts.fn("<&liwe::graph::Graph as liwe::graph::GraphContext>::squash")
    rep.saw_fn(sq)
    reach = cg.reachable_from([sq.def_])
    if "liwe::model::tree::Tree::squash_from_pointer" in reach:
        rep.ok(rid, sq.def_ + "|implemented-by-squash_from_pointer", "", sq.loc)
    else:
        rep.violation(rid, sq.def_ + "|implemented-by-squash_from_pointer", "GraphContext::squash no longer reaches Tree::squash_from_pointer", sq.loc)


def rule_r3(facts, rep, rid="C17-R3"):
    # depth plumbing: parameters are forwarded unchanged
    for name, callee_suffix, argi in (("NodePointer::squash_tree", "Tree::squash_from_pointer", 1),
                                      ("<&liwe::graph::Graph as liwe::graph::GraphContext>::squash", "NodePointer::squash_tree", 0),
                                      ("<&iwes::router::server::Server as iwes::router::server::action::ActionContext>::squash", "GraphContext::squash", 1)):
        f = facts.fn(name)
        rep.saw_fn(f)
        c = ctx(f)
        calls = [x for x in fb.calls_in(f.body) if (fb.callee(x) or "").endswith(callee_suffix)]
        if not calls:
            rep.violation(rid, f.def_ + "|forwards-depth", "does not call %s" % callee_suffix, f.loc)
            continue
        a = calls[0]["args"][argi]
        if _is_param(c, a, "depth"):
            rep.ok(rid, f.def_ + "|forwards-depth", "depth forwarded unchanged to %s" % callee_suffix, loc(f, calls[0]))
        else:
            rep.violation(rid, f.def_ + "|forwards-depth", "depth argument is `%s`, not the unchanged parameter" % fb.show(a), loc(f, calls[0]))
    cmd = facts.fn("iwe::squash_command")
    rep.saw_fn(cmd)
    c = ctx(cmd)
    calls = [x for x in fb.calls_in(cmd.body) if (fb.callee(x) or "").endswith("GraphContext::squash")]
    if calls and ("field", "depth") in c.vprov(calls[0]["args"][1]) and not any(a[0] == "binary" for a in c.vprov(calls[0]["args"][1])):
        rep.ok(rid, cmd.def_ + "|cli-depth", "--depth is passed through", loc(cmd, calls[0]))
    else:
        rep.violation(rid, cmd.def_ + "|cli-depth", "CLI squash does not pass args.depth unchanged", cmd.loc)
    gen = facts.fn("GenerateCommand::execute")
    rep.saw_fn(gen)
    calls = [x for x in fb.calls_in(gen.body) if (fb.callee(x) or "").endswith("ActionContext::squash")]
    vals = [_lit_int(x["args"][1]) for x in calls]
    if calls and all(v is not None and v <= 4 for v in vals):
        rep.ok(rid, gen.def_ + "|constant-depth", "depth literals %s" % vals, gen.loc)
    else:
        rep.violation(rid, gen.def_ + "|constant-depth", "generate command squashes with a non-constant or large depth: %s" % vals, gen.loc)


def rule_r5(facts, rep, rid="C17-R5"):
    """A squashed note is rendered relative to its own directory: the links it keeps (depth exhausted, missing targets) must still resolve."""
    from .common import ctx, loc
    n = 0
    for f in facts.body_fns():
        if f.crate not in ("liwe", "iwes", "iwe") or f.kind == "closure" or "::tests::" in f.def_:
            continue
        c = None
        counts = 0
        for x in fb.walk(f.body):
            if x.get("k") == "mcall" and x["name"] == "to_markdown" and x["args"]:
                # receiver chain starts at <ctx>.squash(&K, d)
                r = x["recv"]
                sq = None
                while r is not None and r.get("k") == "mcall":
                    if r["name"] == "squash":
                        sq = r
                        break
                    r = r["recv"]
                if sq is None:
                    continue
                c = c or ctx(f)
                rep.saw_fn(f)
                n += 1
                kc = fb.show_canon(f, sq["args"][0]).lstrip("&")
                pc = fb.show_canon(f, x["args"][0]).lstrip("&")
                key = "%s|squash-render|%d" % (f.def_, counts)
                counts += 1
                if pc == kc + ".parent()":
                    rep.ok(rid, key, "squash(&K, d) rendered with K.parent()", loc(f, x))
                else:
                    rep.violation(rid, key, "the squashed note `%s` is rendered relative to `%s`, not to its own directory: the links the expansion keeps (depth used up, missing notes) are "
                                  "rewritten against the wrong base and point at other notes" % (fb.show(sq["args"][0]), fb.show(x["args"][0])), loc(f, x))
    rep.floor(rid, "renderings of squashed notes", n, 2)


def rule_r8(facts, rep, rid="C17-R8"):
    """A reference is replaced by the *whole* referenced note: the pointer that to_key returns (the note's Document node) is squashed as it is, and the children of the
    resulting tree are spliced in.  Moving to the document's first child before squashing keeps only the first top-level block (squash_from_pointer returns one tree for
    the node it is given and never follows siblings)."""
    f = facts.fn("Tree::squash_from_pointer")
    rep.saw_fn(f)
    c = ctx(f)
    from .common import value_chain
    tk = [x for x in fb.walk(f.body) if x.get("k") == "mcall" and x["name"] == "to_key"]
    key = f.def_ + "|referenced-note-squashed-from-its-document-node"
    if not tk:
        rep.anchor_missing(rid, "to_key call in Tree::squash_from_pointer")
        return
    bad, rec_ok, splices = [], False, False
    for t in tk:
        chain = list(value_chain(c, t))
        # `.and_then(|key| child.to_key(key))`: the value continues in the chain the closure is an argument of
        clo_ = next((p for p in c.parents(t) if p.get("k") == "closure"), None)
        if clo_ is not None:
            host_ = c.parent_of.get(id(clo_))
            if host_ is not None and host_.get("k") == "mcall" and host_["name"] in ("and_then", "map", "flat_map", "filter_map"):
                chain += list(value_chain(c, host_))
        for m_ in chain:
            if m_["name"] in ("and_then", "map", "filter_map") and m_.get("args") and m_["args"][0].get("k") == "closure":
                clo = m_["args"][0]
                pids = set(lid for p_ in clo.get("params", []) for _n, lid in fb.pat_bindings(p_))
                hops = [y for y in fb.walk(clo["body"]) if y.get("k") == "mcall" and y["name"] in ("child", "to_child", "next", "to_next", "child_id", "next_id") and
                        any(z.get("k") == "path" and z.get("id") in pids for z in fb.walk(y.get("recv") or {}))]
                rec = [y for y in fb.walk(clo["body"]) if y.get("k") in ("call", "mcall") and fb.callee(y) == f.def_]
                if hops and not rec:
                    bad.append(hops[0])
                if rec and not hops:
                    rec_ok = True
                if any(y.get("k") == "field" and y.get("name") == "children" for y in fb.walk(clo["body"])):
                    splices = True
    if bad:
        rep.violation(rid, key, "the pointer returned by to_key is moved with `.%s()` before it is squashed: only the referenced note's first top-level block is expanded, its other blocks "
                      "are dropped (and an empty note is treated as missing)" % bad[0]["name"], loc(f, bad[0]))
    elif rec_ok and splices:
        rep.ok(rid, key, "to_key(..).map(|document| squash_from_pointer(document, depth - 1)).map(|t| t.children)", loc(f, tk[0]))
    else:
        rep.violation(rid, key, "the expansion of a reference is no longer `squash_from_pointer(<document pointer>, depth - 1)` followed by taking the children of the result "
                      "(recursion on the document pointer: %s, children spliced: %s)" % (rec_ok, splices), loc(f, tk[0]))


def run(facts, rep, tier):
    rep.rule("C17-R1", "Every recursive call of Tree::squash_from_pointer that crosses into another note (pointer derived from to_key) passes "
             "`depth - c` (c >= 1) and lies in a region guarded by a positive-depth test (enumerated idioms); structural calls pass depth "
             "unchanged, smaller or constant.")
    rep.rule("C17-R2", "The unguarded alternative (SquashIter) has no callers; GraphContext::squash is implemented by squash_from_pointer.")
    rep.rule("C17-R3", "Depth plumbing: squash_tree / GraphContext::squash / ActionContext::squash forward depth unchanged; the CLI passes "
             "--depth; the generate command uses a small literal.")
    rule_r1(facts, rep)
    rule_r2(facts, rep)
    rule_r3(facts, rep)
    rep.rule("C17-R4", "An empty expansion is a valid result: the squashed tree is written back through GraphBuilder::insert_from_iter, which unwraps child() of the document root, so "
             "TreeIter::child must yield a (placeholder) cursor for every existing node, childless or not.")
    from . import conditions
    fails = conditions.evaluate(facts, "shape:treeiter-child-total")
    if fails:
        rep.violation("C17-R4", "TreeIter::child|total-on-existing-nodes", fails[0])
    else:
        rep.ok("C17-R4", "TreeIter::child|total-on-existing-nodes", "child() is Some(..) filtered only on self.node().is_some()")
    rep.rule("C17-R5", "Every squash(&K, d) whose tree is rendered with to_markdown(&P, ..) has P = K.parent() (the kept links must resolve from the squashed note's own directory).")
    rule_r5(facts, rep)
    rep.rule("C17-R6", "= C15-R4: the jump to a referenced note (NodePointer::to_key) looks the reference's key up as it is; keys are resolved once, when the reference is read.")
    from . import c15
    c15.rule_r4(facts, rep, "C17-R6")
    tk = facts.fn("GraphNodePointer as liwe::model::node::NodePointer>::to_key")
    t = fb.show_canon(tk, tk.body).replace(" ", "")
    if "self.graph.get_node_id(&P1)" in t:
        rep.ok("C17-R6", tk.def_ + "|looks-up-the-key-as-given", "graph.get_node_id(&key)", tk.loc)
    else:
        rep.violation("C17-R6", tk.def_ + "|looks-up-the-key-as-given", "GraphNodePointer::to_key does not look up the key it was given (`%s`): references expand another note or none" % t[:80], tk.loc)
    # every existing note is a valid target: the looked-up id reaches the result unfiltered (an emptied note expands to nothing, it is not "missing")
    from .common import ctx as _ctx, value_chain
    ctk = _ctx(tk)
    lk = [x for x in fb.walk(tk.body) if x.get("k") == "mcall" and (fb.callee(x) or "").endswith("::get_node_id")]
    bad = [m_ for x in lk for m_ in value_chain(ctk, x) if m_["name"] in ("filter", "and_then", "take_if", "filter_map", "zip", "xor")]
    if lk and not bad:
        rep.ok("C17-R6", tk.def_ + "|every-existing-note-is-a-target", "get_node_id(..).map(pointer) without a filter", tk.loc)
    else:
        rep.violation("C17-R6", tk.def_ + "|every-existing-note-is-a-target", "the looked-up note passes through `.%s(..)` before it becomes a pointer: notes that fail the test (an empty note, "
                      "a note with only front matter) are treated as missing and their references stay links instead of being replaced" % (bad[0]["name"] if bad else "?"), tk.loc)
    rep.rule("C17-R7", "= C05-R7: only a paragraph that consists of exactly one reference is a block reference (a paragraph of two adjacent links is ordinary text and must not be expanded).")
    from . import c05
    c05.rule_r7(facts, rep, "C17-R7")
    rep.rule("C17-R8", "A reference is replaced by the whole referenced note: the document pointer from to_key is squashed as it is and the result's children are spliced in.")
    rule_r8(facts, rep)
    rep.rule("C17-R9", "= C05-R3: which paragraphs are block references at all is decided by model::is_ref_url (a negated disjunction of case-folded *complete* scheme prefixes): a note whose key "
             "merely starts like a scheme (`http-caching`) must still be a reference, or squash never expands it.")
    c05.rule_r3(facts, rep, "C17-R9")
    rep.rule("C17-R10", "= C20-R2: the squashed tree is written back through the tree -> graph copier; every node it creates gets (prev = cursor, id = fresh id) and all kinds link through the same "
             "helper - a rule or table in an expanded note must neither vanish nor make the export loop.")
    from . import c20 as _c20
    _c20.rule_r2(facts, rep, "C17-R10")
    rep.rule("C17-R11", "The squashed text is written back as it is: Graph::build_key_from_iter records no title for the key it builds (no fn reachable from it writes the title cache), so links "
             "back to the squashed note - kept references and inline links in expanded paragraphs - keep their text.")
    from . import forwards
    forwards.rule_scratch_graph_has_no_titles(facts, rep, "C17-R11")
    rep.rule("C17-R12", "= C09-R10: squash is asked of the library graph itself (the server's ActionContext::squash is a plain forward).")
    forwards.rule_context_forwards(facts, rep, "C17-R12")
