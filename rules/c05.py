"""C05 - backlinks are exact (structural necessary conditions)."""
import re
from vlib import factbase as fb
from vlib import q
from .common import ctx, loc
from . import c04

FROM_FILE_NAME = "liwe::model::Key::from_file_name"
FROM_REL = "liwe::model::Key::from_rel_link_url"
# string operations that can drop or change part of a url
STRING_CUTS = {"split", "split_once", "rsplit_once", "rsplit", "splitn", "rsplitn", "split_at", "split_terminator", "split_whitespace", "split_inclusive", "lines",
               "trim", "trim_start", "trim_end", "trim_matches", "trim_start_matches", "trim_end_matches", "strip_prefix", "strip_suffix",
               "replace", "replacen", "to_lowercase", "to_uppercase", "to_ascii_lowercase", "to_ascii_uppercase", "truncate", "drain", "pop", "remove", "retain",
               "get", "get_unchecked", "find", "rfind", "chars", "char_indices", "bytes", "index", "split_off"}

# audited callers of Key::from_file_name whose argument is a *library-relative file name* (never a link url)
FILE_NAME_CALLERS = {
    "liwe::graph::Graph::import": "state keys are library-relative file names produced by the loader",
    "liwe::database::Database::new": "state keys are library-relative file names produced by the loader",
    "<liwe::model::Key as std::convert::From>::from": "From<&str>/From<String>: conversion used for keys given by name (tests, CLI, rename target)",
    "liwe::model::Key::from_path": "file name taken from a PathBuf",
    "iwes::router::server::BasePath::url_to_key": "document URI with the library base stripped",
    "iwe::squash_command": "--key argument names a note by its library-relative name",
}


def link_url_atoms(pv):
    """Does a provenance set say 'this is the url of a link'?"""
    for a in pv:
        if a[0] == "patpos" and (a[1].endswith("GraphInline::Link.0") or a[1].endswith("GraphInline::Image.0")):
            return a[1]
        if a[0] == "field" and a[1] in ("url", "dest_url"):
            return "field ." + a[1]
        if a[0] == "call" and a[1] and (a[1].endswith("DocumentInline::url") or a[1].endswith("DocumentBlock::url")):
            return "call " + fb.last2(a[1])
    return None


def rule_r2(facts, rep, rid="C05-R2"):
    facts.fn("Key::from_file_name")
    facts.fn("Key::from_rel_link_url")
    n = 0
    counts = {}
    for f in facts.body_fns():
        c = None
        for call in fb.calls_in(f.body, lambda p: p == FROM_FILE_NAME):
            c = c or ctx(f)
            rep.saw_fn(f)
            n += 1
            i = counts.get(f.def_, 0)
            counts[f.def_] = i + 1
            arg = call["args"][0] if call["args"] else None
            pv = c.vprov(arg)
            why = link_url_atoms(pv)
            if why:
                rep.violation(rid, "%s|from_file_name(link-url)|%d" % (f.def_, i),
                              "a link url (%s) is turned into a key with Key::from_file_name, i.e. as if it were library-relative; link "
                              "targets must be resolved against the directory of the linking note (Key::from_rel_link_url(url, parent)), "
                              "as SectionsBuilder does for block references" % why, loc(f, call))
            elif f.def_ in FILE_NAME_CALLERS:
                rep.ok(rid, "%s|from_file_name(file-name)|%d" % (f.def_, i), FILE_NAME_CALLERS[f.def_], loc(f, call))
            else:
                rep.violation(rid, "%s|from_file_name(unaudited)|%d" % (f.def_, i),
                              "new call site of Key::from_file_name; its argument (`%s`) is not known to be a library-relative file name "
                              "- audit it (tables: FILE_NAME_CALLERS)" % fb.show(arg)[:80], loc(f, call))
    rep.floor(rid, "call sites of Key::from_file_name", n, 9)
    # from_rel_link_url: second argument must be a directory derived from a note key's parent()
    m = 0
    counts = {}
    for f in facts.body_fns():
        c = None
        for call in fb.calls_in(f.body, lambda p: p == FROM_REL):
            c = c or ctx(f)
            m += 1
            i = counts.get(f.def_, 0)
            counts[f.def_] = i + 1
            pv = c.vprov(call["args"][1]) if len(call["args"]) > 1 else set()
            key = "%s|from_rel_link_url(dir)|%d" % (f.def_, i)
            if q.has_call(pv, "Key::parent") or any(a[0] == "param" and a[1] in ("relative_to", "parent") for a in pv):
                rep.ok(rid, key, "directory argument derives from Key::parent() / a relative_to parameter", loc(f, call))
            elif _cached_parent(facts, f, c, call["args"][1]):
                rep.ok(rid, key, "directory argument is a field that every constructor of the type fills with <note key>.parent()", loc(f, call))
            else:
                rep.violation(rid, key, "second argument of from_rel_link_url is not derived from the containing note's parent(): %s" % sorted(pv)[:6], loc(f, call))
            # ... and the first is the url as written: cutting it (at a `#`, a `?`, a prefix, by case) before it is resolved makes the key - which is all that is written back -
            # name another destination than the text did
            if "random_key" in f.def_:
                continue        # a generated candidate name, not a url read from a note
            pu = c.vprov(call["args"][0])
            cuts = sorted(set(fb.last_seg(a[1]) for a in pu if a[0] == "call" and fb.last_seg(a[1]) in STRING_CUTS))
            key = "%s|from_rel_link_url(url-as-written)|%d" % (f.def_, i)
            if cuts:
                rep.violation(rid, key, "the url handed to Key::from_rel_link_url has been through %s: part of the destination the author wrote is dropped before the link is resolved "
                              "(the key is all that is written back, so the link is retargeted)" % ", ".join("`%s`" % x for x in cuts), loc(f, call))
            else:
                rep.ok(rid, key, "url passed as written", loc(f, call))
    rep.floor(rid, "call sites of Key::from_rel_link_url", m, 5)
    # the directory comes from the key the SectionsBuilder was made for: the builders it makes for nested blocks (quotes) must be made for the same key - a key rebuilt from the
    # directory (`self.parent.as_str().into()`, `Key::from_file_name(&self.parent)`) would have its parent taken a second time
    k = 0
    for f in facts.body_fns():
        if f.crate != "liwe" or "::tests::" in f.def_ or "::test::" in f.def_:
            continue
        i = 0
        for call in fb.calls_in(f.body, lambda p: p.endswith("SectionsBuilder::new") or p.endswith("SectionsBuilder::<'a>::new")):
            if len(call.get("args", [])) < 3:
                continue
            c = ctx(f)
            k += 1
            key = "%s|SectionsBuilder::new(key)|%d" % (f.parent if f.kind == "closure" and f.parent else f.def_, i)
            i += 1
            pv = c.vprov(call["args"][2])
            conv = sorted(set(fb.last_seg(a[1]) for a in pv if a[0] == "call" and fb.last_seg(a[1]) in ("into", "from", "from_file_name", "from_rel_link_url", "parent", "new", "default", "to_string", "format")))
            inside = (f.impl_self or "").split("<")[0].endswith("SectionsBuilder") or (f.kind == "closure" and "SectionsBuilder" in (f.parent or ""))
            if conv:
                rep.violation(rid, key, "the key handed to the nested SectionsBuilder is rebuilt with %s instead of being the note's key: the nested blocks resolve their links against another "
                              "directory" % ", ".join("`%s`" % x for x in conv), loc(f, call))
            elif inside and ("field", "key") not in pv:
                rep.violation(rid, key, "the nested SectionsBuilder is not made for `self.key` (%s)" % sorted(pv)[:4], loc(f, call))
            else:
                rep.ok(rid, key, "made for the note's own key", loc(f, call))
    rep.floor(rid, "call sites of SectionsBuilder::new", k, 3)


def _cached_parent(facts, f, c, e):
    """`&self.parent` where the field is a cache: every place that gives the field a value gives it `<key>.parent()`, and the same literal stores that key in its `key` field (or the type
    has no key field)."""
    while e is not None and e.get("k") in ("addrof", "unary"):
        e = e["e"]
    if e is None or e.get("k") == "mcall" and e["name"] in ("clone", "as_str", "as_ref", "to_string"):
        e = e["recv"] if e is not None else None
        while e is not None and e.get("k") in ("addrof", "unary"):
            e = e["e"]
    if e is None or e.get("k") != "field" or not f.impl_self:
        return False
    base = e["e"]
    while base is not None and base.get("k") in ("addrof", "unary"):
        base = base["e"]
    if base is None or base.get("k") != "path" or base.get("name") != "self":
        return False
    from .common import field_sources
    srcs = field_sources(facts, fb.norm(f.impl_self).split("<")[0], e["name"])
    if not srcs:
        return False
    for g, src in srcs:
        pv = ctx(g).vprov(src)
        if not q.has_call(pv, "Key::parent"):
            return False
    return True


def rule_r3(facts, rep, rid="C05-R3"):
    isref = facts.fn("liwe::model::is_ref_url")
    rep.saw_fn(isref)
    sites = ["DocumentInline::is_ref", "GraphInline::is_ref"]
    for s in sites:
        f = facts.fn(s)
        rep.saw_fn(f)
        calls = [fb.callee(x) for x in fb.calls_in(f.body)]
        if isref.def_ in calls:
            rep.ok(rid, f.def_ + "|decides-with-is_ref_url", "", f.loc)
        else:
            rep.violation(rid, f.def_ + "|decides-with-is_ref_url", "internal/external decision no longer delegates to model::is_ref_url (calls: %s): "
                          "the reader, the graph and the writer can disagree on what is a reference" % calls, f.loc)
    w = facts.fn("MarkdownWriter::inlines_to_events")
    if isref.def_ in [fb.callee(x) for x in fb.calls_in(w.body)]:
        rep.ok(rid, w.def_ + "|decides-with-is_ref_url", "", w.loc)
    else:
        rep.violation(rid, w.def_ + "|decides-with-is_ref_url", "table-cell link printer does not use model::is_ref_url", w.loc)
    # shape of is_ref_url: !(lower(url).starts_with(lit) || ...)
    b = isref.body
    from .common import through_lets
    ci = ctx(isref)
    e = through_lets(ci, b.get("e") if b.get("k") == "block" else b)
    lits = []
    good = e is not None and e.get("k") == "unary" and e.get("op") == "!"
    if good:
        from .panics import _disjuncts
        for d in _disjuncts(through_lets(ci, e["e"])):
            d = through_lets(ci, d)
            if d.get("k") == "mcall" and d["name"] == "starts_with" and d["args"] and d["args"][0].get("k") == "lit":
                recv = through_lets(ci, d["recv"])
                while recv is not None and recv.get("k") in ("addrof", "unary") or (recv is not None and recv.get("k") == "mcall" and recv["name"] in ("as_str", "as_ref", "deref")):
                    recv = through_lets(ci, recv.get("e") or recv.get("recv"))
                if recv.get("k") == "mcall" and recv["name"] in ("to_lowercase", "to_ascii_lowercase"):
                    lits.append(d["args"][0]["v"][2:])
                    continue
            good = False
    if not good:
        # the same decision written over a list of schemes: `SCHEMES.iter().all(|s| !lower.starts_with(s))` or `!SCHEMES.iter().any(|s| lower.starts_with(s))`
        neg_outer = e is not None and e.get("k") == "unary" and e.get("op") == "!"
        inner = through_lets(ci, e["e"]) if neg_outer else e
        if inner is not None and inner.get("k") == "mcall" and inner["name"] in ("all", "any") and inner.get("args") and inner["args"][0].get("k") == "closure":
            body = inner["args"][0]["body"]
            while body.get("k") == "block" and not body.get("stmts") and body.get("e") is not None:
                body = body["e"]
            neg_inner = body.get("k") == "unary" and body.get("op") == "!"
            test = body["e"] if neg_inner else body
            form_ok = (inner["name"] == "all" and neg_inner and not neg_outer) or (inner["name"] == "any" and not neg_inner and neg_outer)
            if form_ok and test.get("k") == "mcall" and test["name"] == "starts_with":
                recv = through_lets(ci, test["recv"])
                while recv is not None and (recv.get("k") in ("addrof", "unary") or (recv.get("k") == "mcall" and recv["name"] in ("as_str", "as_ref", "deref"))):
                    recv = through_lets(ci, recv.get("e") or recv.get("recv"))
                if recv is not None and recv.get("k") == "mcall" and recv["name"] in ("to_lowercase", "to_ascii_lowercase"):
                    # the schemes: string literals of the array / slice the chain starts from
                    src = inner["recv"]
                    lits = [y["v"][2:] for y in fb.walk(through_lets(ci, src)) if y.get("k") == "lit" and str(y.get("v", "")).startswith("s:")]
                    src_l = through_lets(ci, src)
                    while src_l is not None and src_l.get("k") == "mcall":
                        src_l = through_lets(ci, src_l["recv"])
                    lits = lits or [y["v"][2:] for y in fb.walk(src_l or {}) if y.get("k") == "lit" and str(y.get("v", "")).startswith("s:")]
                    good = True
    audited = {"http://", "https://", "mailto:"}
    partial = [l for l in lits if not re.match(r"^[a-z][a-z0-9+.-]*:(//)?$", l)]
    if good and audited <= set(lits) and not partial:
        rep.ok(rid, isref.def_ + "|shape", "negated disjunction of case-folded scheme prefixes: %s" % lits, isref.loc)
    elif good and lits and not partial and "http://" in lits and "https://" in lits:
        rep.violation(rid, isref.def_ + "|shape", "is_ref_url no longer treats %s as external: such urls are taken for note references - they get the references extension appended, are "
                      "looked up as keys and re-relativised (`mailto:ann@example.org` is written back as `mailto:ann@example.org.md`)" % sorted(audited - set(lits)), isref.loc)
    else:
        rep.violation(rid, isref.def_ + "|shape", "is_ref_url is no longer `!(lower(url).starts_with(scheme) || ...)` over at least http:// and https:// (found %s)" % lits, isref.loc)


GENERIC_SCHEME_TESTS = {"contains", "find", "split_once", "parse", "position", "matches", "is_match", "scheme", "has_host", "splitn", "char_indices", "chars", "bytes"}


def rule_scheme_list(facts, rep, rid):
    """What is external is decided by `is_ref_url`.  A closed list of scheme prefixes (`http://`, `https://`, `mailto:`) calls every other url a note: `ftp://host/file`,
    `tel:123`, `file:///x` get the references extension appended on formatting (`ftp://host/file.md`) - a destination change the property forbids.  Decided here: does the
    fn test for a scheme in general (a `:` / `://` search, a URL parser), or only for the prefixes it lists?"""
    isref = facts.fn("liwe::model::is_ref_url")
    rep.saw_fn(isref)
    key = isref.def_ + "|every-scheme-is-external"
    names = set()
    from vlib import inline as _inl
    for x in fb.walk(isref.body):
        if x.get("k") in ("mcall", "call"):
            names.add(x.get("name") or fb.last_seg(fb.callee(x) or ""))
    prefixes = sorted(y["v"][2:] for y in fb.walk(isref.body) if y.get("k") == "lit" and str(y.get("v", "")).startswith("s:"))
    generic = names & GENERIC_SCHEME_TESTS
    if generic:
        rep.ok(rid, key, "is_ref_url looks for a scheme in general (%s)" % ", ".join(sorted(generic)), isref.loc)
    else:
        rep.violation(rid, key, "is_ref_url knows the schemes %s only: a url with any other scheme (`ftp://host/file`, `tel:123`, `file:///x`) is taken for a note, and formatting "
                      "with a references extension rewrites its destination (`ftp://host/file.md`)" % prefixes, isref.loc)


def rule_r4(facts, rep, rid="C05-R4"):
    B = "liwe::graph::Graph::get_block_references_to"
    I = "liwe::graph::Graph::get_inline_references_to"
    IN = "liwe::graph::Graph::get_block_references_in"
    table = [
        ("Server::handle_references", {B, I}, set(), "find-references chains block AND inline referrers"),
        ("Server::refs_counter_hints", {I}, {B}, "the ‹n› hint counts inline references"),
        ("Server::container_hint", {B}, {I}, "the ↖ hint lists notes holding a block reference"),
        ("Server::block_reference_hints", {IN, B}, {I}, "per-reference hint counts block references to the referenced note"),
        ("liwe::model::rank::node_rank", {B, I}, set(), "rank = inline + block references"),
    ]
    for name, need, forbid, why in table:
        f = facts.fn(name)
        rep.saw_fn(f)
        ment = set(a[1] for a in ctx(f).mentions(f.body) if a[0] == "call")
        missing = [fb.last_seg(x) for x in need if x not in ment]
        extra = [fb.last_seg(x) for x in forbid if x in ment]
        key = f.def_ + "|reference-source"
        if missing or extra:
            rep.violation(rid, key, "%s: missing %s, unexpected %s" % (why, missing, extra), f.loc)
        else:
            rep.ok(rid, key, why, f.loc)
    # handle_references: uri and line of a location come from the same node id
    f = facts.fn("Server::handle_references")
    c = ctx(f)
    ment = c.mentions(f.body)
    for need in ("NodePointer::node_key", "Graph::node_line_range"):
        if q.has_call(ment, need):
            rep.ok(rid, f.def_ + "|uses:" + need, "", f.loc)
        else:
            rep.violation(rid, f.def_ + "|uses:" + need, "location is no longer built from %s of the referring node" % need, f.loc)
    ids = []
    for call in fb.calls_in(f.body, lambda p: p.endswith("Graph::node_line_range") or p.endswith("GraphContext::node")):
        if call["args"]:
            pv = c.vprov(call["args"][0])
            ids.append((fb.last_seg(fb.callee(call)), frozenset(a for a in pv if a[0] in ("patpos", "param", "call") and not (a[0] == "call" and a[1] and a[1].endswith("::clone")))))
    base = set(x[1] for x in ids)
    # all node-id arguments must come from the same iterator element (the chained reference ids)
    if ids and all(any(a[0] == "call" and a[1] and (a[1].endswith("get_block_references_to") or a[1].endswith("get_inline_references_to")) for a in s) for _, s in ids):
        rep.ok(rid, f.def_ + "|same-node-for-uri-and-line", "%d node-id uses, all derived from the reference id stream" % len(ids), f.loc)
    else:
        rep.violation(rid, f.def_ + "|same-node-for-uri-and-line", "a node id used for the uri/line of a location does not derive from the referrer id stream: %s" % [(n, sorted(s)) for n, s in ids], f.loc)


DROPPERS = {"filter", "filter_map", "skip", "take", "take_while", "skip_while", "step_by", "nth", "last", "find", "find_map", "truncate", "retain", "pop", "remove", "swap_remove"}

# audited droppers in the backlink consumers: (fn suffix, method, ordinal) -> reason
DROPPERS_OK = {
}


def rule_r4b(facts, rep, rid="C05-R4b"):
    """Every referrer the graph reports reaches the answer: no dropping adapter between the reference streams and the response."""
    B = "liwe::graph::Graph::get_block_references_to"
    I = "liwe::graph::Graph::get_inline_references_to"
    from .common import value_chain
    n = 0
    for name in ("Server::handle_references", "Server::refs_counter_hints", "Server::container_hint", "Server::block_reference_hints", "liwe::model::rank::node_rank"):
        f = facts.fn(name)
        rep.saw_fn(f)
        c = ctx(f)
        counts = {}
        seen_nodes = set()
        for call in fb.calls_in(f.body, lambda p_: p_ in (B, I)):
            for m in value_chain(c, call):
                if id(m) in seen_nodes:
                    continue
                seen_nodes.add(id(m))
                if m["name"] in DROPPERS and (fb.callee(m) or "").startswith(("std::iter::", "core::iter::", "itertools::", "std::vec::", "alloc::vec::", "core::slice::")):
                    i = counts.get(m["name"], 0)
                    counts[m["name"]] = i + 1
                    n += 1
                    key = "%s|%s|%d" % (f.def_, m["name"], i)
                    why = None
                    for (fs, mm, oo), reason in DROPPERS_OK.items():
                        if f.def_.endswith(fs) and mm == m["name"] and oo == i:
                            why = reason
                    if why:
                        rep.ok(rid, key, "audited: " + why, loc(f, m), nontrivial=False)
                    else:
                        rep.violation(rid, key, "`.%s(%s)` drops referrers between Graph::get_*_references_to and the answer of %s: backlinks that the library contains are not reported "
                                      "(e.g. a note's links to itself, or everything but the first)" % (m["name"], fb.show(m["args"][0])[:60] if m["args"] else "", fb.last_seg(f.def_)), loc(f, m))
    rep.ok(rid, "backlink-consumers|droppers-inventory", "%d dropping adapter(s) on the referrer streams" % n, None, nontrivial=False)


def rule_r7(facts, rep, rid="C05-R7"):
    """DocumentBlock::is_ref: a paragraph is a block reference iff it has exactly one inline and that inline is a reference."""
    f = facts.fn("DocumentBlock::is_ref")
    rep.saw_fn(f)
    c = ctx(f)
    key = f.def_ + "|exactly-one-inline-that-is-a-reference"
    one = False
    elem = False
    for x in fb.walk(f.body):
        if x.get("k") == "binary" and x.get("op") == "==":
            sides = [x["l"], x["r"]]
            if any(y.get("k") == "mcall" and y["name"] == "len" for y in sides) and any(y.get("k") == "lit" and str(y.get("v", "")).split(":", 1)[-1].rstrip("usize") == "1" for y in sides):
                one = True
        if x.get("k") == "mcall" and (fb.callee(x) or "").endswith("DocumentInline::is_ref"):
            elem = True
        if x.get("k") == "match" and any(p.get("k") == "p_slice" and len(p.get("pats", [])) == 1 for a in x.get("arms", []) for p in [a.get("pat")] if isinstance(p, dict)):
            one = True
    quant = [x["name"] for x in fb.walk(f.body) if x.get("k") == "mcall" and x["name"] in ("all", "any", "first", "last", "find") and (fb.callee(x) or "").startswith(("core::iter", "std::iter", "core::slice", "std::slice"))]
    if one and elem and not quant:
        rep.ok(rid, key, "`inlines.len() == 1 && inlines[0].is_ref()`", f.loc)
    else:
        rep.violation(rid, key, "DocumentBlock::is_ref no longer requires exactly one inline (len()==1: %s, element test: %s, quantifier: %s): a paragraph made of several links (or of none) is read "
                      "as a block reference to its first link - the other links vanish from the note, from backlinks and from squash" % (one, elem, quant or "-"), f.loc)


def run(facts, rep, tier):
    rep.rule("C05-R1", "= C04-R2: the index walker reaches every node kind through child and next and records heading/paragraph lines and table cells.")
    rep.rule("C05-R2", "One resolver for link targets: Key::from_file_name is only applied to library-relative file names (audited callers); "
             "a key built from a link url goes through Key::from_rel_link_url(url, <parent of the linking note>).")
    rep.rule("C05-R3", "One internal/external decision: reader, graph and table-cell writer all delegate to model::is_ref_url, whose body is a "
             "negated disjunction of case-folded scheme-prefix tests.")
    rep.rule("C05-R4", "Handler plumbing: each backlink consumer reads the right reference kind(s) (block / inline) and builds a location's "
             "uri and line from the same referrer node.")
    rep.rule("C05-R5", "= C04-R6: the reference index is only unioned into, per key (re-indexing one note must not drop the other notes' references to the same target).")
    c04.rule_r2(facts, rep, "C05-R1")
    c04.rule_r6(facts, rep, "C05-R5")
    rule_r2(facts, rep)
    rule_r3(facts, rep)
    rule_r4(facts, rep)
    rep.rule("C05-R4b", "Completeness of the answers: on the way from Graph::get_{block,inline}_references_to to the response of find-references / hints / rank there is no dropping adapter "
             "(filter, skip, take, find ...) other than the audited ones.")
    rule_r4b(facts, rep)
    from .common import droppers_inventory
    droppers_inventory(facts, rep, "C05-R4b", ["Server::handle_references", "Server::container_hint", "Server::block_reference_hints", "Server::refs_counter_hints", "Server::handle_inlay_hints"], {
        ("Server::handle_references", "dedup()"): "one location per (referrer node, note): the block and the inline stream can name the same node",
        ("Server::container_hint", "dedup()"): "sorted().dedup(): one ↖ hint per containing note",
        ("Server::block_reference_hints", "filter_map(|c0|{self.database.graph().node_line_range(c0).map(|c1|(c0,c1.start))})"): "a hint needs a line; nodes built by refactorings in a patch graph have none",
    }, "backlinks / reference hints")
    rep.rule("C05-R6", "= C14-R1 / C14-R5: a link url becomes a key by removing exactly one `.md` suffix - never by last-dot extension arithmetic (with_extension / file_stem), which also eats the `.2` of `notes-v1.2`.")
    from . import c14
    c14.rule_r1(facts, rep, "C05-R6")
    c14.rule_r5(facts, rep, "C05-R6b")
    rep.rule("C05-R2b", "= C15-R3: the directory a reference is resolved against (Key::parent) and the url reader / writer use one path algebra.")
    from . import c15
    c15.rule_r3(facts, rep, "C05-R2b")
    rep.rule("C05-R7", "Only a paragraph that consists of exactly one reference is a block reference; every other paragraph keeps its links as inline links.")
    rule_r7(facts, rep)
    rep.rule("C05-R8", "= C13-R3: a backlink is reported at the line of the linking block - every node-creating arm of the SectionsBuilder records the node's line range (a table without one is "
             "reported at line 0).")
    from . import c13 as _c13
    _c13.rule_r3(facts, _MultiOnly13(rep), "C05-R8")
    rep.rule("C05-R8b", "= C13-R3c: the line table of the nested builder that builds a block quote's content is taken over by its parent (a link inside a quote is otherwise reported at line 0).")
    _c13.rule_r3c(facts, rep, "C05-R8b")


class _MultiOnly13:
    """Forwards only the line-range recording instances of C13-R3."""

    def __init__(self, rep):
        self.rep = rep
        self.stats = rep.stats

    def _keep(self, key):
        return "records-line-range" in key

    def ok(self, rule, key, detail="", loc=None, nontrivial=True):
        if self._keep(key):
            self.rep.ok(rule, key, detail, loc, nontrivial)

    def violation(self, rule, key, detail, loc=None):
        if self._keep(key):
            self.rep.violation(rule, key, detail, loc)

    def undecided(self, rule, key, detail, loc=None):
        if self._keep(key):
            self.rep.undecided(rule, key, detail, loc)

    def floor(self, *a, **k):
        pass

    def anchor_missing(self, rule, what):
        self.rep.anchor_missing(rule, what)

    def saw_fn(self, fn):
        self.rep.saw_fn(fn)

    def rule(self, rid, text):
        pass
