"""C15 - relative links written by iwe resolve back to the note they were written for (render-directory rule)."""
from vlib import factbase as fb
from vlib import q
from .common import pname, ctx, loc, through_lets
from . import c05


def _base_local(e):
    """Base local (id, name) of `x`, `x.clone()`, `&x`, `x.f.clone()`; None otherwise."""
    while e is not None:
        k = e.get("k")
        if k in ("addrof", "unary", "cast"):
            e = e.get("e")
        elif k == "mcall" and e["name"] in ("clone", "to_owned", "as_ref", "borrow", "into", "to_string") and not e.get("args"):
            e = e["recv"]
        elif k == "field":
            e = e["e"]
        else:
            break
    if e is not None and e.get("k") == "path" and e.get("res") == "local":
        return (e["id"], e.get("name"))
    return None


def _resolve_local(c, loc_, depth=0):
    """Follow `let a = b.clone()` chains to the defining local."""
    if loc_ is None or depth > 6:
        return loc_
    b = c.binds.get(loc_[0])
    if b and b[0] == "expr":
        nxt = _base_local(b[1])
        # only follow pure copies (`let k = key.clone()`), not calls like random_key(..)
        e = b[1]
        while e is not None and e.get("k") in ("addrof", "unary"):
            e = e.get("e")
        if nxt is not None and e is not None and (e.get("k") == "path" or (e.get("k") == "mcall" and e["name"] in ("clone", "to_owned"))):
            return _resolve_local(c, nxt, depth + 1)
    return loc_


def _render_calls(c, e, seen=None, depth=0):
    """to_markdown / to_default_markdown calls that produce the value of expression e (through lets)."""
    out = []
    if e is None or depth > 8:
        return out
    seen = seen if seen is not None else set()
    for x in fb.walk(e):
        if x.get("k") == "mcall" and x["name"] in ("to_markdown", "to_default_markdown", "export_key"):
            out.append(x)
        if x.get("k") == "path" and x.get("res") == "local" and x["id"] not in seen:
            seen.add(x["id"])
            b = c.binds.get(x["id"])
            if b and b[0] == "expr":
                out += _render_calls(c, b[1], seen, depth + 1)
    return out


def _rewraps_update(c, fl):
    """`Update { key: u.key, markdown: f(.., u.markdown) }` with `u` an Update bound by a pattern: the text was rendered where `u` was built (checked there); this literal keeps
    text and key together."""
    pk = c.vprov(fl.get("key")) if fl.get("key") is not None else set()
    pm = c.vprov(fl.get("markdown")) | c.mentions(fl.get("markdown")) if fl.get("markdown") is not None else set()
    if fl.get("markdown") is not None:
        # `let markdown = graph.with_front_matter(&key, markdown);` - the text argument is what is re-wrapped
        from .common import through_lets
        for y in fb.walk(through_lets(c, fl["markdown"])):
            if y.get("k") in ("mcall", "call") and (fb.callee(y) or "").endswith("Graph::with_front_matter") and y.get("args"):
                pm |= c.vprov(y["args"][-1])
    from_update = lambda pv: any(a[0] in ("patpos", "pat") and "Update" in str(a[1]) for a in pv)
    return ("field", "key") in pk and ("field", "markdown") in pm and from_update(pk) and (from_update(pm) or ("field", "markdown") in pm)


def rule_r1(facts, rep, rid="C15-R1"):
    n = 0
    for f in facts.body_fns():
        if f.crate != "iwes":
            continue
        c = None
        counts = 0
        for x in fb.walk(f.body):
            if x.get("k") == "struct" and fb.norm(x.get("def", "")).endswith("action::Update"):
                c = c or ctx(f)
                rep.saw_fn(f)
                fl = {z["name"]: z["e"] for z in x["fields"]}
                kloc = _resolve_local(c, _base_local(fl.get("key")))
                renders = _render_calls(c, fl.get("markdown"))
                key = "%s|update|%d" % (f.def_, counts)
                counts += 1
                n += 1
                if not renders and _rewraps_update(c, fl):
                    rep.ok(rid, key, "forwards an already rendered Update (its own `markdown`, same `key`)", loc(f, x), nontrivial=False)
                    continue
                if not renders:
                    rep.violation(rid, key, "cannot find the rendering call that produced Update.markdown (`%s`)" % fb.show(fl.get("markdown"))[:60], loc(f, x))
                    continue
                r = renders[0]
                cal = fb.callee(r) or ""
                if r["name"] == "to_default_markdown":
                    rep.violation(rid, key, "the text stored under `%s` is rendered with to_default_markdown() (link directory \"\" = library root): for a note in a "
                                  "sub-directory every relative block-reference url is written relative to the wrong directory and resolves to another note" % (kloc[1] if kloc else "?"), loc(f, r))
                    continue
                if cal.endswith("Graph::to_markdown") or cal.endswith("Graph::export_key") or cal.endswith("GraphPatch::markdown"):
                    # Graph::to_markdown(K') relativises against K'.parent(): K' must be the key the text is stored under
                    a = _resolve_local(c, _base_local(r["args"][0])) if r["args"] else None
                    if a and kloc and a[0] == kloc[0]:
                        rep.ok(rid, key, "Graph::to_markdown(&%s) for Update{key: %s}" % (a[1], kloc[1]), loc(f, r))
                    else:
                        rep.violation(rid, key, "text stored under `%s` is exported for key `%s`" % (kloc[1] if kloc else "?", a[1] if a else fb.show(r["args"][0]) if r["args"] else "?"), loc(f, r))
                    continue
                # NodeIter::to_markdown(parent, options): parent must be <stored key>.parent()
                parg = r["args"][0] if r["args"] else None
                par = None
                for y in fb.walk(parg) if parg else []:
                    if y.get("k") == "mcall" and (fb.callee(y) or "").endswith("Key::parent"):
                        par = _resolve_local(c, _base_local(y["recv"]))
                if par is None and parg is not None:
                    # the directory may have been bound earlier: let dir = key.parent();
                    bl = _base_local(parg)
                    if bl:
                        b = c.binds.get(bl[0])
                        if b and b[0] == "expr":
                            for y in fb.walk(b[1]):
                                if y.get("k") == "mcall" and (fb.callee(y) or "").endswith("Key::parent"):
                                    par = _resolve_local(c, _base_local(y["recv"]))
                if par and kloc and par[0] == kloc[0]:
                    rep.ok(rid, key, "to_markdown(&%s.parent(), ..) for Update{key: %s}" % (par[1], kloc[1]), loc(f, r))
                else:
                    rep.violation(rid, key, "the text stored under `%s` is rendered relative to `%s` (must be the directory of the note it is stored under): relative links in it "
                                  "resolve to other notes" % (kloc[1] if kloc else "?", (par[1] + ".parent()") if par else fb.show(parg)[:40] if parg else "?"), loc(f, r))
    rep.floor(rid, "Change::Update constructions", n, 14)
    # Graph::to_markdown itself relativises against the exported key's parent
    g = facts.fn("Graph::to_markdown")
    rep.saw_fn(g)
    cg_ = ctx(g)
    tm = [x for x in fb.walk(g.body) if x.get("k") == "mcall" and x["name"] == "to_markdown"]
    okg = False
    for r in tm:
        for y in fb.walk(r["args"][0]):
            if y.get("k") == "mcall" and (fb.callee(y) or "").endswith("Key::parent") and ("param", pname(g, 1)) in cg_.vprov(y["recv"]):
                okg = True
    coll = [x for x in fb.calls_in(g.body) if (fb.callee(x) or "").endswith("GraphContext::collect")]
    same = coll and ("param", pname(g, 1)) in cg_.vprov(coll[0]["args"][0])
    if okg and same:
        rep.ok(rid, g.def_ + "|exports-relative-to-own-directory", "collect(key) rendered with key.parent()", g.loc)
    else:
        rep.violation(rid, g.def_ + "|exports-relative-to-own-directory", "Graph::to_markdown(key) does not render collect(key) relative to key.parent()", g.loc)
    # completion: link text relative to the *current* note's directory
    h = facts.fn("Server::handle_link_completion")
    rep.saw_fn(h)
    ch = ctx(h)
    tc = [x for x in fb.walk(h.body) if x.get("k") == "mcall" and x["name"] == "to_completion"]
    okc = False
    for r in tc:
        a0 = r["args"][0]
        while a0.get("k") in ("addrof", "unary"):
            a0 = a0["e"]
        a0 = through_lets(ch, a0)         # `let relative_to = current_key.parent(); .. to_completion(&relative_to, ..)`
        for y in fb.walk(a0):
            if y.get("k") == "mcall" and (fb.callee(y) or "").endswith("Key::parent"):
                pv = ch.vprov(y["recv"])
                if q.has_call(pv, "UrlExt::to_key") or any(a[0] == "field" and a[1] == "uri" for a in pv):
                    okc = True
    if okc:
        rep.ok(rid, h.def_ + "|completion-relative-to-current-note", "", h.loc)
    else:
        rep.violation(rid, h.def_ + "|completion-relative-to-current-note", "completion links are not written relative to the directory of the note being edited", h.loc)
    tl = facts.fn("KeyExt>::to_link")
    m = ctx(tl).mentions(tl.body)
    if q.has_call(m, "Key::to_rel_link_url"):
        rep.ok(rid, tl.def_ + "|uses-to_rel_link_url", "", tl.loc)
    else:
        rep.violation(rid, tl.def_ + "|uses-to_rel_link_url", "completion link text no longer uses Key::to_rel_link_url(relative_to)", tl.loc)
    # new keys are generated relative to the source note's directory
    k = 0
    for f in facts.body_fns():
        if f.crate != "iwes":
            continue
        c = None
        cnt = 0
        for x in fb.walk(f.body):
            if x.get("k") == "mcall" and x["name"] == "random_key" and "ActionContext" in (fb.callee(x) or "") + "ActionContext" and f.def_.endswith("::changes"):
                c = c or ctx(f)
                k += 1
                pv = c.vprov(x["args"][0]) if x["args"] else set()
                key = "%s|random_key-in-source-directory|%d" % (f.def_, cnt)
                cnt += 1
                if q.has_call(pv, "Key::parent"):
                    rep.ok(rid, key, fb.show(x)[:60], loc(f, x))
                else:
                    rep.violation(rid, key, "new note key is not generated in the directory of the source note: `%s`" % fb.show(x)[:60], loc(f, x))
    rep.floor(rid, "random_key call sites in action providers", k, 3)


SPLITTERS = {"split", "rsplit", "split_once", "rsplit_once", "splitn", "rsplitn", "find", "rfind", "split_terminator", "rsplit_terminator", "strip_prefix", "trim_start_matches",
             "split_at", "char_indices", "rmatches", "matches", "match_indices", "rmatch_indices"}


def rule_r3(facts, rep, rid="C15-R3"):
    """Read side and write side of relative links use ONE path algebra (the relative_path crate), and the reader normalises what the writer can emit."""
    KEY = "liwe::model::Key"
    want = {
        "Key::parent": ("relative_path::RelativePath::parent", "the directory of a key"),
        "Key::to_rel_link_url": ("relative_path::RelativePath::relative", "the url written for a key as seen from a directory (may start with ../)"),
        "Key::from_rel_link_url": ("relative_path::RelativePath::join_normalized", "the key a written url resolves to from a directory (must collapse the ../ the writer emits)"),
    }
    for nm, (callee, what) in sorted(want.items()):
        f = facts.fn(nm)
        rep.saw_fn(f)
        c = ctx(f)
        key = f.def_ + "|uses:" + fb.last_seg(callee)
        calls = [x for x in fb.walk(f.body) if x.get("k") in ("mcall", "call") and (fb.callee(x) or "").endswith(callee.split("::", 1)[1])]
        # the value returned must be derived from that call
        ret_atoms = c.mentions(f.body)
        if calls and q.has_call(ret_atoms, fb.last2(callee)):
            rep.ok(rid, key, "%s is computed with %s" % (what, fb.last2(callee)), loc(f, calls[0]))
        else:
            plain_join = [x for x in fb.walk(f.body) if x.get("k") == "mcall" and (fb.callee(x) or "").endswith("RelativePath::join")]
            extra = " (it uses the non-normalising RelativePath::join: `../x` from `dir` becomes the key `dir/../x`, which names no note)" if plain_join and nm.endswith("from_rel_link_url") else ""
            rep.violation(rid, key, "%s is no longer computed with %s%s: reader and writer of relative links use different path algebras, so a written link need not resolve back" % (what, callee, extra), f.loc)
        if nm == "Key::to_rel_link_url" and calls:
            # the url is the way to the note's DIRECTORY plus its name: relative(<key itself>) is empty for a note named like the linking directory
            key2 = f.def_ + "|relative-goes-through-the-directory"
            args = [fb.show_canon(f, a) for x_ in calls for a in x_.get("args", [])]
            via_dir = any("parent()" in a or a.strip("&") in ("b0", "b0.clone()") for a in args) and any(
                y.get("k") == "mcall" and y["name"] == "join" for y in fb.walk(f.body)) and any(y.get("k") == "mcall" and y["name"] == "file_name" for y in fb.walk(f.body))
            if via_dir:
                rep.ok(rid, key2, "relative(<directory of the key>).join(<file name>)", loc(f, calls[0]))
            else:
                rep.violation(rid, key2, "Key::to_rel_link_url asks for the relative path to the key itself (%s): from the directory `d` the top-level note `d` gets the empty url, so a block "
                              "reference to it is written `[..]()` and no longer resolves" % args, loc(f, calls[0]))
        # no ad-hoc separator arithmetic in these three fns
        adhoc = []
        for x in fb.walk(f.body):
            if x.get("k") == "mcall" and x["name"] in SPLITTERS and (fb.callee(x) or "").startswith(("core::str::", "std::str::", "alloc::str::", "alloc::string::", "std::string::")):
                lit = [a for a in x["args"] if a.get("k") == "lit" and "/" in str(a.get("v", ""))]
                if lit:
                    adhoc.append(x)
        key = f.def_ + "|no-ad-hoc-separator-arithmetic"
        if adhoc:
            rep.violation(rid, key, "`%s` handles the `/` separator by hand in %s: component boundaries (a/b vs a/bc, nested directories) are not respected the way the other two "
                          "key/url conversions respect them" % (fb.show(adhoc[0])[:70], nm), loc(f, adhoc[0]))
        else:
            rep.ok(rid, key, "no string splitting on '/'", f.loc)
    # who else does directory arithmetic on keys by hand?  (crate-wide inventory, expected empty)
    n = 0
    for f in facts.body_fns():
        if f.crate not in ("liwe", "iwes") or "::tests::" in f.def_ or "::test::" in f.def_ or f.kind == "closure":
            continue
        if not ("model" in (f.file or "") or "projector" in (f.file or "")):
            continue
        for x in fb.walk(f.body):
            if x.get("k") == "mcall" and x["name"] in SPLITTERS and (fb.callee(x) or "").startswith(("core::str::", "std::str::", "alloc::str::")):
                lit = [a for a in x["args"] if a.get("k") == "lit" and "/" in str(a.get("v", ""))]
                if lit and not f.def_.endswith(tuple(want.keys())):
                    n += 1
                    rep.violation(rid, "%s|ad-hoc-separator|%s" % (f.def_, x["name"]), "hand-written `/` handling `%s` in the key/link model" % fb.show(x)[:70], loc(f, x))
    rep.ok(rid, "model|ad-hoc-separator-inventory", "%d hand-written separator operations in the key/link model" % n, None, nontrivial=False)
    # the projector threads the note's directory into every nested projection (quotes, list items)
    pj = facts.fn("Projector::with")
    st = [x for x in fb.walk(pj.body) if x.get("k") == "struct" and fb.norm(x.get("def", "")).endswith("Projector")]
    key = pj.def_ + "|keeps-parent"
    cpj = ctx(pj)
    okp = any(fl["name"] == "parent" and ("self.parent" in fb.show(fl["e"]).replace(" ", "") or {("field", "parent"), ("param", "self")} <= cpj.vprov(fl["e"]))
              for s in st for fl in s["fields"])
    if okp:
        rep.ok(rid, key, "with(level) copies self.parent", pj.loc)
    else:
        rep.violation(rid, key, "Projector::with does not carry the note's directory into nested projections", pj.loc)
    n_ctor = 0
    for f in facts.body_fns():
        if f.crate != "liwe" or "::tests::" in f.def_:
            continue
        for x in fb.walk(f.body):
            made = None
            if x.get("k") == "struct" and fb.norm(x.get("def", "")).endswith("projector::Projector"):
                made = "literal"
            if x.get("k") in ("call", "mcall") and (fb.callee(x) or "").endswith(("Default>::default", "Default::default")) and "Projector" in (x.get("ty") or ""):
                made = "Default::default()"
            if made:
                owner = f.parent if f.kind == "closure" and f.parent else f.def_
                n_ctor += 1
                key = "%s|constructs-projector|%s" % (owner, made)
                if owner.endswith(("Projector::project", "Projector::with")) and made == "literal":
                    rep.ok(rid, key, "audited constructor site", loc(f, x), nontrivial=False)
                else:
                    rep.violation(rid, key, "a Projector is built by %s in %s: nested blocks would be rendered without the note's directory (block references inside quotes / list items "
                                  "come out relative to the library root)" % (made, owner), loc(f, x))
    rep.floor(rid, "Projector construction sites", n_ctor, 2)


def rule_r4(facts, rep, rid="C15-R4"):
    """A key is resolved against a directory exactly once: Key::from_rel_link_url takes a *url* (text from a link / the user), never something derived from a Key."""
    n = 0
    for f in facts.body_fns():
        if f.crate not in ("liwe", "iwes", "iwe") or f.kind == "closure" or "::tests::" in f.def_ or "::test::" in f.def_:
            continue
        i = 0
        for x in fb.walk(f.body):
            if x.get("k") == "call" and (fb.callee(x) or "").endswith("Key::from_rel_link_url") and x.get("args"):
                rep.saw_fn(f)
                n += 1
                key = "%s|from_rel_link_url|%d|argument-is-a-url" % (f.def_, i)
                i += 1
                c = ctx(f)
                # walk the *value spine* of the argument: receivers of conversions, bases of fields, initialisers of simple `let` locals
                from_key = []
                e = x["args"][0]
                hops = 0
                while e is not None and hops < 12:
                    hops += 1
                    k_ = e.get("k")
                    t = fb.tnorm(e.get("ty") or "")
                    if "liwe::model::Key" in t and "Option<" not in t and "fn(" not in t:
                        from_key.append(e)
                        break
                    if k_ in ("addrof", "unary", "cast"):
                        e = e["e"]
                    elif k_ == "mcall":
                        if "liwe::model::Key" in fb.tnorm(e.get("rty") or ""):
                            from_key.append(e)
                            break
                        e = e["recv"]
                    elif k_ == "field":
                        if "liwe::model::Key" in fb.tnorm(e.get("bty") or ""):
                            from_key.append(e)
                            break
                        e = e["e"]
                    elif k_ == "path" and e.get("res") == "local":
                        b = c.binds.get(e["id"])
                        if b and b[0] == "expr" and len(b) > 2 and b[2].get("k") == "p_bind" and c.parent_of.get(id(b[1])) is not None and c.parent_of[id(b[1])].get("k") == "let":
                            e = b[1]
                        else:
                            break
                    elif k_ == "call" and e.get("args") and fb.last_seg(fb.callee(e) or "") in ("format", "must_use", "from", "to_string"):
                        e = e["args"][0]
                    else:
                        break
                if from_key:
                    rep.violation(rid, key, "Key::from_rel_link_url is applied to `%s`, which is derived from a Key (`%s`): keys are already resolved (SectionsBuilder resolves a reference against "
                                  "the linking note's directory when it is read), so resolving again applies the directory twice - `d/3` becomes `d/d/3` and the reference no longer finds its note" % (
                                      fb.show(x["args"][0])[:60], fb.show(from_key[0])[:40]), loc(f, x))
                else:
                    rep.ok(rid, key, "argument `%s` is url text" % fb.show(x["args"][0])[:50], loc(f, x))
    rep.floor(rid, "Key::from_rel_link_url call sites", n, 4)


def run(facts, rep, tier):
    rep.rule("C15-R1", "Every rendered text is relativised against the directory of the note it will be stored under: for each Change::Update{key: K, markdown: M}, "
             "M comes from to_markdown(&K.parent(), ..) or Graph::to_markdown(&K) (never to_default_markdown / another key's parent); Graph::to_markdown "
             "renders collect(key) with key.parent(); completion links and new keys are relative to the current/source note's directory.")
    rep.rule("C15-R2", "= C05-R2 (read side): every from_rel_link_url(url, D) has D derived from the containing note's parent(); link urls never go through from_file_name.")
    rep.rule("C15-R3", "One path algebra: Key::parent / to_rel_link_url / from_rel_link_url are computed with relative_path's parent / relative / join_normalized (the reader collapses "
             "the ../ the writer emits), none of them handles '/' by hand, and the projector carries the note's directory into every nested projection (only project() and with() build one).")
    rule_r1(facts, rep)
    c05.rule_r2(facts, rep, "C15-R2")
    rule_r3(facts, rep)
    rep.rule("C15-R4", "A key is resolved against a directory exactly once: every Key::from_rel_link_url call gets url text, never a value derived from a Key.")
    rule_r4(facts, rep)
