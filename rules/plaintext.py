"""The text of an inline (shared by C06 / C09 / C18): titles, reference texts, symbol names and search paths are all `plain_text` of a line.

`GraphInline::plain_text` / `DocumentInline::to_plain_text` are variant tables.  Every variant that carries text - a string or nested inlines - has its own arm whose value is
built from that payload (recursively for containers); the catch-all `_ => ""` may only take variants that are audited to contribute nothing.  A text-bearing variant that slides
into the catch-all (e.g. while the arms are merged into or-patterns) silently removes its words from every title and reference text built from such a line."""
from vlib import factbase as fb
from .common import ctx, loc, match_arms_on, arms_by_variant, _applies

# variants that carry no words of their own
SPACING = {"Space", "SoftBreak", "LineBreak"}
# audited: text-bearing variants that are left out of the plain text on the pinned tree
AUDITED_SILENT = {
    ("GraphInline", "Math"): "a formula is markup, not words: left out of titles since the first version (both tables agree)",
    ("DocumentInline", "Math"): "a formula is markup, not words: left out of titles since the first version (both tables agree)",
}
CONTAINERS = {"Emph", "Underline", "Strong", "Strikeout", "Superscript", "Subscript", "SmallCaps", "Link", "Image"}


_LOSSY = {"filter", "filter_map", "skip", "take", "step_by", "take_while", "skip_while", "find", "find_map", "nth", "last", "dedup", "unique", "first", "next", "position",
          "min", "max", "min_by", "max_by", "min_by_key", "max_by_key", "truncate", "pop", "remove", "retain", "drain", "split_off", "split_first", "split_last", "chunks", "windows"}


def _full_fold(scope):
    """Is there, under `scope`, a fold that applies a `*plain_text` fn to every element of a sequence - `xs.iter().map(|i| i.plain_text())` without a dropping adapter in the chain,
    `.map(Self::to_plain_text)`, or a `for` loop whose body calls it unconditionally?  -> None if so, else a reason."""
    why = "no fold over the inlines found"
    for x in fb.walk(scope):
        if x.get("k") == "mcall" and x["name"] in ("map", "flat_map", "for_each", "fold") and x.get("args") and _applies(x["args"][-1], "plain_text"):
            names, r = [], x
            p = x["recv"]
            while p is not None and p.get("k") == "mcall":
                names.append(p["name"])
                p = p["recv"]
            bad = sorted(set(names) & _LOSSY)
            if not bad:
                return None
            why = "the chain drops elements (%s) before the text is taken" % ", ".join(bad)
        if x.get("k") == "match" and x.get("src") == "ForLoopDesugar":
            body = None
            for m in fb.walk(x):
                if m.get("k") == "match" and m is not x:
                    for arm in m.get("arms", []):
                        if any(fb.last_seg(v or "") == "Some" for v in fb.pat_variants(arm["pat"])):
                            body = arm["body"]
                    if body is not None:
                        break
            if body is None:
                continue
            calls = [y for y in fb.walk(body) if y.get("k") in ("call", "mcall") and "plain_text" in (fb.callee(y) or y.get("name") or "")]
            cond = [y for y in fb.walk(body) if y.get("k") in ("break", "continue", "ret") or (y.get("k") in ("if", "match") and y.get("src", "Normal") == "Normal")]
            head = [y["name"] for y in fb.walk(x["e"]) if y.get("k") == "mcall" and y["name"] in _LOSSY]
            if calls and not cond and not head:
                return None
            if calls:
                why = "the loop over the inlines is conditional or partial"
    return why


def _folds_all(facts, f, body, depth=0):
    """The arm's value is the plain text of *all* nested inlines: a full fold in the arm itself, or a call of a helper (given the payload) whose body is one."""
    if _full_fold(body) is None:
        return None
    why = "no fold over the nested inlines"
    for y in fb.walk(body):
        if y.get("k") in ("call", "mcall") and "plain_text" in (fb.callee(y) or y.get("name") or ""):
            g = facts.fns.get(fb.norm(fb.callee(y) or "")) or facts.fns.get(fb.callee(y) or "")
            if g is None or g.body is None:
                why = "`%s` cannot be resolved to a fn of the workspace" % fb.show(y)[:40]
                continue
            if g is f:
                why = "the table is applied to one inline only"
                continue
            w = _full_fold(g.body)
            if w is None:
                return None
            if depth < 2:
                w2 = _folds_all(facts, g, g.body, depth + 1)
                if w2 is None:
                    return None
            why = "%s: %s" % (fb.last2(g.def_), w)
    return why


def rule_plain_text(facts, rep, rid):
    n = 0
    for fn_suffix, enum_suffix in (("GraphInline::plain_text", "GraphInline"), ("DocumentInline::to_plain_text", "DocumentInline")):
        f = facts.fn(fn_suffix)
        rep.saw_fn(f)
        c = ctx(f)
        ms = match_arms_on(f, enum_suffix)
        if not ms:
            rep.violation(rid, f.def_ + "|variant-table", "%s is no longer a match over %s: re-audit which variants contribute text" % (fb.last2(f.def_), enum_suffix), f.loc)
            continue
        enum_path = [p for p in facts.adts if p.endswith("::" + enum_suffix) and facts.adts[p].get("variants")]
        if len(enum_path) != 1:
            rep.anchor_missing(rid, "enum " + enum_suffix)
            continue
        table = arms_by_variant(facts, ms[0], enum_path[0])
        for v in [x["path"] for x in facts.adts[enum_path[0]]["variants"]]:
            vn = fb.last_seg(v)
            key = "%s|arm:%s" % (f.def_, vn)
            n += 1
            if v not in table:
                rep.violation(rid, key, "no arm covers %s" % vn, f.loc)
                continue
            arm, binds, wild = table[v]
            if vn in SPACING:
                rep.ok(rid, key, "spacing variant", loc(f, arm["body"]), nontrivial=False)
                continue
            if wild:
                if (enum_suffix, vn) in AUDITED_SILENT:
                    rep.ok(rid, key, "catch-all (audited: %s)" % AUDITED_SILENT[(enum_suffix, vn)], loc(f, arm["body"]))
                else:
                    rep.violation(rid, key, "%s::%s carries text but falls into the catch-all arm of %s, which yields \"\": its words vanish from every title, reference text, symbol "
                                  "name and search path built from a line that contains it" % (enum_suffix, vn, fb.last2(f.def_)), loc(f, arm["body"]))
                continue
            ids = set(lid for _nm, lid in binds)
            used = [y for y in fb.walk(arm["body"]) if y.get("k") == "path" and y.get("res") == "local" and y.get("id") in ids]
            if not used and (enum_suffix, vn) in AUDITED_SILENT:
                rep.ok(rid, key, "contributes nothing (audited: %s)" % AUDITED_SILENT[(enum_suffix, vn)], loc(f, arm["body"]))
                continue
            if not used:
                rep.violation(rid, key, "the arm for %s::%s does not use the variant's payload: its text is replaced by a constant" % (enum_suffix, vn), loc(f, arm["body"]))
                continue
            if vn in CONTAINERS:
                why = _folds_all(facts, f, arm["body"])
                if why:
                    rep.violation(rid, key, "the arm for the container %s::%s does not take the plain text of all its nested inlines: %s" % (enum_suffix, vn, why), loc(f, arm["body"]))
                    continue
            rep.ok(rid, key, "text from the payload", loc(f, arm["body"]))
    rep.floor(rid, "variants of the two plain-text tables", n, 32)
