"""Structural accessor tables of the document model (C13, shared with C08): `Document::link_at` finds the link under the cursor by descending through
`DocumentBlock::child_blocks`, `DocumentBlock::child_inlines` and `DocumentInline::child_inlines`.  Each is a variant table; a variant whose payload has nested content
(`blocks` / `items` / `inlines`) must hand that content out - if it slides into a `_ => vec![]` arm, the links inside such a block (a heading, a quote, an emphasis) are invisible to
go-to-definition, prepare-rename and rename.  The cells of a table are nested inlines as well (header / rows): they were not handed out on the pinned tree (repaired in 82acfd5)."""
from vlib import factbase as fb
from . import arms as A
from .common import ctx, loc, match_arms_on, arms_by_variant

TABLES = (
    ("DocumentBlock::child_blocks", "DocumentBlock", ("blocks", "items")),
    ("DocumentBlock::child_inlines", "DocumentBlock", ("inlines",)),
    ("DocumentInline::child_inlines", "DocumentInline", ("inlines",)),
)
AUDITED_EMPTY = {
    ("DocumentBlock::child_blocks", "Table"): "cells hold inlines, not blocks",
}
# nested inline content that is not called `inlines`: the cells of a table (header row and body rows)
EXTRA_NESTED = {("DocumentBlock::child_inlines", "Table"): ("header", "rows")}


def rule_child_tables(facts, rep, rid):
    n = 0
    for fn_suffix, enum_suffix, want in TABLES:
        f = facts.fn(fn_suffix)
        rep.saw_fn(f)
        ms = match_arms_on(f, enum_suffix)
        enum_path = [p for p in facts.adts if p.endswith("::" + enum_suffix) and len(facts.adts[p].get("variants", [])) > 1]
        if not ms or len(enum_path) != 1:
            rep.anchor_missing(rid, "variant table in " + fn_suffix)
            continue
        table = arms_by_variant(facts, ms[0], enum_path[0])
        for var in facts.adts[enum_path[0]]["variants"]:
            vn = fb.last_seg(var["path"])
            nested = []
            for fl in var["fields"]:
                st = A.struct_of_type(facts, fl["ty"])
                if st is not None:
                    nested += [x["name"] for x in st["variants"][0]["fields"] if x["name"] in want]
            key = "%s|arm:%s|hands-out-%s" % (f.def_, vn, "/".join(want))
            if not nested and (fn_suffix, vn) in EXTRA_NESTED:
                for fl in var["fields"]:
                    st = A.struct_of_type(facts, fl["ty"])
                    if st is not None:
                        nested += [x["name"] for x in st["variants"][0]["fields"] if x["name"] in EXTRA_NESTED[(fn_suffix, vn)]]
                key = "%s|arm:%s|hands-out-cells" % (f.def_, vn)
            if not nested:
                continue
            n += 1
            if var["path"] not in table:
                rep.violation(rid, key, "no arm covers %s" % vn, f.loc)
                continue
            arm, binds, wild = table[var["path"]]
            uses = [y for y in fb.walk(arm["body"]) if y.get("k") == "field" and y.get("name") in nested]
            if not uses:
                # the same field taken out by the pattern: `BlockQuote(BlockQuote { blocks, .. }) => blocks.iter().collect()`
                from vlib import q as _q
                ids = set(lid for lid, p in _q.pat_positions(arm["pat"]) if p.rsplit(".", 1)[-1] in nested)
                uses = [y for y in fb.walk(arm["body"]) if y.get("k") == "path" and y.get("res") == "local" and y.get("id") in ids]
            if uses and not wild:
                rep.ok(rid, key, "returns the payload's %s" % nested[0], loc(f, arm["body"]))
            elif (fn_suffix, vn) in AUDITED_EMPTY:
                rep.ok(rid, key, "audited: " + AUDITED_EMPTY[(fn_suffix, vn)], loc(f, arm["body"]), nontrivial=False)
            else:
                rep.violation(rid, key, "%s::%s has nested %s but %s does not hand them out (%s): a link inside such a block is not found under the cursor - go-to-definition, "
                              "prepare-rename and rename do nothing there" % (enum_suffix, vn, nested[0], fb.last2(f.def_), "catch-all arm" if wild else "payload unused"), loc(f, arm["body"]))
    rep.floor(rid, "variants with nested content in the three child tables", n, 15)
