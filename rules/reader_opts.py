"""The Markdown dialect the reader is built for (shared by C01 / C07): the pulldown-cmark extensions switched on are exactly the ones the event reader has arms for.

An extension changes which characters of the text are markup.  The reader models metadata blocks, wiki links and tables; for any other extension
(heading attributes `# T {#id}`, footnotes, task lists, smart punctuation, math, definition lists, GFM alerts, strikethrough, ...) the parser consumes or rewrites
characters that the document model has no place for, so they are gone (or changed) when the note is written back.  Switching one of the three off turns
tables / wiki links / front matter into plain paragraphs, which the writer then escapes.  Either way the set is part of the format contract: it is audited as a set."""
from vlib import factbase as fb

AUDITED = {
    "ENABLE_YAML_STYLE_METADATA_BLOCKS": "front matter: MetadataBlock events are collected into Document.metadata",
    "ENABLE_WIKILINKS": "[[key]] / [[key|text]]: Link events with the wiki link types, kept by kind",
    "ENABLE_TABLES": "pipe tables: Table / TableHead / TableRow / TableCell events build DocumentBlock::Table",
}


def rule_reader_options(facts, rep, rid):
    seen = {}
    odd = []
    for f in facts.body_fns():
        if f.crate not in ("liwe", "iwes", "iwe") or "::tests::" in f.def_:
            continue
        for x in fb.walk(f.body):
            d = fb.norm(x.get("def") or "") if x.get("k") == "path" else ""
            if d.startswith("pulldown_cmark::Options::"):
                name = fb.last_seg(d)
                if name.startswith("ENABLE_"):
                    seen.setdefault(name, (f, x))
                else:
                    odd.append((f, x, name))
            if x.get("k") in ("call", "mcall"):
                cal = fb.callee(x) or ""
                if cal.startswith("pulldown_cmark::Options::") or "bitflags" in cal and "pulldown_cmark::Options" in (x.get("ty") or ""):
                    if fb.last_seg(cal) in ("all", "from_bits", "from_bits_truncate", "from_bits_retain", "from_name", "complement", "insert", "set", "toggle", "remove", "union", "difference", "not"):
                        odd.append((f, x, fb.last_seg(cal) + "()"))
    for name, why in sorted(AUDITED.items()):
        key = "reader-option:" + name
        if name in seen:
            f, x = seen[name]
            rep.ok(rid, key, why, "%s:%s" % (f.loc.split(":")[0], x.get("ln")) if x.get("ln") else f.loc)
        else:
            rep.violation(rid, key, "the reader no longer enables pulldown_cmark::Options::%s (%s): that syntax is read as plain text and escaped when written back" % (name, why))
    for name in sorted(set(seen) - set(AUDITED)):
        f, x = seen[name]
        rep.violation(rid, "reader-option:" + name, "the reader enables pulldown_cmark::Options::%s, an extension the event reader and the document model have no place for: the characters "
                      "the parser takes as that markup are dropped or rewritten when the note is formatted; if the reader handles it, audit it (rules/reader_opts.py)" % name,
                      "%s:%s" % (f.loc.split(":")[0], x.get("ln")) if x.get("ln") else f.loc)
    for f, x, name in odd:
        rep.violation(rid, "reader-option:computed:%s:%s" % (f.def_, name), "the parser options are computed with Options::%s: the set of enabled extensions is no longer the audited one" % name, f.loc)
    rep.floor(rid, "parser extensions seen", len(seen), 3)
