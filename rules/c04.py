"""C04 - incremental edits leave the same library as a fresh start (structural necessary conditions)."""
from vlib import factbase as fb
from vlib import q
from .common import pname, ctx, loc, chain_up, self_field, field_of, match_arms_on, arms_by_variant, is_empty_body, in_closure_of_option_method, strip_refs, delegates_to

REFINDEX = "liwe::graph::index::RefIndex"
GRAPH = "liwe::graph::Graph"
GRAPHNODE = "liwe::graph::graph_node::GraphNode"
ARENA = "liwe::graph::arena::Arena"


# ------------------------------------------------------------------------------------------ R1

def raw_index_readers(facts):
    """Methods of RefIndex that hand out node ids (the raw, unfiltered accessors)."""
    out = []
    for f in facts.fn_list:
        if f.impl_self == REFINDEX and f.kind == "method" and f.body is not None and not f.impl_trait:
            ret = f.ret or ""
            if "u64" in ret or "NodeId" in ret or "HashSet" in ret:
                out.append(f)
    return out


def has_tombstone_filter(c, call):
    """The result of `call` flows through filter(|id| !<...>.is_empty()) in its method chain."""
    from .common import value_chain
    for m in value_chain(c, call):
        if m["name"] in ("filter", "filter_map", "retain", "take_while"):
            for a in m["args"]:
                if a.get("k") == "closure":
                    for x in fb.walk(a["body"]):
                        if x.get("k") == "unary" and x.get("op") == "!":
                            for y in fb.walk(x["e"]):
                                if y.get("k") == "mcall" and (fb.callee(y) or "").endswith("GraphNode::is_empty"):
                                    return True
    return False


def rule_r1(facts, rep, rid="C04-R1"):
    readers = raw_index_readers(facts)
    if len(readers) < 2:
        rep.anchor_missing(rid, "raw accessors of RefIndex (expected >= 2 methods returning node ids)")
        return
    names = set(r.def_ for r in readers)
    n_sites = 0
    counts = {}
    wrappers = set()
    for f in facts.body_fns():
        if f.crate not in ("liwe", "iwes", "iwe"):
            continue
        if f.impl_self == REFINDEX:
            continue
        c = None
        for call in fb.calls_in(f.body, lambda p: p in names):
            c = c or ctx(f)
            rep.saw_fn(f)
            n_sites += 1
            cal = fb.callee(call)
            n = counts.get((f.def_, cal), 0)
            counts[(f.def_, cal)] = n + 1
            key = "%s|raw-index-read|%s|%d" % (f.def_, fb.last_seg(cal), n)
            if f.impl_self == GRAPH and has_tombstone_filter(c, call):
                wrappers.add(f.def_)
                rep.ok(rid, key, "filtered wrapper: result passes filter(!graph_node(id).is_empty())", loc(f, call))
            else:
                rep.violation(rid, key, "raw read of the merge-only reference index `%s` without the tombstone filter: after any update "
                              "the index still holds ids of deleted (Empty) nodes, so this read sees earlier versions of notes "
                              "(use Graph::get_*_references_to)" % fb.last2(cal), loc(f, call))
        # direct field reads of the index maps outside RefIndex
        for x in fb.walk(f.body):
            fo = field_of(x)
            if fo and fo[0] == REFINDEX:
                rep.violation(rid, "%s|raw-index-field|%s" % (f.def_, fo[1]), "direct read of RefIndex.%s outside RefIndex" % fo[1], loc(f, x))
    rep.floor(rid, "call sites of raw RefIndex accessors", n_sites, 2)
    if len(wrappers) < 2:
        rep.violation(rid, "wrappers|missing", "expected two tombstone-filtering wrappers in impl Graph, found %s" % sorted(wrappers))


# ------------------------------------------------------------------------------------------ R2

def find_index_walker(facts):
    cands = []
    for f in facts.fn_list:
        if f.impl_self == REFINDEX and f.body is not None and match_arms_on(f, "GraphNode"):
            if any(fb.callee(x) == f.def_ for x in fb.calls_in(f.body)):
                cands.append(f)
    if len(cands) == 1:
        return cands[0]
    return facts.fn("RefIndex::index_node")


def payload_struct(facts, variant_path):
    adt = facts.adts[GRAPHNODE]
    for v in adt["variants"]:
        if v["path"] == variant_path:
            if v["fields"]:
                t = fb.norm(v["fields"][0]["ty"])
                return facts.adts.get(t)
    return None


def rule_r2(facts, rep, rid="C04-R2"):
    f = find_index_walker(facts)
    rep.saw_fn(f)
    ms = match_arms_on(f, "GraphNode")
    if not ms:
        rep.anchor_missing(rid, "match on GraphNode in the index walker")
        return
    m = ms[0]
    c = ctx(f)
    arms = arms_by_variant(facts, m, GRAPHNODE)
    n = 0
    # a walk step shared by all kinds: recursive calls outside the per-kind match (`if let Some(c) = node.child_id() { self.index_node(c) }` after it)
    in_match = set(id(y) for y in fb.walk(m))
    tail_prov = set()
    for rc in [x for x in fb.calls_in(f.body) if fb.callee(x) == f.def_ and id(x) not in in_match]:
        arg = rc["args"][-1] if rc["args"] else None
        tail_prov |= c.vprov(arg)
    for v in [x["path"] for x in facts.adts[GRAPHNODE]["variants"]]:
        vs = fb.last_seg(v)
        st = payload_struct(facts, v)
        if st is None:
            rep.ok(rid, "%s|arm:%s" % (f.def_, vs), "variant carries no payload", loc(f), nontrivial=False)
            continue
        fields = {fl["name"]: fl["ty"] for fl in st["variants"][0]["fields"]}
        if v not in arms:
            rep.violation(rid, "%s|arm:%s|missing" % (f.def_, vs), "no arm covers GraphNode::%s" % vs, loc(f, m))
            continue
        arm, binds, wild = arms[v]
        body = arm["body"]
        rec_calls = [x for x in fb.calls_in(body) if fb.callee(x) == f.def_]
        rec_prov = set()
        for rc in rec_calls:
            arg = rc["args"][-1] if rc["args"] else None
            rec_prov |= c.vprov(arg)
        rec_prov |= tail_prov
        ment = set(c.mentions(body))
        # bounded inlining: helper methods of RefIndex called from the arm (extract-method refactorings)
        for _lvl in range(2):
            for a_ in list(ment):
                if a_[0] == "call" and a_[1] in facts.fns and a_[1] != f.def_:
                    hf = facts.fns[a_[1]]
                    if hf.impl_self == REFINDEX and hf.body is not None:
                        ment |= ctx(hf).mentions(hf.body)
        aloc = "%s:%s" % (f.file, arm.get("ln"))
        for fname, need in (("next", "next_id"), ("child", "child_id")):
            if fname in fields and "Option" in fields[fname]:
                n += 1
                key = "%s|arm:%s|walks:%s" % (f.def_, vs, fname)
                okp = any(a[0] == "call" and a[1] and a[1].endswith("::" + need) for a in rec_prov) or ("field", fname) in rec_prov
                if okp:
                    rep.ok(rid, key, "recursive call on %s" % need, aloc)
                else:
                    rep.violation(rid, key, "GraphNode::%s has a `%s` link but the index walker's arm does not recurse on it: every node "
                                  "reachable only through that link is never indexed on the incremental path (Graph::from_markdown indexes "
                                  "only the new root), while Graph::import indexes every arena slot" % (vs, fname), aloc)
        line_fields = [fn_ for fn_, ty in fields.items() if fn_ == "line" or ("Vec<usize>" in ty)]
        for lf in line_fields:
            n += 1
            key = "%s|arm:%s|records-links-of:%s" % (f.def_, vs, lf)
            if q.has_call(ment, "Line::ref_keys") and q.has_call(ment, "HashSet::insert"):
                rep.ok(rid, key, "ref_keys() of the line(s) are inserted into the index", aloc)
            else:
                rep.violation(rid, key, "GraphNode::%s holds inline text (`%s`) but the arm does not record the links in it "
                              "(no Line::ref_keys -> HashSet::insert): inline references from this kind of block are missing from "
                              "backlinks after an incremental update" % (vs, lf), aloc)
        if "key" in fields and "next" in fields:
            n += 1
            key = "%s|arm:%s|records-block-reference" % (f.def_, vs)
            if ("field", "block_references") in ment and q.has_call(ment, "HashSet::insert"):
                rep.ok(rid, key, "block reference inserted", aloc)
            else:
                rep.violation(rid, key, "Reference arm does not insert into block_references", aloc)
    rep.floor(rid, "walker obligations (variant x link/line field)", n, 19)


# ------------------------------------------------------------------------------------------ R3

def rule_r3(facts, rep, rid="C04-R3"):
    g = facts.adt(GRAPH)
    fm = facts.fn("Graph::from_markdown")
    rep.saw_fn(fm)
    bodies = [fm]
    # one level of local callees that are methods of Graph (build_key registers the key)
    for call in fb.calls_in(fm.body):
        cal = fb.callee(call)
        cf = facts.fns.get(cal)
        if cf is not None and cf.impl_self == GRAPH and cf.body is not None and cf not in bodies:
            bodies.append(cf)
    per_key = [fl for fl in g["variants"][0]["fields"] if fl["ty"].startswith("std::collections::HashMap<liwe::model::Key,")]
    rep.floor(rid, "per-key maps in Graph", len(per_key), 4)
    # every path through the single-key update re-derives the caches: no `return` before the last cache write
    names_pk = set(fl["name"] for fl in per_key) | {"index"}
    writes_pos = [(x.get("s") or [0])[0] for x in fb.walk(fm.body) if x.get("k") == "mcall" and self_field(x.get("recv")) in names_pk
                  and x["name"] in ("insert", "remove", "extend", "merge", "entry")]
    last_w = max(writes_pos) if writes_pos else 0
    early = [r_ for r_ in fb.walk(fm.body, into_closures=False) if r_.get("k") == "ret" and (r_.get("s") or [0])[0] < last_w]
    key_er = "%s|no-early-return-before-cache-refresh" % fm.def_
    if early:
        cfm = ctx(fm)
        guard = [p_ for p_ in cfm.parents(early[0]) if p_.get("k") in ("if", "match")]
        rep.violation(rid, key_er, "Graph::from_markdown returns early under `%s`, before the index merge / per-key caches (title, ...) were refreshed: on that path the previous version's "
                      "cached values survive the update (a fresh build has none)" % (fb.show(guard[0].get("c") or guard[0].get("e"))[:70] if guard else "?"), loc(fm, early[0]))
    else:
        rep.ok(rid, key_er, "no return before the last cache write", fm.loc)
    for fl in per_key:
        name = fl["name"]
        inserts, removes = [], []
        for b in bodies:
            c = ctx(b)
            for x in fb.walk(b.body):
                if x.get("k") == "mcall" and self_field(x.get("recv")) == name:
                    cal = fb.callee(x) or ""
                    if cal.endswith("HashMap::insert") or cal.endswith("HashMap::entry") or cal.endswith("HashMap::extend"):
                        inserts.append((b, c, x))
                    elif cal.endswith("HashMap::remove"):
                        removes.append((b, c, x))
        key = "%s|cache:%s" % (fm.def_, name)
        # a per-key cache must be REPLACED by the new version: entry(k).or_*().extend/push(..) accumulates on top of the previous version's value
        acc = []
        for b, c, x in inserts:
            cal = fb.callee(x) or ""
            if cal.endswith("HashMap::entry"):
                ups = [m["name"] for m in chain_up(c, x)]
                if not any(u in ("insert", "insert_entry") for u in ups) and not (ups and ups[0] == "or_insert" and False):
                    acc.append((b, x, ups))
        if acc:
            b, x, ups = acc[0]
            rep.violation(rid, key + "|accumulates", "Graph.%s is updated through `entry(key).%s(..)`: the new version's value is added to the previous version's instead of replacing it, so "
                          "what earlier versions of the note recorded under this key (line ranges of deleted blocks, ...) stays and is used again" % (name, ".".join(ups[:3])), loc(b, x))
            continue
        if not inserts:
            rep.violation(rid, key + "|no-write", "per-key map Graph.%s is not written when a key is updated: it keeps the value of the "
                          "previous version of the note" % name, fm.loc)
            continue
        conditional = []
        for b, c, x in inserts:
            g_ = in_closure_of_option_method(c, x)
            if g_ is not None:
                conditional.append((b, c, x, g_))
        if not conditional:
            rep.ok(rid, key, "unconditionally re-written on update (%d write site(s))" % len(inserts), loc(inserts[0][0], inserts[0][2]))
            continue
        # value is optional: a remove must exist outside the conditional region
        ok_remove = False
        for b, c, x in removes:
            inside = False
            for (_b2, _c2, _x2, guard) in conditional:
                if guard in c.parents(x) and _in_then_or_closure(c, x, guard):
                    inside = True
            if not inside:
                ok_remove = True
        b, c, x, guard = conditional[0]
        if ok_remove:
            rep.ok(rid, key, "optional value: insert on the Some edge and remove on the complementary edge", loc(b, x))
        else:
            rep.violation(rid, key + "|no-remove-edge", "Graph.%s is only inserted when the new version has a value (`%s`) and never removed "
                          "when it has none: after an edit that removes the value the map keeps the stale entry (fresh build has none)"
                          % (name, fb.show(guard)[:120]), loc(b, x))


def _in_then_or_closure(c, node, guard):
    """node lies in the Some-side of guard (then-branch / closure arg), not its else side."""
    if guard.get("k") == "if":
        t = guard.get("t")
        return any(p is t for p in [node] + c.parents(node))
    return True


# ------------------------------------------------------------------------------------------ R4

def rule_r4(facts, rep, rid="C04-R4"):
    uk = facts.fn("Graph::update_key")
    rep.saw_fn(uk)
    cfg = uk.cfg
    dels = cfg.calls(lambda p: p.endswith("Arena::delete_branch"))
    fms = cfg.calls(lambda p: p.endswith("Graph::from_markdown"))
    key = uk.def_ + "|delete-old-then-reparse"
    if not dels:
        rep.violation(rid, key + "|no-delete", "update_key does not tombstone the previous version (no Arena::delete_branch call): old blocks stay live and indexed", uk.loc)
    elif not fms:
        rep.violation(rid, key + "|no-reparse", "update_key does not call Graph::from_markdown", uk.loc)
    else:
        d_bb = dels[0][0]
        f_bb = fms[0][0]
        rets = cfg.return_blocks()
        probs = []
        if not cfg.reaches(d_bb, f_bb):
            probs.append("delete_branch does not precede from_markdown")
        if not all(cfg.dominates(f_bb, r) for r in rets):
            probs.append("from_markdown is not executed on every path")
        # the argument of delete_branch is the id registered for this key
        c = ctx(uk)
        hcalls = [x for x in fb.calls_in(uk.body) if (fb.callee(x) or "").endswith("Arena::delete_branch")]
        if hcalls:
            pv = c.vprov(hcalls[0]["args"][0])
            if not (q.has_call(pv, "HashMap::get") and ("field", "keys") in pv):
                probs.append("delete_branch argument is not the root id registered in `keys` for the updated key")
        # guard: nearest dominating switch decides on presence of the key
        sw = None
        x = d_bb
        while x != 0:
            x = cfg.idom[x]
            if cfg.blocks[x]["term"]["k"] == "switch":
                sw = x
                break
        if sw is None:
            pass  # unconditional delete would panic on new keys; not this rule's business
        else:
            o = cfg.switch_on(sw)
            if not (o and ((o["kind"] == "call" and o["f"].endswith(("Option::is_some", "Option::is_none"))) or o["kind"] == "discr")):
                probs.append("delete_branch is guarded by something other than the presence of the key (%s)" % o)
            # on the path that skips the delete, the key must be absent: the skipping edge is the 'None' edge; accept.
        # the previous root is looked up unconditionally: a filter between keys.get(&key) and the deletion leaves some previous versions live
        from .common import value_chain
        for g_ in [x for x in fb.walk(uk.body) if x.get("k") == "mcall" and (fb.callee(x) or "").endswith("HashMap::get") and self_field(x.get("recv")) == "keys"]:
            bad_ = [m_ for m_ in value_chain(c, g_) if m_["name"] in ("filter", "filter_map", "and_then", "take_if", "take", "xor", "zip")]
            if bad_:
                probs.append("the previous root is dropped only if it passes `.%s(%s)`: for the versions that do not, the old root stays live next to the new one (two live roots with the same key)" % (
                    bad_[0]["name"], fb.show(bad_[0]["args"][0])[:60] if bad_[0]["args"] else ""))
        if probs:
            rep.violation(rid, key, "; ".join(probs), uk.loc)
        else:
            rep.ok(rid, key, "delete_branch(keys[key]) on the Some edge, then from_markdown on every path", uk.loc)

    for name in ("Database::update_document", "Database::insert_document"):
        f = facts.fn(name)
        rep.saw_fn(f)
        other = "Database::insert_document" if name.endswith("update_document") else "Database::update_document"
        if delegates_to(f, other) and not delegates_to(facts.fn(other), name):
            rep.ok(rid, f.def_ + "|update-content-paths", "forwards its arguments to %s (checked as such)" % other, f.loc)
            continue
        cfg = f.cfg
        up = cfg.calls(lambda p: p.endswith("Graph::update_key"))
        ins = cfg.calls(lambda p: p.endswith("HashMap::insert"))
        sp = cfg.calls(lambda p: p.endswith("Graph::search_paths"))
        rets = cfg.return_blocks()
        key = f.def_ + "|update-content-paths"
        probs = []
        if not up:
            probs.append("no Graph::update_key call")
        if not ins:
            probs.append("the raw text is not stored (no content.insert)")
        if not sp:
            probs.append("search paths are not recomputed (no Graph::search_paths call): workspace symbols go stale")
        if up and sp:
            if not cfg.reaches(up[0][0], sp[0][0]):
                probs.append("search_paths is computed before the graph update")
            for nm, site in (("update_key", up), ("content.insert", ins), ("search_paths", sp)):
                if site and not all(cfg.dominates(site[0][0], r) for r in rets):
                    probs.append("%s is not executed on every path to return" % nm)
        # the result of search_paths is assigned to self.paths
        c = ctx(f)
        assigned = False
        for x in fb.walk(f.body):
            if x.get("k") == "assign" and self_field(x["l"]) == "paths":
                if q.has_call(c.vprov(x["r"]), "Graph::search_paths"):
                    assigned = True
        if sp and not assigned:
            probs.append("self.paths is not assigned from graph.search_paths()")
        if probs:
            rep.violation(rid, key, "; ".join(probs), f.loc)
        else:
            rep.ok(rid, key, "update_key -> content.insert -> self.paths = graph.search_paths() on every path", f.loc)

    # who may write Database.paths / Database.graph
    db = "liwe::database::Database"
    for f in facts.body_fns():
        if f.crate != "liwe":
            continue
        for x in fb.walk(f.body):
            if x.get("k") == "assign":
                fo = field_of(x["l"])
                if fo and fo[0] == db and fo[1] == "paths":
                    c = ctx(f)
                    if q.has_call(c.vprov(x["r"]), "Graph::search_paths"):
                        rep.ok(rid, "%s|paths-assigned-from-search_paths" % f.def_, "", loc(f, x))
                    else:
                        rep.violation(rid, "%s|paths-assigned-from-other" % f.def_, "Database.paths assigned from something other than graph.search_paths()", loc(f, x))


# ------------------------------------------------------------------------------------------ R5

VEC_SHRINK = ("remove", "pop", "truncate", "clear", "swap_remove", "drain", "retain", "insert", "split_off", "dedup", "sort",
              "sort_by", "sort_by_key", "reverse", "swap", "resize", "rotate_left", "rotate_right", "retain_mut", "dedup_by", "dedup_by_key",
              "append", "extend", "sort_unstable", "sort_unstable_by")


def rule_r5(facts, rep, rid="C04-R5"):
    facts.adt(ARENA)
    nid = facts.fn("Arena::new_node_id")
    rep.saw_fn(nid)
    c = ctx(nid)
    pv = c.vprov(nid.body)
    if q.has_call(pv, "Vec::len") and ("field", "nodes") in pv and not any(a[0] == "binary" for a in pv):
        rep.ok(rid, nid.def_ + "|fresh-id-is-arena-length", "returns self.nodes.len()", nid.loc)
    else:
        rep.violation(rid, nid.def_ + "|fresh-id-is-arena-length", "new_node_id no longer returns exactly self.nodes.len(): ids could be reused or skipped (%s)" % sorted(pv), nid.loc)
    pushes = 0
    for f in facts.body_fns():
        if f.crate != "liwe":
            continue
        for x in fb.walk(f.body):
            if x.get("k") == "mcall":
                fo = field_of(x.get("recv"))
                if fo and fo[0] == ARENA and fo[1] in ("nodes", "lines"):
                    cal = fb.callee(x) or ""
                    nm = x["name"]
                    if not (cal.startswith("std::vec::Vec::") or cal.startswith("core::slice::") or cal.startswith("alloc::")):
                        continue
                    if nm == "push":
                        pushes += 1
                        rep.ok(rid, "%s|arena-%s-push" % (f.def_, fo[1]), "", loc(f, x))
                    elif nm in VEC_SHRINK:
                        rep.violation(rid, "%s|arena-%s-%s" % (f.def_, fo[1], nm), "Arena.%s.%s(..): the arena must be push-only (ids = positions are never reused; "
                                      "tombstones stay in place)" % (fo[1], nm), loc(f, x))
            if x.get("k") == "assign":
                fo = field_of(x["l"])
                if fo and fo[0] == ARENA and fo[1] in ("nodes", "lines"):
                    rep.violation(rid, "%s|arena-%s-reassigned" % (f.def_, fo[1]), "Arena.%s replaced wholesale" % fo[1], loc(f, x))
    rep.floor(rid, "push sites on Arena.nodes/lines", pushes, 2)
    # encapsulation: the arena / index fields and modules are not reachable from outside the crate
    g = facts.adt(GRAPH)
    for fl in g["variants"][0]["fields"]:
        if fl["name"] in ("arena", "index", "keys", "nodes_map", "global_nodes_map", "keys_to_ref_text", "metadata"):
            if fl.get("exported") or fl.get("vis") == "pub":
                rep.violation(rid, "Graph.%s|private" % fl["name"], "field Graph.%s is visible outside the crate: external code can mutate library state behind the update protocol" % fl["name"])
            else:
                rep.ok(rid, "Graph.%s|private" % fl["name"], "not exported")
    for mod in ("liwe::graph::arena", "liwe::graph::index"):
        m = facts.mods.get(mod)
        if m is None:
            rep.anchor_missing(rid, "module " + mod)
        elif m.get("exported"):
            rep.violation(rid, "%s|private-module" % mod, "module %s is reachable from outside the crate" % mod)
        else:
            rep.ok(rid, "%s|private-module" % mod, "not exported")

# ------------------------------------------------------------------------------------------ R6

def rule_r6(facts, rep, rid="C04-R6"):
    """The incremental path merges the freshly indexed note INTO the library index: per key, a set union."""
    ri = facts.adt(REFINDEX)
    set_fields = [fl["name"] for fl in ri["variants"][0]["fields"] if "HashMap<" in fl["ty"] and ("HashSet<" in fl["ty"] or "Vec<" in fl["ty"] or "BTreeSet<" in fl["ty"])]
    rep.floor(rid, "set-valued maps in RefIndex", len(set_fields), 2)
    mg = facts.fn("RefIndex::merge")
    rep.saw_fn(mg)
    # 1. no method of RefIndex replaces a key's whole set (HashMap::insert / extend / assignment on the map itself)
    n = 0
    for f in facts.body_fns():
        owner = f.parent if f.kind == "closure" and f.parent else f.def_
        of = facts.fns.get(owner)
        if of is None or of.impl_self != REFINDEX or f.kind == "closure":
            continue
        rep.saw_fn(f)
        counts = {}
        for x in fb.walk(f.body):
            if x.get("k") == "mcall" and self_field(x.get("recv")) in set_fields:
                cal = fb.callee(x) or ""
                nm = x["name"]
                if cal.endswith(("HashMap::insert", "HashMap::extend", "HashMap::retain", "HashMap::clear", "HashMap::remove", "HashMap::drain")) or nm in ("insert", "extend", "retain", "clear", "remove", "drain"):
                    i = counts.get(nm, 0)
                    counts[nm] = i + 1
                    n += 1
                    rep.violation(rid, "%s|%s.%s|%d" % (f.def_, self_field(x["recv"]), nm, i), "RefIndex.%s.%s(..) replaces or deletes whole per-key sets: the references that OTHER notes "
                                  "hold to the same key are lost from the index when one note is re-indexed (the index must only be unioned into, per key)" % (self_field(x["recv"]), nm), loc(f, x))
            if x.get("k") == "assign" and self_field(x["l"]) in set_fields:
                n += 1
                rep.violation(rid, "%s|%s|assigned" % (f.def_, self_field(x["l"])), "RefIndex.%s is replaced wholesale" % self_field(x["l"]), loc(f, x))
    # 2. merge unions every set-valued map: self.F.entry(k).or_*().extend/insert(..) fed from other.F
    c = ctx(mg)
    for fld in set_fields:
        key = "%s|unions:%s" % (mg.def_, fld)
        okm = False
        for x in fb.walk(mg.body):
            if x.get("k") == "mcall" and x["name"] in ("extend", "insert", "union") and (fb.callee(x) or "").startswith(("std::collections::HashSet::", "std::collections::hash::set::HashSet::", "std::iter::Extend::extend", "std::collections::BTreeSet::", "std::vec::Vec::")):
                from .common import recv_chain
                names, r = recv_chain(c, x["recv"])
                if "entry" in names and any(n_.startswith("or_") for n_ in names) and self_field(r) == fld:
                    # the values come from the other index's same-named field
                    src = set()
                    for a in x["args"]:
                        src |= c.mentions(a)
                    if ("field", fld) in src or ("param", pname(mg, 1)) in src:
                        okm = True
        if okm:
            rep.ok(rid, key, "self.%s.entry(key).or_insert_with(..).extend(other's set)" % fld, mg.loc)
        else:
            rep.violation(rid, key, "RefIndex::merge does not union other.%s into self.%s per key (entry(..).or_*().extend(..)): after an incremental update the "
                          "index differs from the one a fresh import builds" % (fld, fld), mg.loc)
    # 3. from_markdown merges (never assigns) the index; import assigns a complete one
    fm = facts.fn("Graph::from_markdown")
    key = fm.def_ + "|merges-index"
    merges = [x for x in fb.walk(fm.body) if x.get("k") == "mcall" and (fb.callee(x) or "").endswith("RefIndex::merge") and self_field(x.get("recv")) == "index"]
    assigns = [x for x in fb.walk(fm.body) if x.get("k") == "assign" and self_field(x["l"]) == "index"]
    if merges and not assigns:
        rep.ok(rid, key, "self.index.merge(index of the new root)", loc(fm, merges[0]))
    else:
        rep.violation(rid, key, "the single-key update %s the library index" % ("replaces" if assigns else "does not merge into"), fm.loc)


def run(facts, rep, tier):
    rep.rule("C04-R6", "The library's reference index is only ever unioned into, per key: no RefIndex method replaces or deletes a key's whole set, RefIndex::merge "
             "unions every set-valued map through entry(k).or_*().extend(..), and the single-key update merges (never assigns) the index.")
    rep.rule("C04-R1", "Tombstone filter discipline: the merge-only reference index is read only through the two Graph wrappers whose "
             "result passes filter(!graph_node(id).is_empty()); any other reader of RefIndex sees ids of deleted versions.")
    rep.rule("C04-R2", "The index walker (RefIndex::index_node) recurses on every `next`/`child` link and records the links of every "
             "line-bearing field, for every GraphNode variant (variant table joined with the payload struct's field table).")
    rep.rule("C04-R3", "Every per-key map of Graph (HashMap<Key,_>) is re-derived by the single-key update path; where the new value is "
             "optional, both an insert (Some edge) and a remove (None edge) exist.")
    rep.rule("C04-R4", "Update protocol: update_key tombstones keys[key]'s subtree before re-parsing on every path; "
             "Database::{update,insert}_document run update_key, store the text and then refresh paths from graph.search_paths().")
    rep.rule("C04-R5", "Node/line ids are never reused: new id = arena length, Arena.nodes/lines are push-only, arena and index are not "
             "reachable from outside the crate.")
    rule_r1(facts, rep)
    rule_r2(facts, rep)
    rule_r3(facts, rep)
    rule_r4(facts, rep)
    rule_r5(facts, rep)
    rep.rule("C04-R5b", "Allocator freshness: new_line_id / new_node_id return the arena length, and Arena::add_line returns on every exit the id it just drew, after one unconditional "
             "push of Line::new(id, inlines) - a line never gets a second owner (delete_branch blanks the lines of the replaced version: a shared line would empty text of another note).")
    from . import arena
    arena.rule_fresh_ids(facts, rep, "C04-R5b")
    rule_r6(facts, rep)
    rep.rule("C04-R2b", "= C20-R3: the typed node accessors (Section::child_id, Quote::next_id, ...) return the field they are named after - the incremental index walk descends "
             "through them, while a fresh start indexes every arena slot directly.")
    from . import c20
    c20.rule_r3(facts, rep, "C04-R2b")
    rep.rule("C04-R7", "= C18-R4: the cached search order is decided by what the listing shows (rank, key, then the rendered path text), never left to node ids, i.e. to which note was edited last.")
    from . import c18
    c18.rule_r4(facts, rep, "C04-R7")
