"""Helpers shared by the rule scripts."""
import re

from vlib import factbase as fb
from vlib.q import FnCtx

_ctx_cache = {}


def ctx(fn):
    c = _ctx_cache.get(id(fn))
    if c is None:
        c = FnCtx(fn)
        _ctx_cache[id(fn)] = c
    return c


def loc(fn, node=None):
    if node is not None and node.get("ln"):
        return "%s:%s" % (fn.file, node["ln"])
    return fn.loc


def chain_up(c, node):
    """Method-call chain above `node`: ancestors p1, p2, ... such that p1.recv is node, p2.recv is p1, ...
    `?`/try desugaring and references are looked through."""
    out = []
    cur = node
    for p in c.parents(node):
        k = p.get("k")
        if k == "mcall" and p.get("recv") is cur:
            out.append(p)
            cur = p
            continue
        if k in ("addrof", "unary", "cast") and p.get("e") is cur:
            cur = p
            continue
        break
    return out


def self_field(node, name=None):
    """node is `self.<name>` (or `(*self).<name>`); returns the field name or None."""
    if node is None:
        return None
    while node.get("k") in ("addrof",) or (node.get("k") == "unary" and node.get("op") == "*"):
        node = node["e"]
    if node.get("k") != "field":
        return None
    b = node["e"]
    while b.get("k") in ("addrof",) or (b.get("k") == "unary" and b.get("op") == "*"):
        b = b["e"]
    if b.get("k") == "path" and b.get("res") == "local" and b.get("name") == "self":
        if name is None or node["name"] == name:
            return node["name"]
    return None


def field_of(node):
    """(base type, field name) if node is a field access (through refs), else None."""
    if node is None:
        return None
    while node.get("k") in ("addrof",) or (node.get("k") == "unary" and node.get("op") == "*"):
        node = node["e"]
    if node.get("k") == "field":
        return (fb.norm(node.get("bty", "")).replace("&mut ", "").replace("&", ""), node["name"])
    return None


def match_arms_on(fn, ty_suffix):
    """All `match` nodes in fn whose scrutinee type (refs stripped) ends with ty_suffix."""
    out = []
    for n in fb.walk(fn.body):
        if n.get("k") == "match" and n.get("src") == "Normal":
            t = fb.norm(n.get("sty", "")).replace("&mut ", "").replace("&", "")
            if t == ty_suffix or t.endswith("::" + ty_suffix):
                out.append(n)
    return out


def arms_by_variant(facts, m, enum_path):
    """{variant path: (arm, payload bindings [(name,id)])} with wildcard arms expanded to the variants they cover."""
    adt = facts.adts[enum_path]
    allv = [v["path"] for v in adt["variants"]]
    res = {}
    covered = set()
    for arm in m["arms"]:
        vs = fb.pat_variants(arm["pat"])
        for v in vs:
            if v in allv and v not in res:
                res[v] = (arm, fb.pat_bindings(arm["pat"]), False)
                covered.add(v)
            elif v == "_":
                for w in allv:
                    if w not in res:
                        res[w] = (arm, [], True)
    return res


def is_empty_body(e):
    """Arm body with no effect: `{}` / `()`."""
    if e is None:
        return True
    k = e.get("k")
    if k == "block":
        return not e.get("stmts") and e.get("e") is None
    if k == "tup" and not e.get("es"):
        return True
    return False


def in_closure_of_option_method(c, node):
    """Is node inside a closure passed to an Option combinator (map/and_then/...) or in the then-branch of
    `if let Some(..)`?  Returns the guarding construct or None."""
    cur = node
    for p in c.parents(node):
        k = p.get("k")
        if k == "closure":
            cur = p
            continue
        if k == "mcall" and cur.get("k") == "closure" and cur in p.get("args", []):
            cal = fb.callee(p) or ""
            if cal.startswith(("std::option::Option::", "core::option::Option::")):
                return p
        if k == "if" and cur is p.get("t"):
            for cj in _conj(p["c"]):
                if cj.get("k") == "letx":
                    return p
        cur = p
    return None


def _conj(c):
    if c is None:
        return []
    if c.get("k") == "binary" and c.get("op") == "&&":
        return _conj(c["l"]) + _conj(c["r"])
    return [c]


def strip_refs(t):
    t = t or ""
    while True:
        t2 = t.strip()
        if t2.startswith("&mut "):
            t = t2[5:]
        elif t2.startswith("&"):
            t = t2[1:]
        else:
            return t2


def pname(fn, idx):
    """Current source name of parameter `idx` of fn (self counts as 0): rules refer to parameters by position, never by name."""
    try:
        bs = fb.pat_bindings(fn.params[idx]["pat"])
        return bs[0][0] if bs else "?"
    except (IndexError, KeyError):
        return "?"


def value_chain(c, node, depth=0):
    """Method calls applied to the value of `node`, in order, following the value through simple `let x = <node>` bindings
    (so `let raw = index.get(..); raw.into_iter().filter(..)` yields the same chain as `index.get(..).iter().filter(..)`)."""
    out = list(chain_up(c, node))
    top = out[-1] if out else node
    if depth > 3:
        return out
    # is `top` (through refs) the initialiser of a simple let?
    cur = top
    for p in c.parents(top):
        if p.get("k") in ("addrof", "unary", "cast") and p.get("e") is cur:
            cur = p
            continue
        if p.get("k") == "let" and p.get("init") is cur and p["pat"].get("k") == "p_bind":
            lid = p["pat"]["id"]
            # uses of the local anywhere in the fn
            for use in fb.local_uses(c.fn.body, lid):
                out += value_chain(c, use, depth + 1)
        break
    return out


def recv_chain(c, e, depth=0):
    """Names of the method calls that produced receiver expression `e`, innermost last, and the base expression; simple locals are looked through."""
    names = []
    while e is not None and depth < 12:
        depth += 1
        while e is not None and e.get("k") in ("addrof", "unary", "cast"):
            e = e["e"]
        if e is None:
            break
        if e.get("k") == "mcall":
            names.append(e["name"])
            e = e["recv"]
            continue
        if e.get("k") == "path" and e.get("res") == "local":
            b = c.binds.get(e["id"])
            if b and b[0] == "expr" and b[1].get("k") in ("mcall", "path", "addrof", "unary"):
                e = b[1]
                continue
        break
    return names, e


DROPPING_ADAPTERS = {"filter", "filter_map", "skip", "take", "take_while", "skip_while", "step_by", "nth", "last", "find", "find_map", "truncate", "retain", "dedup", "unique",
                     "first", "pop", "remove", "swap_remove", "drain", "dedup_by", "dedup_by_key", "unique_by", "min", "max", "min_by", "max_by", "position"}


_SORTS = {"sorted_by", "sort_by", "sorted_by_key", "sort_by_key", "sort_unstable_by", "sort_unstable_by_key", "sorted_unstable_by", "sorted_unstable_by_key",
          "sort_by_cached_key", "sorted_by_cached_key"}


def _norm_sig(t):
    """Closure parameter numbers and value-transparent calls (`.clone()`, `.to_owned()`, `.as_ref()`, `.iter()` vs `.into_iter()`) do not distinguish adapters."""
    t = re.sub(r"\bc\d+(\.\d+)?\b", "c", t)
    t = re.sub(r"\.(clone|to_owned|as_ref|as_deref|borrow|cloned|copied)\(\)", "", t)
    # nor does a borrow (`.eq(&a.clone().kind.unwrap())` = `.eq(a.kind.as_ref().unwrap())`); `&&` is the conjunction and stays
    t = re.sub(r"(?<!&)&(?!&)(mut\b)?", "", t)
    # a local of the enclosing fn, whether it was bound by `let x = ..` (rendered `v?`) or by a pattern (`b0`, `b1`), is just "a local"
    t = re.sub(r"\bb\d+(_\d+)?\b", "v", t).replace("v?", "v")
    # block braces and a `let` that only names a sub-expression do not distinguish adapters either
    t = t.replace("{", "").replace("}", "")
    # `a.eq(b)` / `a.ne(b)` are `a == b` / `a != b`; explicit derefs and grouping parentheses carry no meaning of their own in a signature
    t = t.replace(".eq(", "==(").replace(".ne(", "!=(")
    head, sep, rest = t.partition("(")
    t = head + sep + rest.replace("(", "").replace(")", "").replace("*", "")
    return t


def _accessor_locals(f):
    """ids of `let x = self.a.b().c();` locals: the initialiser is a chain of field reads and argument-less method calls that starts at `self`."""
    out = set()
    for y in fb.walk(f.body):
        if y.get("k") != "let" or y.get("init") is None or (y.get("pat") or {}).get("k") != "p_bind":
            continue
        e_ = y["init"]
        ok_ = True
        steps = 0
        while True:
            k_ = e_.get("k")
            if k_ in ("addrof", "unary"):
                e_ = e_.get("e")
            elif k_ == "field":
                e_ = e_["e"]
                steps += 1
            elif k_ == "mcall" and not e_.get("args"):
                e_ = e_["recv"]
                steps += 1
            elif k_ == "path" and e_.get("res") == "local" and e_.get("name") == "self":
                break
            else:
                ok_ = False
                break
            if e_ is None:
                ok_ = False
                break
        if ok_ and steps:
            out.add(y["pat"]["id"])
    return out


def droppers_inventory(facts, rep, rid, fn_suffixes, audited, what):
    """Audited inventory of dropping / truncating / de-duplicating sequence adapters in the given fns.  Keys use the rename-independent rendering of the adapter's
    argument, so a NEW adapter gets a new key (and is reported) while renaming locals changes nothing.  `audited`: {(fn suffix, 'method(canonical arg)'): reason}."""
    n = 0
    for suffix in fn_suffixes:
        f = facts.fn(suffix)
        rep.saw_fn(f)
        seen = {}
        for x in fb.walk(f.body):
            if x.get("k") != "mcall" or x["name"] not in DROPPING_ADAPTERS:
                continue
            cal = fb.callee(x) or ""
            if not cal.startswith(("std::iter::", "core::iter::", "itertools::", "std::vec::", "alloc::vec::", "core::slice::", "rayon::", "std::collections::VecDeque")):
                continue
            # an adapter inside the comparator / key closure of a sort works on the two items being compared, not on the answer: it can change the order
            # (the ordering rules look at that), never which elements there are
            cf = ctx(f)
            in_cmp, child = False, x
            for p in cf.parents(x):
                if p.get("k") in ("mcall", "call") and child.get("k") == "closure" and (p.get("name") or fb.last_seg(fb.callee(p) or "")) in _SORTS and any(a is child for a in p.get("args", [])):
                    in_cmp = True
                    break
                child = p
            if in_cmp:
                continue
            # locals bound inside the adapter's own closure are read through (`|p| { let id = p.first_id(); f(id) }` = `|p| f(p.first_id())`);
            # locals of the enclosing fn stay opaque
            inner = set(lid for y in fb.walk(x["args"][0]) if y.get("k") == "let" for _n, lid in fb.pat_bindings(y.get("pat"))) if x["args"] else set()
            # a local of the enclosing fn that only names an accessor chain on self (`let graph = self.database.graph();`) is read through as well
            inner |= _accessor_locals(f)
            def render(e_):
                a_ = fb.show_canon(f, e_, maxdepth=30, inline=4 if inner else 0, inline_only=inner).replace(" ", "")[:140]
                return re.sub(r"let[A-Za-z0-9_?]+=[^;]*;", "", a_)
            # `.filter(|x| A && B)` keeps what `.filter(|x| A).filter(|x| B)` keeps: one signature per conjunct
            parts = None
            if x["name"] == "filter" and x["args"] and x["args"][0].get("k") == "closure":
                body_ = x["args"][0]["body"]
                while body_.get("k") == "block" and not body_.get("stmts") and body_.get("e") is not None:
                    body_ = body_["e"]
                conj = _conj(body_)
                if len(conj) > 1:
                    head = "|%s|" % ",".join(fb.show_canon(f, {"k": "closure", "params": [p_], "body": {"k": "tup", "es": []}}, maxdepth=4, inline=0).split("|")[1] for p_ in x["args"][0].get("params", []))
                    parts = ["%s%s" % (head, render(cj)) for cj in conj]
            joint = _norm_sig("%s(%s)" % (x["name"], render(x["args"][0]) if x["args"] else ""))

            def audited_(sig_):
                return any(f.def_.endswith(fs) and (_norm_sig(sg) == sig_ or (len(_norm_sig(sg)) >= 40 and sig_.startswith(_norm_sig(sg).rstrip(")")))) for (fs, sg) in audited)
            if parts and not audited_(joint):
                sigs = [_norm_sig("%s(%s)" % (x["name"], a_)) for a_ in parts]
            else:
                sigs = [joint]
            for sig in sigs:
                k_ = seen.get(sig, 0)
                seen[sig] = k_ + 1
                n += 1
                key = "%s|%s|%d" % (f.def_, sig, k_)
                why = None
                for (fs, sg), reason in audited.items():
                    sgn = _norm_sig(sg)
                    if f.def_.endswith(fs) and (sgn == sig or (len(sgn) >= 40 and sig.startswith(sgn.rstrip(")")))):
                        why = reason
                if why:
                    rep.ok(rid, key, "audited: " + why, loc(f, x), nontrivial=True)
                else:
                    rep.violation(rid, key, "new dropping adapter `.%s` in %s: %s that the library contains would be left out of the answer; if it is intended, audit it with a reason" % (
                        sig[:80], fb.last2(f.def_), what), loc(f, x))
    return n


def controlling_tests(c, node):
    """Tests that decide whether `node` (typically a `return`) is reached, nearest first, in a form that does not depend on the idiom:
    -> list of (expr tested, polarity) where polarity is
         "true"/"false"  for an `if` condition (node in the then / else branch),
         "pat:<Variant>" for a match arm / `if let` / let-else on that expression (`pat:None`, `pat:Err`, `pat:_`, `pat:!Some` for a let-else)."""
    out = []
    child = node
    for p in c.parents(node):
        k = p.get("k")
        if k == "if":
            cond = p["c"]
            if cond.get("k") == "letx":
                if child is p.get("t"):
                    out.append((cond.get("init"), "pat:" + "|".join(fb.last_seg(v) for v in fb.pat_variants(cond["pat"]))))
                elif child is p.get("e"):
                    out.append((cond.get("init"), "pat:!" + "|".join(fb.last_seg(v) for v in fb.pat_variants(cond["pat"]))))
            elif child is p.get("t"):
                out.append((cond, "true"))
            elif child is p.get("e"):
                out.append((cond, "false"))
        elif k == "match":
            for arm in p.get("arms", []):
                if arm.get("body") is child:
                    out.append((p.get("e"), "pat:" + "|".join(fb.last_seg(v) for v in fb.pat_variants(arm["pat"]))))
        elif k == "let" and p.get("els") is not None and child is p.get("els"):
            out.append((p.get("init"), "pat:!" + "|".join(fb.last_seg(v) for v in fb.pat_variants(p["pat"]))))
        elif k == "block":
            # what follows an early exit: `if let Some(x) = v { return .. }  <node>` is reached only when v is not Some; `if c { return }  <node>` only when !c
            seq = list(p.get("stmts", [])) + ([p["e"]] if p.get("e") is not None else [])
            for s_ in seq:
                if s_ is child:
                    break
                if s_.get("k") == "if" and _diverges(s_.get("t")) and (s_.get("e") is None or not _diverges(s_.get("e"))):
                    cond = s_["c"]
                    if cond.get("k") == "letx":
                        out.append((cond.get("init"), "pat:!" + "|".join(fb.last_seg(v) for v in fb.pat_variants(cond["pat"]))))
                    else:
                        out.append((cond, "false"))
        elif k == "closure":
            break
        child = p
    return out


def absent_test(c, test, callee_suffix):
    """Does (expr, polarity) say "the Option returned by <callee_suffix>(..) is None"?  `if f().is_none()`, `match f() { None => .. }`,
    `let Some(x) = f() else { .. }`, `if let Some(..) = f() {} else { .. }`."""
    e, pol = test
    if e is None:
        return False
    ment = c.mentions(e)
    if not any(a[0] == "call" and a[1] and a[1].endswith(callee_suffix) for a in ment):
        return False
    if pol == "true":
        return any(x.get("k") == "mcall" and x["name"] == "is_none" for x in fb.walk(e)) and not any(x.get("k") == "unary" and x.get("op") == "!" for x in fb.walk(e))
    if pol == "false":
        return any(x.get("k") == "mcall" and x["name"] == "is_some" for x in fb.walk(e)) and not any(x.get("k") == "unary" and x.get("op") == "!" for x in fb.walk(e))
    return pol in ("pat:None", "pat:!Some")


def _diverges(b):
    if b is None:
        return False
    k = b.get("k")
    if k in ("ret", "break", "continue"):
        return True
    if k == "block":
        seq = list(b.get("stmts", []))
        if b.get("e") is not None:
            seq.append(b["e"])
        return bool(seq) and _diverges(seq[-1])
    if k in ("call", "mcall") and b.get("ty") == "!":
        return True
    return False


def _atoms(cond, pol):
    """(atomic condition, truth value) pairs implied by `cond` having truth value `pol`."""
    if cond is None:
        return []
    k = cond.get("k")
    if k == "unary" and cond.get("op") == "!":
        return _atoms(cond["e"], not pol)
    if k == "binary" and cond.get("op") == "&&" and pol:
        return _atoms(cond["l"], True) + _atoms(cond["r"], True)
    if k == "binary" and cond.get("op") == "||" and not pol:
        return _atoms(cond["l"], False) + _atoms(cond["r"], False)
    if k == "block" and not cond.get("stmts") and cond.get("e") is not None:
        return _atoms(cond["e"], pol)
    return [(cond, pol)]


def facts_at(c, node):
    """Atomic conditions known to hold / not to hold when `node` is evaluated, whatever idiom establishes them:
    then-branch of `if A`, else-branch of `if A`, right operand of `A && ..` / `A || ..`, and every statement after an early exit
    `if A { return / continue / break }` in an enclosing block.  -> [(expr, bool)]; locals bound to a condition (`let ok = A;`) are followed."""
    out = []
    child = node
    for p in c.parents(node):
        k = p.get("k")
        if k == "if" and p["c"].get("k") != "letx":
            if child is p.get("t"):
                out += _atoms(p["c"], True)
            elif child is p.get("e"):
                out += _atoms(p["c"], False)
        elif k == "binary" and p.get("op") == "&&" and child is p.get("r"):
            out += _atoms(p["l"], True)
        elif k == "binary" and p.get("op") == "||" and child is p.get("r"):
            out += _atoms(p["l"], False)
        elif k == "block":
            seq = list(p.get("stmts", [])) + ([p["e"]] if p.get("e") is not None else [])
            for s in seq:
                if s is child:
                    break
                if s.get("k") == "if" and s["c"].get("k") != "letx" and _diverges(s.get("t")) and (s.get("e") is None or not _diverges(s.get("e"))):
                    out += _atoms(s["c"], False)
                elif s.get("k") == "if" and s["c"].get("k") != "letx" and s.get("e") is not None and _diverges(s.get("e")) and not _diverges(s.get("t")):
                    out += _atoms(s["c"], True)
        elif k == "closure":
            break
        child = p
    # a condition held in a local: `let is_ref = self.is_ref(); if is_ref { .. }`
    res = []
    for e, pol in out:
        if e.get("k") == "path" and e.get("res") == "local":
            b = c.binds.get(e["id"])
            if b and b[0] == "expr" and b[1] is not None:
                res += _atoms(b[1], pol)
                continue
        res.append((e, pol))
    return res


def known_call(c, node, callee_suffix):
    """True / False if a call to `callee_suffix` is known to have returned that at `node` (see facts_at), else None."""
    for e, pol in facts_at(c, node):
        if e.get("k") in ("call", "mcall") and (fb.callee(e) or "").endswith(callee_suffix):
            return pol
    return None


_LOSSY_ADAPTERS = {"filter", "filter_map", "skip", "take", "step_by", "rev", "dedup", "dedup_by", "dedup_by_key", "unique", "unique_by", "take_while", "skip_while",
                   "nth", "last", "find", "find_map", "position", "sorted", "sorted_by", "sorted_by_key", "truncate", "retain", "drain", "split_off"}


def _applies(arg, callee_suffix):
    """Does the mapping argument (closure or fn path) apply `callee_suffix` to its item?"""
    if arg is None:
        return False
    if arg.get("k") == "path":
        return fb.norm(arg.get("def") or "").endswith(callee_suffix)
    return any(y.get("k") in ("call", "mcall") and (fb.callee(y) or "").endswith(callee_suffix) for y in fb.walk(arg))


def maps_every_child(c, scope, callee_suffix):
    """Sites under `scope` where *every* child of a tree node is passed through `callee_suffix`, in either idiom:
         x.map_children(|child| child.f(..))                      (Tree::map_children is itself checked to be a plain map)
         x.children.iter().map(|child| child.f(..)).collect()      (no filter / skip / take / rev ... between `.children` and `.map`)"""
    out = []
    for x in fb.walk(scope):
        if x.get("k") != "mcall" or not x.get("args"):
            continue
        if x["name"] == "map_children" and _applies(x["args"][0], callee_suffix):
            out.append(x)
        elif x["name"] in ("map", "flat_map") and _applies(x["args"][0], callee_suffix):
            names, r = [], x["recv"]
            while r is not None and r.get("k") == "mcall":
                names.append(r["name"])
                r = r["recv"]
            while r is not None and r.get("k") in ("addrof", "unary"):
                r = r["e"]
            if r is not None and r.get("k") == "field" and r.get("name") == "children" and not (set(names) & _LOSSY_ADAPTERS) and x["name"] == "map":
                out.append(x)
    return out


def through_lets(c, e, depth=0):
    """The expression a value stands for: a use of a local that was bound by a plain `let name = init;` is replaced by `init`
    (repeatedly), blocks without statements and parentheses are looked through."""
    while e is not None and depth < 8:
        depth += 1
        k = e.get("k")
        if k == "block" and not e.get("stmts") and e.get("e") is not None:
            e = e["e"]
            continue
        if k == "path" and e.get("res") == "local":
            b = c.binds.get(e["id"])
            if b and b[0] == "expr" and len(b) > 2 and isinstance(b[2], dict) and b[2].get("k") == "p_bind" and "sub" not in b[2]:
                e = b[1]
                continue
        break
    return e


def value_leaves(c, e, depth=0):
    """The expressions a value may come from, whatever shape delivers it: the tail of a block, either branch of an `if`, every arm of a `match`,
    the initialiser of a local (`let v = ..;`), a component of a tuple that is destructured (`let (a, b) = match .. { .. => (x, y), .. }`).
    -> [leaf expression nodes] (each still sits in the fn's tree, so its enclosing conditions can be asked for with c.parents / facts_at)."""
    if e is None or depth > 12:
        return [e] if e is not None else []
    k = e.get("k")
    if k == "block" and e.get("e") is not None:
        return value_leaves(c, e["e"], depth + 1)
    if k == "if" and e.get("e") is not None:
        return value_leaves(c, e["t"], depth + 1) + value_leaves(c, e["e"], depth + 1)
    if k == "match" and e.get("src", "Normal") == "Normal":
        out = []
        for arm in e["arms"]:
            out += value_leaves(c, arm["body"], depth + 1)
        return out
    if k == "path" and e.get("res") == "local":
        b = c.binds.get(e["id"])
        if b and b[0] == "expr" and len(b) > 2 and isinstance(b[2], dict) and b[1] is not None:
            pat = b[2]
            if pat.get("k") == "p_bind" and "sub" not in pat and pat.get("id") == e["id"]:
                return value_leaves(c, b[1], depth + 1)
            if pat.get("k") == "p_tuple":
                idx = [i for i, qp in enumerate(pat.get("pats", [])) if qp.get("k") == "p_bind" and qp.get("id") == e["id"] and "sub" not in qp]
                if idx:
                    out = []
                    for leaf in value_leaves(c, b[1], depth + 1):
                        if leaf.get("k") == "tup" and len(leaf.get("es", [])) == len(pat["pats"]):
                            out += value_leaves(c, leaf["es"][idx[0]], depth + 1)
                        else:
                            return [e]
                    return out
    return [e]


def field_sources(facts, struct_suffix, field):
    """Every expression a field of a workspace struct is given, anywhere: `S { field: e, .. }` literals (shorthand included) and `x.field = e` assignments on a value of that type.
    -> [(fn, expr)]; rules use it to read `self.field` as "one of these values" when the field is a cache of something computed at construction."""
    out = []
    for f in facts.body_fns():
        if "::tests::" in f.def_ or "::test::" in f.def_:
            continue
        for x in fb.walk(f.body):
            if x.get("k") == "struct" and fb.norm(x.get("def", "")).endswith(struct_suffix):
                for fl in x.get("fields", []):
                    if fl.get("name") == field:
                        out.append((f, fl["e"]))
            elif x.get("k") == "assign" and x["l"].get("k") == "field" and x["l"].get("name") == field and struct_suffix.split("::")[-1] in fb.norm(fb.tnorm(x["l"]["e"].get("ty") or "")):
                out.append((f, x["r"]))
    return out


def delegates_to(f, callee_suffix):
    """Is the whole body of `f` one call of `callee_suffix` that forwards f's own parameters, each once, in order (`fn insert(&mut self, k, c) { self.update(k, c) }`)?
    Then whatever holds for every call of the callee holds for `f`."""
    e = f.body
    while e is not None and e.get("k") == "block":
        stmts = [s_ for s_ in e.get("stmts", [])]
        if e.get("e") is not None and not stmts:
            e = e["e"]
        elif e.get("e") is None and len(stmts) == 1:
            e = stmts[0]
            if e.get("k") == "semi":
                e = e.get("e")
        else:
            return False
    if e is None or e.get("k") not in ("call", "mcall") or not (fb.callee(e) or "").endswith(callee_suffix):
        return False
    args = ([e["recv"]] if e.get("k") == "mcall" else []) + list(e.get("args", []))
    want = [lid for p in f.params for _n, lid in fb.pat_bindings(p["pat"])]
    got = []
    for a in args:
        while a is not None and a.get("k") in ("addrof", "unary"):
            a = a["e"]
        if a is None or a.get("k") != "path" or a.get("res") != "local":
            return False
        got.append(a["id"])
    return got == want


_TRANSPARENT_STR = {"clone", "to_string", "to_owned", "as_str", "as_ref", "into", "to_string_lossy", "borrow", "deref", "as_path", "to_path_buf", "as_os_str", "into_owned", "display",
                    "as_mut_str", "into_boxed_str", "into_string"}


def _fmt_pieces(v):
    """The compact encoding of a format string (as it reaches the facts: control bytes shown as `·`) -> list of literal runs and None for placeholders.  A `·` directly in
    front of printable text is that run's length byte, the last `·` is the terminator, any other `·` is a placeholder."""
    out, i, n = [], 0, len(v)
    while i < n:
        ch = v[i]
        if ch != "\u00b7":
            j = i
            while j < n and v[j] != "\u00b7":
                j += 1
            out.append(v[i:j])
            i = j
            continue
        if i == n - 1:
            break                       # terminator
        if v[i + 1] != "\u00b7":
            i += 1                      # length byte of the run that follows
            continue
        out.append(None)
        i += 1
    return out


def str_template(c, e, depth=0):
    """What string does `e` build?  -> list of parts: literal text (str) or ("var", rendering) for anything that is not a literal.  Reads `format!` (placeholders filled with
    their arguments, so `format!("{}.{}", key, "md")` = `format!("{}.md", key)`), string literals, value-transparent calls (`to_string`, `clone`, `as_str`, ..), `Path::join`
    (parts separated by "/"), `a + b` / `[a, b].concat()` and locals bound by a plain `let`.  Adjacent literals are merged."""
    def merge(parts):
        out = []
        for p in parts:
            if isinstance(p, str) and out and isinstance(out[-1], str):
                out[-1] += p
            elif p != "":
                out.append(p)
        return out
    if e is None or depth > 10:
        return [("var", "?")]
    k = e.get("k")
    if k in ("addrof", "unary", "cast"):
        return str_template(c, e["e"], depth + 1)
    if k == "lit":
        v = str(e.get("v", ""))
        if v.startswith("s:"):
            return [v[2:]]
        return [("var", fb.show(e))]
    if k == "block":
        # the expansion of format!: { let args = (&a, &b); let args = [..]; { Arguments::new(<pieces>, &args) } }
        tup = None
        pieces = None
        for y in fb.walk(e):
            if y.get("k") == "let" and y.get("init") is not None and y["init"].get("k") == "tup" and tup is None:
                tup = y["init"]
            if y.get("k") == "call" and (fb.callee(y) or "").endswith(("Arguments::new", "Arguments::<'_>::new", "Arguments::new_const", "Arguments::from_str")) and y.get("args"):
                a0 = y["args"][0]
                while a0.get("k") in ("addrof", "unary"):
                    a0 = a0["e"]
                if a0.get("k") == "lit":
                    pieces = str(a0.get("v", ""))
        if pieces is not None:
            txt = pieces.split(":", 1)[1] if ":" in pieces[:3] else pieces
            parts, ai = [], 0
            args = tup.get("es", []) if tup is not None else []
            seq = _fmt_pieces(txt) if pieces.startswith("bs:") else [txt]
            for p in seq:
                if p is None:
                    parts += str_template(c, args[ai], depth + 1) if ai < len(args) else [("var", "?")]
                    ai += 1
                else:
                    parts.append(p)
            return merge(parts)
        if not e.get("stmts") and e.get("e") is not None:
            return str_template(c, e["e"], depth + 1)
        if e.get("e") is not None:
            return str_template(c, e["e"], depth + 1)
        return [("var", "?")]
    if k == "call":
        cal = fb.callee(e) or ""
        if cal.endswith(("fmt::format", "hint::must_use", "String::from", "From::from", "ToString::to_string", "ToOwned::to_owned", "Into::into", "PathBuf::from", "Path::new", "Clone::clone")) and e.get("args"):
            return str_template(c, e["args"][0], depth + 1)
        return [("var", fb.show(e)[:40])]
    if k == "mcall":
        nm = e["name"]
        if nm in _TRANSPARENT_STR:
            return str_template(c, e["recv"], depth + 1)
        if nm == "join" and len(e.get("args", [])) == 1 and "Path" in (fb.callee(e) or ""):
            return merge(str_template(c, e["recv"], depth + 1) + ["/"] + str_template(c, e["args"][0], depth + 1))
        if nm in ("with_extension", "with_file_name", "trim_end_matches", "strip_suffix", "replace"):
            return [("var", fb.show(e)[:40])]
        return [("var", fb.show(e)[:40])]
    if k == "binary" and e.get("op") == "+":
        return merge(str_template(c, e["l"], depth + 1) + str_template(c, e["r"], depth + 1))
    if k == "path" and e.get("res") == "local":
        b = c.binds.get(e["id"])
        if b and b[0] == "expr" and len(b) > 2 and isinstance(b[2], dict) and b[2].get("k") == "p_bind" and "sub" not in b[2] and b[1] is not None:
            return str_template(c, b[1], depth + 1)
        if b and b[0] == "param":
            return [("var", "P:" + str(b[2]))]
        return [("var", e.get("name") or "?")]
    return [("var", fb.show(e)[:40])]


_RESULT_FORWARDERS = {"try_for_each", "try_fold", "map", "and_then", "map_err", "or_else", "collect", "try_collect", "sum", "inspect_err", "context", "with_context"}


def result_propagated(c, f, call):
    """Does the Result produced by `call` reach the caller of `f`?  `call(..)?`, `return call(..)`, tail expression of the fn, or the value of
    a closure handed to `try_for_each` / `try_fold` / `map(..).collect::<Result<..>>()` whose own result is propagated the same way.
    A statement position (`call(..);`, `let _ = call(..);`) drops it."""
    node = call
    for p in c.parents(call):
        k = p.get("k")
        if k == "match" and p.get("src") == "TryDesugar":
            return True
        if k in ("ret", "iret"):
            return True
        if k == "block":
            if p.get("e") is node:
                node = p
                continue
            return False                      # a statement inside a block: the value is dropped (or bound; not followed)
        if k == "closure":
            if p.get("body") is node:
                node = p
                continue
            return False
        if k == "mcall":
            if p.get("recv") is node and p["name"] in _RESULT_FORWARDERS:
                node = p
                continue
            if any(a is node for a in p.get("args", [])) and node.get("k") == "closure" and p["name"] in _RESULT_FORWARDERS:
                node = p
                continue
            return False
        if k == "call":
            # Try::branch(x) / From::from(x) wrappers of the `?` desugaring, Ok(..) is NOT forwarding (it would swallow the error)
            cal = fb.callee(p) or ""
            if cal.endswith(("Try::branch", "FromResidual::from_residual", "IntoIterator::into_iter")):
                node = p
                continue
            return False
        if k in ("if", "match"):
            node = p
            continue
        if k in ("let", "letx", "assign"):
            return False
        node = p
    # reached the fn body: the value is the fn's result iff the body (or its tail) is `node`
    return node is f.body


def loop_as_chain(c, f, src):
    """If the sequence produced by `src` is consumed by a `for` loop that pushes one value per element into a collection, describe the loop
    as the iterator chain it is equivalent to:  for x in S.a().b() { out.push(g(x)) } ; out.join(..)   ==   S.a().b().map(g).collect().join(..)
    -> (names, mapped) where names = ['a', 'b', 'map', 'collect', 'join', ..] and mapped = [g(x) expression nodes]; a push under a condition
    or a loop with `continue` / `break` contributes the name 'filter' (elements can be skipped).  None if `src` does not feed a for loop."""
    loop = None
    inside = src
    for p in c.parents(src):
        if p.get("k") == "match" and p.get("src") == "ForLoopDesugar" and any(y is inside for y in fb.walk(p.get("e") or {})):
            loop = p
            break
    if loop is None:
        return None
    names = [m["name"] for m in chain_up(c, src) if any(y is m for y in fb.walk(loop["e"]))]
    names = [n for n in names if n not in ("into_iter", "iter", "iter_mut")]
    body = None
    for x in fb.walk(loop):
        if x.get("k") == "match" and x is not loop:
            for arm in x.get("arms", []):
                if any(fb.last_seg(v) == "Some" for v in fb.pat_variants(arm["pat"])):
                    body = arm["body"]
            if body is not None:
                break
    if body is None:
        return None
    pushes = [x for x in fb.walk(body, into_closures=False) if x.get("k") == "mcall" and x["name"] in ("push", "push_str", "push_back", "insert", "extend") and
              _outer_local(x.get("recv"), body) is not None]
    if not pushes:
        return None
    skipping = any(x.get("k") in ("continue", "break", "ret") for x in fb.walk(body, into_closures=False))
    mapped, targets = [], set()
    for pu in pushes:
        cond = False
        child = pu
        for p in c.parents(pu):
            if p is body:
                break
            if p.get("k") in ("if", "match") and child is not p.get("c") and child is not p.get("e", None) or (p.get("k") == "if"):
                cond = True
            child = p
        if cond or skipping:
            names.append("filter")
        mapped += list(pu.get("args", []))
        targets.add(_outer_local(pu["recv"], body))
    names += ["map", "collect"]
    for lid in targets:
        for use in fb.local_uses(f.body, lid):
            if not any(y is use for y in fb.walk(loop)):
                names += [m["name"] for m in value_chain(c, use)]
    return names, mapped


def _outer_local(e, scope):
    """id of the local `e` is rooted in, if that local is not bound inside `scope`."""
    while e is not None and e.get("k") in ("field", "addrof", "unary", "index"):
        e = e.get("e")
    if e is None or e.get("k") != "path" or e.get("res") != "local":
        return None
    inner = set()
    for x in fb.walk(scope, with_pats=True):
        if x.get("k") == "p_bind":
            inner.add(x.get("id"))
        if x.get("k") in ("let", "letx"):
            for _n, lid in fb.pat_bindings(x.get("pat")):
                inner.add(lid)
    return None if e["id"] in inner else e["id"]


def on_absent_edge(c, node, callee_suffix):
    """Is `node` evaluated only when the Option / Result that comes from `callee_suffix(..)` is None / Err?  `match v { None => <node> }`,
    `if let Some(..) = v {} else { <node> }`, `let Some(..) = v else { <node> }`, `v.unwrap_or_else(|| <node>)`, `v.or_else(|| <node>)`,
    `v.map_or_else(|| <node>, ..)`."""
    from vlib import q as _q
    cur = node
    for _hop in range(4):
        for e, pol in controlling_tests(c, cur):
            if e is not None and pol in ("pat:None", "pat:!Some", "pat:Err", "pat:!Ok") and _q.has_call(c.vprov(e) | c.mentions(e), callee_suffix):
                return True
        # leave the enclosing closure if it is the fallback argument of an Option combinator
        clo = None
        for p in c.parents(cur):
            if p.get("k") == "closure":
                clo = p
                break
        if clo is None:
            return False
        host = c.parent_of.get(id(clo))
        if host is not None and host.get("k") == "mcall" and host.get("args") and host["args"][0] is clo and host["name"] in ("unwrap_or_else", "or_else", "map_or_else", "ok_or_else"):
            if _q.has_call(c.vprov(host["recv"]) | c.mentions(host["recv"]), callee_suffix):
                return True
        cur = clo
    return False
