"""Helpers shared by the rule scripts."""
import re

from vlib import factbase as fb
from vlib.q import FnCtx

_ctx_cache = {}


def ctx(fn):
    c = _ctx_cache.get(id(fn))
    if c is None:
        c = FnCtx(fn)
        _ctx_cache[id(fn)] = c
    return c


def loc(fn, node=None):
    if node is not None and node.get("ln"):
        return "%s:%s" % (fn.file, node["ln"])
    return fn.loc


def chain_up(c, node):
    """Method-call chain above `node`: ancestors p1, p2, ... such that p1.recv is node, p2.recv is p1, ...
    `?`/try desugaring and references are looked through."""
    out = []
    cur = node
    for p in c.parents(node):
        k = p.get("k")
        if k == "mcall" and p.get("recv") is cur:
            out.append(p)
            cur = p
            continue
        if k in ("addrof", "unary", "cast") and p.get("e") is cur:
            cur = p
            continue
        break
    return out


def self_field(node, name=None):
    """node is `self.<name>` (or `(*self).<name>`); returns the field name or None."""
    if node is None:
        return None
    while node.get("k") in ("addrof",) or (node.get("k") == "unary" and node.get("op") == "*"):
        node = node["e"]
    if node.get("k") != "field":
        return None
    b = node["e"]
    while b.get("k") in ("addrof",) or (b.get("k") == "unary" and b.get("op") == "*"):
        b = b["e"]
    if b.get("k") == "path" and b.get("res") == "local" and b.get("name") == "self":
        if name is None or node["name"] == name:
            return node["name"]
    return None


def field_of(node):
    """(base type, field name) if node is a field access (through refs), else None."""
    if node is None:
        return None
    while node.get("k") in ("addrof",) or (node.get("k") == "unary" and node.get("op") == "*"):
        node = node["e"]
    if node.get("k") == "field":
        return (fb.norm(node.get("bty", "")).replace("&mut ", "").replace("&", ""), node["name"])
    return None


def match_arms_on(fn, ty_suffix):
    """All `match` nodes in fn whose scrutinee type (refs stripped) ends with ty_suffix."""
    out = []
    for n in fb.walk(fn.body):
        if n.get("k") == "match" and n.get("src") == "Normal":
            t = fb.norm(n.get("sty", "")).replace("&mut ", "").replace("&", "")
            if t == ty_suffix or t.endswith("::" + ty_suffix):
                out.append(n)
    return out


def arms_by_variant(facts, m, enum_path):
    """{variant path: (arm, payload bindings [(name,id)])} with wildcard arms expanded to the variants they cover."""
    adt = facts.adts[enum_path]
    allv = [v["path"] for v in adt["variants"]]
    res = {}
    covered = set()
    for arm in m["arms"]:
        vs = fb.pat_variants(arm["pat"])
        for v in vs:
            if v in allv and v not in res:
                res[v] = (arm, fb.pat_bindings(arm["pat"]), False)
                covered.add(v)
            elif v == "_":
                for w in allv:
                    if w not in res:
                        res[w] = (arm, [], True)
    return res


def is_empty_body(e):
    """Arm body with no effect: `{}` / `()`."""
    if e is None:
        return True
    k = e.get("k")
    if k == "block":
        return not e.get("stmts") and e.get("e") is None
    if k == "tup" and not e.get("es"):
        return True
    return False


def in_closure_of_option_method(c, node):
    """Is node inside a closure passed to an Option combinator (map/and_then/...) or in the then-branch of
    `if let Some(..)`?  Returns the guarding construct or None."""
    cur = node
    for p in c.parents(node):
        k = p.get("k")
        if k == "closure":
            cur = p
            continue
        if k == "mcall" and cur.get("k") == "closure" and cur in p.get("args", []):
            cal = fb.callee(p) or ""
            if cal.startswith(("std::option::Option::", "core::option::Option::")):
                return p
        if k == "if" and cur is p.get("t"):
            for cj in _conj(p["c"]):
                if cj.get("k") == "letx":
                    return p
        cur = p
    return None


def _conj(c):
    if c is None:
        return []
    if c.get("k") == "binary" and c.get("op") == "&&":
        return _conj(c["l"]) + _conj(c["r"])
    return [c]


def strip_refs(t):
    t = t or ""
    while True:
        t2 = t.strip()
        if t2.startswith("&mut "):
            t = t2[5:]
        elif t2.startswith("&"):
            t = t2[1:]
        else:
            return t2


def pname(fn, idx):
    """Current source name of parameter `idx` of fn (self counts as 0): rules refer to parameters by position, never by name."""
    try:
        bs = fb.pat_bindings(fn.params[idx]["pat"])
        return bs[0][0] if bs else "?"
    except (IndexError, KeyError):
        return "?"


def value_chain(c, node, depth=0):
    """Method calls applied to the value of `node`, in order, following the value through simple `let x = <node>` bindings
    (so `let raw = index.get(..); raw.into_iter().filter(..)` yields the same chain as `index.get(..).iter().filter(..)`)."""
    out = list(chain_up(c, node))
    top = out[-1] if out else node
    if depth > 3:
        return out
    # is `top` (through refs) the initialiser of a simple let?
    cur = top
    for p in c.parents(top):
        if p.get("k") in ("addrof", "unary", "cast") and p.get("e") is cur:
            cur = p
            continue
        if p.get("k") == "let" and p.get("init") is cur and p["pat"].get("k") == "p_bind":
            lid = p["pat"]["id"]
            # uses of the local anywhere in the fn
            for use in fb.local_uses(c.fn.body, lid):
                out += value_chain(c, use, depth + 1)
        break
    return out


def recv_chain(c, e, depth=0):
    """Names of the method calls that produced receiver expression `e`, innermost last, and the base expression; simple locals are looked through."""
    names = []
    while e is not None and depth < 12:
        depth += 1
        while e is not None and e.get("k") in ("addrof", "unary", "cast"):
            e = e["e"]
        if e is None:
            break
        if e.get("k") == "mcall":
            names.append(e["name"])
            e = e["recv"]
            continue
        if e.get("k") == "path" and e.get("res") == "local":
            b = c.binds.get(e["id"])
            if b and b[0] == "expr" and b[1].get("k") in ("mcall", "path", "addrof", "unary"):
                e = b[1]
                continue
        break
    return names, e


DROPPING_ADAPTERS = {"filter", "filter_map", "skip", "take", "take_while", "skip_while", "step_by", "nth", "last", "find", "find_map", "truncate", "retain", "dedup", "unique",
                     "first", "pop", "remove", "swap_remove", "drain", "dedup_by", "dedup_by_key", "unique_by", "min", "max", "min_by", "max_by", "position"}


def droppers_inventory(facts, rep, rid, fn_suffixes, audited, what):
    """Audited inventory of dropping / truncating / de-duplicating sequence adapters in the given fns.  Keys use the rename-independent rendering of the adapter's
    argument, so a NEW adapter gets a new key (and is reported) while renaming locals changes nothing.  `audited`: {(fn suffix, 'method(canonical arg)'): reason}."""
    n = 0
    for suffix in fn_suffixes:
        f = facts.fn(suffix)
        rep.saw_fn(f)
        seen = {}
        for x in fb.walk(f.body):
            if x.get("k") != "mcall" or x["name"] not in DROPPING_ADAPTERS:
                continue
            cal = fb.callee(x) or ""
            if not cal.startswith(("std::iter::", "core::iter::", "itertools::", "std::vec::", "alloc::vec::", "core::slice::", "rayon::", "std::collections::VecDeque")):
                continue
            arg = fb.show_canon(f, x["args"][0], maxdepth=30, inline=0).replace(" ", "")[:110] if x["args"] else ""
            sig = re.sub(r"\bc\d+(\.\d+)?\b", "c", "%s(%s)" % (x["name"], arg))
            k_ = seen.get(sig, 0)
            seen[sig] = k_ + 1
            n += 1
            key = "%s|%s|%d" % (f.def_, sig, k_)
            why = None
            for (fs, sg), reason in audited.items():
                sgn = re.sub(r"\bc\d+(\.\d+)?\b", "c", sg)
                if f.def_.endswith(fs) and (sgn == sig or (len(sgn) >= 40 and sig.startswith(sgn.rstrip(")")))):
                    why = reason
            if why:
                rep.ok(rid, key, "audited: " + why, loc(f, x), nontrivial=True)
            else:
                rep.violation(rid, key, "new dropping adapter `.%s` in %s: %s that the library contains would be left out of the answer; if it is intended, audit it with a reason" % (
                    sig[:80], fb.last2(f.def_), what), loc(f, x))
    return n
