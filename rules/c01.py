"""C01 - normalization never loses or invents note content (structural necessary conditions).

The formatting pipeline is a chain of total conversions between closed enums:
  pulldown Event/Tag/TagEnd -> DocumentBlock/DocumentInline (reader) -> arena GraphNode + Line (SectionsBuilder / GraphBuilder)
  -> Node (GraphNodePointer::node) -> Tree -> GraphBlock/GraphInline (Projector) -> text (to_markdown, MarkdownWriter for tables).
Content is lost for *every* document containing a construct iff some stage has no forwarding arm for it, drops a payload
slot, guards the forwarding, filters a collection, or stops walking siblings.  Those are shape facts, decided here.
"""
import re

from vlib import factbase as fb
from vlib import q
from . import arms as A
from .common import ctx, loc, self_field, strip_refs, controlling_tests, absent_test

# --------------------------------------------------------------------------------------------------------- tables
# Reader arms that may have no effect.  One reason each; (b)/(c) entries are conditional and re-checked on every run.
EMPTY_OK = {
    # (a) documented drops (the property text names raw HTML blocks)
    "Event::Html": ("documented-drop", None),
    "Tag::HtmlBlock": ("documented-drop", None),
    "TagEnd::HtmlBlock": ("documented-drop", None),
    # (b) structurally redundant: the start arm already opened the item / row / cell
    "TagEnd::Item": ("redundant-end", ("Tag::Item", "append_item")),
    "TagEnd::TableCell": ("redundant-end", ("Tag::TableCell", "append_cell")),
    "TagEnd::TableRow": ("redundant-end", ("Tag::TableRow", "append_row")),
    "TagEnd::TableHead": ("redundant-end", ("Tag::TableCell", "append_cell")),
    "Tag::TableHead": ("redundant-end", ("Tag::TableCell", "append_cell")),
    # (c) not producible unless the option is passed to Parser::new_ext
    "Event::FootnoteReference": ("needs-option", ("ENABLE_FOOTNOTES", "ENABLE_OLD_FOOTNOTES")),
    "Tag::FootnoteDefinition": ("needs-option", ("ENABLE_FOOTNOTES", "ENABLE_OLD_FOOTNOTES")),
    "TagEnd::FootnoteDefinition": ("needs-option", ("ENABLE_FOOTNOTES", "ENABLE_OLD_FOOTNOTES")),
    "Tag::DefinitionList": ("needs-option", ("ENABLE_DEFINITION_LIST",)),
    "Tag::DefinitionListTitle": ("needs-option", ("ENABLE_DEFINITION_LIST",)),
    "Tag::DefinitionListDefinition": ("needs-option", ("ENABLE_DEFINITION_LIST",)),
    "TagEnd::DefinitionList": ("needs-option", ("ENABLE_DEFINITION_LIST",)),
    "TagEnd::DefinitionListTitle": ("needs-option", ("ENABLE_DEFINITION_LIST",)),
    "TagEnd::DefinitionListDefinition": ("needs-option", ("ENABLE_DEFINITION_LIST",)),
    "Event::TaskListMarker": ("needs-option", ("ENABLE_TASKLISTS",)),
    "Event::DisplayMath": ("needs-option", ("ENABLE_MATH",)),
    "Tag::Superscript": ("needs-option", ("ENABLE_SUPERSCRIPT",)),
    "TagEnd::Superscript": ("needs-option", ("ENABLE_SUPERSCRIPT",)),
    "Tag::Subscript": ("needs-option", ("ENABLE_SUBSCRIPT",)),
    "TagEnd::Subscript": ("needs-option", ("ENABLE_SUBSCRIPT",)),
}

# payload slots of pulldown tags that carry note content and must be read by the arm
READER_KEEP = {
    "Event::Start": ["Event::Start.0"], "Event::End": ["Event::End.0"], "Event::Text": ["Event::Text.0"],
    "Event::Code": ["Event::Code.0"], "Event::InlineHtml": ["Event::InlineHtml.0"], "Event::InlineMath": ["Event::InlineMath.0"],
    "Tag::Heading": ["Tag::Heading.level"], "Tag::CodeBlock": ["Tag::CodeBlock.0"], "Tag::List": ["Tag::List.0"],
    "Tag::Table": ["Tag::Table.0"], "Tag::Link": ["Tag::Link.dest_url", "Tag::Link.link_type"], "Tag::Image": ["Tag::Image.dest_url"],
}

# struct-literal fields in reader arms that must be derived from a given payload binding (same-typed swaps compile)
READER_PROV = [
    ("Tag::Link", "liwe::model::document::Target", "url", "Tag::Link.dest_url"),
    ("Tag::Image", "liwe::model::document::Target", "url", "Tag::Image.dest_url"),
    ("Tag::Link", "liwe::model::document::Link", "link_type", "Tag::Link.link_type"),
    ("Tag::Heading", "liwe::model::document::Header", "level", "Tag::Heading.level"),
    ("Tag::Table", "liwe::model::document::Table", "alignment", "Tag::Table.0"),
    ("Tag::CodeBlock", "liwe::model::document::CodeBlock", "lang", "Tag::CodeBlock.0"),
]

# string operations that cut, fold or rewrite a link destination (strip_suffix is the audited table-cell backslash of `[[a\\|b]]`)
URL_CUTTERS = {"split_once", "rsplit_once", "split", "rsplit", "splitn", "rsplitn", "split_terminator", "trim", "trim_start", "trim_end", "trim_matches", "trim_start_matches",
               "trim_end_matches", "strip_prefix", "replace", "replacen", "to_lowercase", "to_uppercase", "to_ascii_lowercase", "to_ascii_uppercase", "truncate", "drain", "split_off",
               "get", "chars", "char_indices", "bytes", "find", "rfind", "pop", "remove", "retain", "parse", "join", "decode", "percent_decode_str"}

# names of payload-struct fields that are positions / bookkeeping, not note content
NONCONTENT = {"line_range", "inline_range", "attr", "id", "prev", "next", "child", "math_type", "metadata", "title", "relative_path"}

# audited drops of content-typed slots: (fn suffix or *, slot) -> reason
ALLOWED_DROPS = {
    ("*", "GraphInline::Link.1"): "link title attributes are a documented drop",
    ("*", "GraphInline::Image.1"): "image title attributes are a documented drop",
    ("*", "GraphInline::Code.0"): "inline code has no language (the reader always stores None)",
    ("*", "GraphInline::RawInline.0"): "raw-inline format is never produced by the Markdown reader",
    ("*", "GraphBlock::RawBlock.0"): "raw-block format is never produced by the Markdown reader",
    ("SectionsBuilder::section_block", "DocumentBlock::Header.0>level"): "heading depth is presentation: the outline is recomputed from nesting (process_blocks reads the level)",
    ("DocumentInline::to_graph_inline", "DocumentInline::Space.0"): "payload is a position only",
    ("DocumentInline::to_graph_inline", "DocumentInline::SoftBreak.0"): "payload is a position only",
    ("DocumentInline::to_graph_inline", "DocumentInline::LineBreak.0"): "payload is a position only",
    ("NodeIter>::node", "GraphNode::Quote.0"): "container without own content",
    ("NodeIter>::node", "GraphNode::BulletList.0"): "container without own content",
    ("NodeIter>::node", "GraphNode::OrderedList.0"): "container without own content",
    ("NodeIter>::node", "GraphNode::HorizontalRule.0"): "no content",
    ("MarkdownWriter::block_events", "GraphBlock::CodeBlock.0"): "arm not reachable: the event writer only ever receives a table (see C01-R4 who-may-call)",
}

# iterator adapters that can drop, reorder or truncate a content collection
LOSSY = {"filter", "filter_map", "skip", "take", "step_by", "rev", "dedup", "dedup_by", "dedup_by_key", "unique", "unique_by", "take_while",
         "skip_while", "nth", "last", "truncate", "retain", "pop", "remove", "swap_remove", "drain", "clear", "sorted", "sorted_by",
         "sorted_by_key", "sort", "sort_by", "sort_by_key", "reverse", "find", "find_map", "position", "positions", "flatten", "split_off"}

# audited lossy adapters on the formatting path: (fn suffix, method, ordinal) -> reason
LOSSY_OK = {
    ("SectionsBuilder::process_blocks", "positions", 0): "selects the heading positions that delimit sections; every index stays inside one of the resulting ranges (range arithmetic is not decided here)",
    ("SectionsBuilder::process_blocks", "filter", 0): "keeps heading positions at or after the first heading",
    ("SectionsBuilder::process_blocks", "filter", 1): "keeps heading positions inside the range",
    ("sections_builder::first_header_level", "find_map", 0): "query: level of the first heading",
    ("sections_builder::first_header", "find", 0): "query: index of the first heading",
    ("Tree::from_pointer", "flatten", 0): "drops only tombstoned (Empty) nodes, for which NodeIter::node is None",
    ("Tree::pre_sub_header_position", "take_while", 0): "query: counts leading non-section children",
    ("Tree::position", "take_while", 0): "query: index of a child",
    ("Projector::project_list_item", "last_mut", 0): "appends the item's sub-blocks to the item just pushed",
    ("GraphBlock::is_sparce_list", "filter", 0): "query: counts paragraphs per item",
    ("GraphBlock::is_sparce_list", "filter", 1): "query: counts paragraphs per item",
    ("MarkdownEventsReader::pop_inline", "pop", 0): "stack discipline: the popped inline is appended to its parent (C01-R1b checks the forwarding)",
    ("MarkdownEventsReader::pop_inline", "pop", 1): "position stack popped in step with the inline stack",
    ("MarkdownEventsReader::pop_block", "pop", 0): "stack discipline: the popped block is pushed to the output or appended to its container (C01-R1b)",
    ("NodeIter>::next", "last", 0): "TreeIter cursor arithmetic: reads the last path index",
    ("NodeIter>::next", "pop", 0): "TreeIter cursor arithmetic: replaces the last path index by index+1",
}


def _pat_defs(p):
    """All paths named anywhere inside a pattern (nested)."""
    out = []
    if isinstance(p, dict):
        if p.get("def") and str(p.get("k", "")).startswith("p_"):
            out.append(p["def"])
        for v in p.values():
            out += _pat_defs(v)
    elif isinstance(p, list):
        for v in p:
            out += _pat_defs(v)
    return out


def _v(p):
    """`pulldown_cmark::Tag::Link` -> `Tag::Link`."""
    return fb.last2(p) if p and p != "_" else p


def _diverges(e):
    for x in fb.walk(e, into_closures=False):
        if x.get("k") in ("call", "mcall") and x.get("ty") == "!":
            return True
    return False


def _find_reader_fns(facts, rep):
    out = {}
    for enum in ("Event", "Tag", "TagEnd"):
        hits = []
        for f in facts.body_fns():
            if f.crate != "liwe" or f.kind == "closure" or "::tests::" in f.def_ or "::test::" in f.def_:
                continue
            ms = [m for m in A.matches_on(f, "pulldown_cmark::" + enum)]
            if ms:
                hits.append((f, ms[0]))
        hits = [h for h in hits if "reader" in (h[0].file or "")] or hits
        if len(hits) != 1:
            rep.anchor_missing("C01-R1", "exactly one fn in the reader matching on pulldown_cmark::%s (found %d)" % (enum, len(hits)))
            continue
        out[enum] = hits[0]
    return out


def _enabled_options(facts, f):
    opts = set()
    found = False
    for call in fb.calls_in(f.body, lambda p: p.endswith("Parser::new_ext")):
        found = True
        if len(call["args"]) >= 2:
            for x in fb.walk(call["args"][1]):
                if x.get("k") == "path" and x.get("def") and "::ENABLE_" in x["def"]:
                    opts.add(fb.last_seg(fb.norm(x["def"])))
                if x.get("k") in ("call", "mcall") and (fb.callee(x) or "").endswith(("Options::all", "Options::from_bits_truncate", "Options::from_bits_retain", "Options::from_bits")):
                    opts.add("*")
    return found, opts


# ------------------------------------------------------------------------------------------------------------ R1

def rule_r1(facts, rep, rid="C01-R1"):
    rep.rule(rid, "every pulldown Event/Tag/TagEnd variant has a forwarding arm in the reader: an arm without effect must be a documented "
                  "drop, a structurally redundant end tag, or a construct whose parser option is not enabled; content payloads are read; "
                  "forwarding is not guarded by a new condition; struct fields are fed from the matching payload; start/end arms pair "
                  "push with pop")
    rf = _find_reader_fns(facts, rep)
    if len(rf) < 3:
        return
    read_fn = rf["Event"][0]
    found, opts = _enabled_options(facts, read_fn)
    if not found:
        rep.anchor_missing(rid, "call to pulldown_cmark::Parser::new_ext in the reader (parser options cannot be read)")
        return
    rep.ok(rid, "%s|parser-options" % read_fn.def_, "enabled: %s" % sorted(opts), read_fn.loc)
    n_arms = 0
    start_calls = {}   # Tag variant -> set of reader helper names called in its start arm
    end_calls = {}
    for enum in ("Event", "Tag", "TagEnd"):
        f, m = rf[enum]
        rep.saw_fn(f)
        c = ctx(f)
        seen = {}
        for vs, arm in A.arms_of(m):
            aloc = "%s:%s" % (f.file, arm.get("ln") or arm["body"].get("ln"))
            body = arm["body"]
            empty = not A.has_effect(body)
            slots = A.arm_slots(facts, arm, expand_structs=False)
            helper_calls = set(x["name"] for x in fb.walk(body) if x.get("k") == "mcall" and (fb.callee(x) or "").startswith("liwe::"))
            assigns = set()
            for x in fb.walk(body):
                if x.get("k") == "assign":
                    sf = self_field(x["l"])
                    if sf:
                        assigns.add(sf)
            for v in vs:
                vv = _v(v)
                n_arms += 1
                rep.stats["arms"] += 1
                key = "%s|arm:%s" % (f.def_, vv)
                if v == "_" or v.startswith(("lit:", "?")):
                    if empty:
                        rep.violation(rid, key + "|wildcard-drop", "a wildcard arm without effect swallows every %s variant not named before it: the constructs it covers vanish from every note that contains them" % enum, aloc)
                    else:
                        rep.ok(rid, key + "|wildcard", "wildcard arm has an effect", aloc)
                    continue
                if enum == "Tag":
                    start_calls[vv.split("::", 1)[1]] = (helper_calls, assigns)
                if enum == "TagEnd":
                    end_calls[vv.split("::", 1)[1]] = (helper_calls, assigns)
                if empty:
                    ent = EMPTY_OK.get(vv)
                    if ent is None:
                        rep.violation(rid, key + "|empty", "the reader's arm for %s does nothing: every occurrence of this construct (and, for a break, the word "
                                      "separation it provides) disappears when the note is formatted" % vv, aloc)
                        continue
                    kind, cond = ent
                    if kind == "documented-drop":
                        rep.ok(rid, key + "|empty", "documented drop", aloc)
                    elif kind == "redundant-end":
                        seen[vv] = (kind, cond, aloc)
                    else:
                        on = [o for o in cond if o in opts or "*" in opts]
                        if on:
                            rep.violation(rid, key + "|empty", "parser option %s is enabled, so pulldown produces %s, but the reader's arm drops it" % (on, vv), aloc)
                        else:
                            rep.ok(rid, key + "|empty", "not producible: none of %s is passed to Parser::new_ext" % (list(cond),), aloc)
                    continue
                # effectful arm: content payloads must be read
                need = READER_KEEP.get(vv, [])
                for s in need:
                    hit = [x for x in slots if x["slot"] == s]
                    k2 = key + "|keeps:" + s
                    if hit and hit[0]["state"] == "kept":
                        rep.ok(rid, k2, hit[0]["how"], aloc)
                    else:
                        rep.violation(rid, k2, "payload %s of %s is not read by the reader's arm (%s): that part of every such construct is lost" % (
                            s, vv, hit[0]["how"] if hit else "not matched"), aloc)
                if not need:
                    rep.ok(rid, key, "effectful arm (%s)" % ", ".join(sorted(helper_calls | assigns)) if (helper_calls | assigns) else "effectful arm", aloc, nontrivial=True)
                # guards on the forwarding path
                gi = 0
                for x in fb.walk(body, into_closures=True):
                    if x.get("k") == "if":
                        cond = x["c"]
                        ments = c.mentions(cond)
                        is_meta = ("field", "metadata_block") in ments and not any(a[0] == "call" for a in ments)
                        both = x.get("e") is not None and A.has_effect(x["t"]) and A.has_effect(x["e"])
                        k3 = "%s|guard:%d" % (key, gi)
                        gi += 1
                        if is_meta or both or cond.get("k") == "letx":
                            rep.ok(rid, k3, "guard `%s` (%s)" % (fb.show(cond)[:60], "front-matter flag" if is_meta else "both branches forward"), loc(f, x), nontrivial=False)
                        else:
                            rep.violation(rid, k3, "forwarding of %s is guarded by a new condition `%s` with no forwarding else-branch: occurrences for which it is false are dropped" % (vv, fb.show(cond)[:80]), loc(f, x))
                # every leaf branch of a content event arm mentions the payload
                if vv in ("Event::Text",):
                    b = [s for s in slots if s["slot"] == "Event::Text.0"]
                    lid = None
                    for name, i in fb.pat_bindings(arm["pat"]):
                        lid = i
                    # accumulation, not overwrite, for text collected into a field outside a block (front matter: pulldown emits one Text per
                    # line for CRLF input); the per-block assignments are checked per inner arm below
                    inner_assigns = set(id(a_) for mm in fb.walk(body) if mm.get("k") == "match" and mm.get("src") == "Normal" for a_ in fb.walk(mm) if a_.get("k") == "assign")
                    for asg in [x for x in fb.walk(body) if x.get("k") == "assign" and id(x) not in inner_assigns]:
                        lhs = asg["l"]
                        if lhs.get("k") != "field" or lid is None or not fb.uses_local(asg["r"], lid):
                            continue
                        k5 = "%s|field:%s|accumulates" % (key, lhs["name"])
                        if ("field", lhs["name"]) in c.mentions(asg["r"]):
                            rep.ok(rid, k5, "new text is appended to the existing %s" % lhs["name"], loc(f, asg))
                        else:
                            rep.violation(rid, k5, "`%s` is overwritten by each Text event instead of appended to: pulldown may deliver one block's text as several Text events (one per line "
                                          "for CRLF front matter), so all but the last piece are lost" % lhs["name"], loc(f, asg))
                    for mm in [x for x in fb.walk(body) if x.get("k") == "match" and x.get("src") == "Normal"]:
                        for ivs, iarm in A.arms_of(mm):
                            if any(x.endswith("CodeBlock") for x in ivs):
                                continue
                            for asg in [x for x in fb.walk(iarm["body"]) if x.get("k") == "assign" and x["l"].get("k") == "field" and lid is not None and fb.uses_local(x["r"], lid)]:
                                k5 = "%s|inner:%s|accumulates" % (key, "+".join(fb.last_seg(x) for x in ivs))
                                if ("field", asg["l"]["name"]) in c.mentions(asg["r"]):
                                    rep.ok(rid, k5, "new text is appended", loc(f, asg))
                                    continue
                                made = [g.def_ for v_ in ivs for g in facts.body_fns() if g.crate == "liwe" and "::tests::" not in g.def_
                                        for y in fb.walk(g.body) if y.get("k") == "call" and y.get("ctor") and (fb.callee(y) or "").endswith("DocumentBlock::" + fb.last_seg(v_))]
                                if made:
                                    rep.violation(rid, k5, "text of a %s is overwritten by each Text event instead of appended to (the block is built in %s)" % (ivs, made[0]), loc(f, asg))
                                else:
                                    rep.ok(rid, k5, "overwrite in an arm for a block kind the reader never builds (no DocumentBlock::%s constructor call in liwe): unreachable" % fb.last_seg(ivs[0]), loc(f, asg), nontrivial=False)
                    for mm in [x for x in fb.walk(body) if x.get("k") == "match" and x.get("src") == "Normal"]:
                        for ivs, iarm in A.arms_of(mm):
                            k4 = "%s|inner:%s|forwards-text" % (key, "+".join(fb.last_seg(x) for x in ivs))
                            if lid is not None and fb.uses_local(iarm["body"], lid):
                                rep.ok(rid, k4, "text is used", loc(f, iarm["body"]))
                            else:
                                rep.violation(rid, k4, "the Text arm's inner arm for top block %s does not use the text: text inside such a block is lost" % ivs, loc(f, iarm["body"]))
                            # accumulation, not overwrite, for code blocks (pulldown emits one Text per line)
                            if any(x.endswith("CodeBlock") for x in ivs):
                                for asg in [x for x in fb.walk(iarm["body"]) if x.get("k") == "assign"]:
                                    lhs = asg["l"]
                                    if lhs.get("k") == "field":
                                        rm = c.mentions(asg["r"])
                                        k5 = "%s|inner:CodeBlock|accumulates" % key
                                        if ("field", lhs["name"]) in rm:
                                            rep.ok(rid, k5, "new text is appended to the existing %s" % lhs["name"], loc(f, asg))
                                        else:
                                            rep.violation(rid, k5, "code-block text is overwritten instead of appended: pulldown delivers a code block's body as one Text event per line, so all but the last line are lost", loc(f, asg))
        for vv, (kind, cond, aloc) in seen.items():
            key = "%s|arm:%s|empty" % (f.def_, vv)
            tagv, helper = cond
            sc = start_calls.get(tagv.split("::", 1)[1])
            if sc is None and enum == "Tag":
                # Tag::TableHead is checked after the loop (needs the full start table)
                continue
            if sc and helper in sc[0]:
                rep.ok(rid, key, "redundant end: the %s arm calls %s" % (tagv, helper), aloc)
            else:
                rep.violation(rid, key, "%s has no effect and the %s arm no longer calls %s: items/rows/cells are not opened" % (vv, tagv, helper), aloc)
    # Tag::TableHead (start) relies on TableCell's append_cell
    f, m = rf["Tag"]
    for vs, arm in A.arms_of(m):
        for v in vs:
            if _v(v) == "Tag::TableHead" and not A.has_effect(arm["body"]):
                sc = start_calls.get("TableCell")
                key = "%s|arm:Tag::TableHead|empty" % f.def_
                if sc and "append_cell" in sc[0]:
                    rep.ok(rid, key, "redundant: header cells are opened by the TableCell arm", "%s:%s" % (f.file, arm["body"].get("ln")))
                else:
                    rep.violation(rid, key, "Tag::TableHead has no effect and TableCell does not call append_cell", "%s:%s" % (f.file, arm["body"].get("ln")))
    rep.floor(rid, "reader arms (Event + Tag + TagEnd variants)", n_arms, 59)

    # struct fields fed from the matching payload
    f, m = rf["Tag"]
    c = ctx(f)
    for vs, arm in A.arms_of(m):
        for v in vs:
            vv = _v(v)
            for (tagv, st, field, src) in READER_PROV:
                if tagv != vv:
                    continue
                key = "%s|arm:%s|%s.%s<-%s" % (f.def_, vv, fb.last_seg(st), field, src)
                lits = [x for x in fb.walk(arm["body"]) if x.get("k") == "struct" and fb.norm(x.get("def", "")) == st]
                if not lits:
                    rep.violation(rid, key, "the %s arm no longer builds a %s" % (vv, fb.last_seg(st)), "%s:%s" % (f.file, arm["body"].get("ln")))
                    continue
                fe = [fl["e"] for fl in lits[0]["fields"] if fl["name"] == field]
                slot_of = {lid: pos for lid, pos in q.pat_positions(arm["pat"])}
                want_ids = set(lid for lid, pos in slot_of.items() if pos == src)
                used = set()
                if fe:
                    # value provenance: which payload bindings can the field's value come from (match guards and other control
                    # dependences do not count: `match url.strip_suffix(..) { Some(s) if piped => s, _ => url }` is still fed by `url`)
                    pv = c.vprov(fe[0])
                    poss = set(a[1] for a in pv if a[0] == "patpos")
                    used = set(lid for lid, pos in slot_of.items() if pos in poss)
                    if not used:
                        # the value goes through a conversion fn (`to_link_type(link_type)`): fall back to the payload bindings mentioned
                        seen_l = set()
                        stack = [fe[0]]
                        while stack:
                            ex = stack.pop()
                            for y in fb.walk(ex):
                                if y.get("k") == "path" and y.get("res") == "local":
                                    if y["id"] in slot_of:
                                        used.add(y["id"])
                                    elif y["id"] not in seen_l:
                                        seen_l.add(y["id"])
                                        b_ = c.binds.get(y["id"])
                                        if b_ and b_[0] == "expr":
                                            stack.append(b_[1])
                if field == "url" and fe:
                    # the destination is stored as the source has it: nothing is cut off, folded or replaced on the way (audited: the table-cell `\\` of a piped wiki link)
                    cut = sorted(set(fb.last_seg(a[1]) for a in (c.vprov(fe[0]) | c.mentions(fe[0])) if a[0] == "call" and a[1] and fb.last_seg(a[1]) in URL_CUTTERS))
                    k_v = "%s|arm:%s|%s.url|stored-verbatim" % (f.def_, vv, fb.last_seg(st))
                    if cut:
                        rep.violation(rid, k_v, "the destination is cut or rewritten on its way into the model (%s): the note no longer says where its link points (fragment / case / "
                                      "prefix lost on formatting), and ranges computed from the stored url's length no longer match the source" % ", ".join(cut), loc(f, lits[0]))
                    else:
                        rep.ok(rid, k_v, "dest_url is stored as it is", loc(f, lits[0]))
                if want_ids and used == want_ids:
                    rep.ok(rid, key, "%s.%s is derived from the tag's %s" % (fb.last_seg(st), field, src), loc(f, lits[0]))
                else:
                    rep.violation(rid, key, "%s.%s is built from %s instead of the tag's `%s`: a same-typed payload was swapped or a constant substituted" % (
                        fb.last_seg(st), field, sorted(slot_of[u] for u in used) or "no payload binding", src), loc(f, lits[0]))

    # start/end pairing
    n_pairs = 0
    for tv, (hc, asg) in sorted(start_calls.items()):
        ec = end_calls.get(tv)
        for push, pop in (("push_block", "pop_block"), ("push_inline", "pop_inline")):
            if push in hc:
                n_pairs += 1
                key = "reader|pair:%s|%s/%s" % (tv, push, pop)
                if ec and pop in ec[0]:
                    rep.ok(rid, key, "Tag::%s pushes, TagEnd::%s pops" % (tv, tv))
                else:
                    rep.violation(rid, key, "Tag::%s calls %s but TagEnd::%s does not call %s: the block/inline stack stays unbalanced and everything "
                                  "after the construct is nested into it or lost" % (tv, push, tv, pop))
        if "metadata_block" in asg:
            n_pairs += 1
            key = "reader|pair:%s|metadata-flag" % tv
            # the flag must be switched by constants: `true` on the start tag, `false` on the end tag
            vals = {}
            for enum_, table_ in (("Tag", rf["Tag"]), ("TagEnd", rf["TagEnd"])):
                f_, m_ = table_
                for vs_, arm_ in A.arms_of(m_):
                    if any(_v(v_) == "%s::%s" % (enum_, tv) for v_ in vs_):
                        for x_ in fb.walk(arm_["body"]):
                            if x_.get("k") == "assign" and self_field(x_["l"]) == "metadata_block":
                                vals[enum_] = fb.show(x_["r"])
            if vals.get("Tag") != "true" or vals.get("TagEnd") not in ("false", None):
                rep.violation(rid, key + "|constant", "the front-matter flag is set to `%s` on Tag::%s (and `%s` on the end tag) instead of the constants true/false: whenever it is false inside a "
                              "metadata block, the block's text is sent to top_block() of an empty block stack (panic) or into the previous block" % (vals.get("Tag"), tv, vals.get("TagEnd")))
            elif ec and "metadata_block" in ec[1]:
                rep.ok(rid, key, "flag set to true at start and reset to false at end")
            else:
                rep.violation(rid, key, "front-matter flag is set by Tag::%s and never reset by TagEnd::%s: all text after the front matter is swallowed" % (tv, tv))
    rep.floor(rid, "start/end pairs", n_pairs, 12)


# ------------------------------------------------------------------------------------------------------------ R1b

def rule_r1b(facts, rep, rid="C01-R1b"):
    rep.rule(rid, "the reader's stack helpers lose nothing: pop_block drops a finished block iff the enclosing block is not a container, so "
                  "is_container and append_block must agree; append_inline forwards the inline for every text-holding block kind")
    DB = "liwe::model::document::DocumentBlock"
    isc = facts.fn("DocumentBlock::is_container")
    apb = facts.fn("DocumentBlock::append_block")
    api = facts.fn("DocumentBlock::append_inline")
    for f in (isc, apb, api):
        rep.saw_fn(f)
    cont = {}
    for m in A.matches_on(isc, "DocumentBlock")[:1]:
        for vs, arm in A.arms_of(m):
            val = arm["body"]
            while val.get("k") == "block" and val.get("e") is not None and not val.get("stmts"):
                val = val["e"]
            for v in vs:
                cont[fb.last_seg(v)] = (val.get("k") == "lit" and val.get("v") in ("b:true", "bool:true")) or fb.show(val) == "true"
    # `matches!(self, A | B)` = `match self { A | B => true, _ => false }`: the wildcard arm speaks for every variant it covers
    if "_" in cont:
        dflt = cont.pop("_")
        for var in facts.adts[DB]["variants"]:
            cont.setdefault(fb.last_seg(var["path"]), dflt)
    accepts = {}
    for m in A.matches_on(apb, "DocumentBlock")[:1]:
        for vs, arm in A.arms_of(m):
            for v in vs:
                if v != "_":
                    accepts[fb.last_seg(v)] = not _diverges(arm["body"]) and A.has_effect(arm["body"])
    # the same table when append_block is not one `match self`: a block kind is accepted if it is named by a pattern (match arm or `if let`,
    # also inside an inlined selector helper such as `list_items_mut()`) whose branch neither diverges nor answers `None`
    def _is_none(e_):
        while e_ is not None and e_.get("k") == "block" and not e_.get("stmts") and e_.get("e") is not None:
            e_ = e_["e"]
        return e_ is not None and e_.get("k") == "path" and fb.last_seg(fb.norm(e_.get("def") or "")) == "None"
    for x in fb.walk(apb.body):
        branches = []
        if x.get("k") == "match":
            branches = [(a_["pat"], a_["body"]) for a_ in x.get("arms", [])]
        elif x.get("k") == "if" and x["c"].get("k") == "letx":
            branches = [(x["c"]["pat"], x["t"])]
        for pat, body in branches:
            for d_ in _pat_defs(pat):
                dn = fb.norm(d_)
                if dn.startswith(DB + "::"):
                    v_ = fb.last_seg(dn)
                    acc = not _diverges(body) and not _is_none(body)
                    accepts[v_] = accepts.get(v_, False) or acc
    if not cont or not accepts:
        rep.anchor_missing(rid, "match on DocumentBlock in is_container / append_block")
        return
    ctor_div = [f.def_ for f in facts.body_fns() if f.crate in ("liwe", "iwes", "iwe") and "::tests::" not in f.def_ and "::test::" not in f.def_
                and any(x.get("k") == "call" and x.get("ctor") and (fb.callee(x) or "").endswith("DocumentBlock::Div") for x in fb.walk(f.body))]
    for v in sorted(cont):
        key = "%s|%s" % (isc.def_, v)
        if cont[v] and not accepts.get(v, False):
            if v == "Div" and not ctor_div:
                rep.ok(rid, key, "container without append arm, but DocumentBlock::Div is never constructed", isc.loc, nontrivial=False)
            else:
                rep.violation(rid, key, "is_container() is true for %s but append_block has no arm for it: a nested block panics the reader" % v, isc.loc)
        elif not cont[v] and accepts.get(v, False):
            rep.violation(rid, key, "append_block accepts %s but is_container() is false for it: pop_block silently drops every block nested in a %s" % (v, v), isc.loc)
        else:
            rep.ok(rid, key, "container=%s, append arm=%s" % (cont[v], accepts.get(v, False)), isc.loc)
    rep.floor(rid, "DocumentBlock variants in is_container", len(cont), 11)
    # pop_block / pop_inline shape: the popped value is pushed somewhere on every path
    for name, sinks in (("MarkdownEventsReader::pop_block", ("push", "append_block")), ("MarkdownEventsReader::pop_inline", ("append_inline", "apppen"))):
        f = facts.fn(name)
        rep.saw_fn(f)
        got = set(x["name"] for x in fb.walk(f.body) if x.get("k") == "mcall")
        key = f.def_ + "|forwards-popped"
        if all(s in got for s in sinks):
            rep.ok(rid, key, "popped value goes to %s" % (sinks,), f.loc)
        else:
            rep.violation(rid, key, "%s no longer forwards the popped value to %s" % (name, [s for s in sinks if s not in got]), f.loc)
    # append_inline: text-holding kinds forward the inline
    holders = {"Plain", "Para", "Header", "BlockQuote", "OrderedList", "BulletList", "Table"}
    pid = None
    for p in api.params:
        if "DocumentInline" in (p.get("ty") or ""):
            for name, lid in fb.pat_bindings(p["pat"]):
                pid = lid
    for m in A.matches_on(api, "DocumentBlock")[:1]:
        for vs, arm in A.arms_of(m):
            for v in vs:
                vs_ = fb.last_seg(v)
                key = "%s|arm:%s" % (api.def_, vs_)
                if vs_ in holders:
                    if pid is not None and fb.uses_local(arm["body"], pid):
                        rep.ok(rid, key, "inline is forwarded", loc(api, arm["body"]))
                    else:
                        rep.violation(rid, key, "append_inline's arm for %s does not use the inline: all text of such blocks is lost" % vs_, loc(api, arm["body"]))
                elif v == "_":
                    rep.violation(rid, key, "wildcard arm in append_inline hides which block kinds drop their text", loc(api, arm["body"]))
                else:
                    rep.ok(rid, key, "not a text holder (text of code blocks is appended by the Text arm; rules have none)", loc(api, arm["body"]), nontrivial=False)

                # list arms re-dispatch the inline to the item's last block (tight items carry their text directly): the fresh paragraph must be opened
                # whenever that block is not an open paragraph - after a heading the text would be merged into it, after a code block / rule dropped
                if vs_ in ("OrderedList", "BulletList"):
                    k2 = key + "|redispatch-only-into-open-paragraph"
                    opens = [y for y in fb.walk(arm["body"]) if y.get("k") == "call" and y.get("ctor") and (fb.callee(y) or "").endswith("DocumentBlock::Para")]
                    if not opens:
                        rep.violation(rid, k2, "append_inline's %s arm no longer opens a paragraph for loose item text" % vs_, loc(api, arm["body"]))
                        continue
                    # the kind test on the item's last block, in any form (matches!, match, if let)
                    kinds = set()
                    tests = 0
                    for mm in [y for y in fb.walk(arm["body"]) if y.get("k") in ("match", "letx")]:
                        e_ = mm.get("e") if mm["k"] == "match" else mm.get("init")
                        if e_ is not None and any(z.get("k") == "mcall" and z["name"] in ("last", "last_mut") for z in fb.walk(e_)):
                            pats = [a_["pat"] for a_ in mm.get("arms", [])] if mm["k"] == "match" else [mm.get("pat")]
                            for d_ in _pat_defs(pats):
                                if "DocumentBlock::" in fb.norm(d_):
                                    kinds.add(fb.last_seg(fb.norm(d_)))
                                    tests += 1
                    if {"Para", "Plain"} <= kinds and not (kinds - {"Para", "Plain"}):
                        rep.ok(rid, k2, "a new paragraph is opened unless the item's last block is a Para / Plain", loc(api, opens[0]))
                    else:
                        rep.violation(rid, k2, "the %s arm hands loose item text to the item's last block without testing that it is an open paragraph (kinds tested: %s): text that follows "
                                      "a heading inside a tight item is merged into the heading, text after a code block is dropped" % (vs_, sorted(kinds) or "none"), loc(api, opens[0]))


# ------------------------------------------------------------------------------------------------------------ R2

def _leaf(slot):
    return slot.rsplit(">", 1)[-1].rsplit(".", 1)[-1]


def _is_content_slot(s):
    leaf = _leaf(s["slot"])
    if leaf in NONCONTENT:
        return False
    return True


def _allowed_drop(fn, slot):
    for (fs, sl), why in ALLOWED_DROPS.items():
        if sl == slot and (fs == "*" or fn.def_.endswith(fs)):
            return why
    return None


STAGES = [
    # (fn suffix, source enum suffix, full enum path for variant coverage or None)
    ("SectionsBuilder::block", "DocumentBlock", "liwe::model::document::DocumentBlock"),
    ("SectionsBuilder::section_block", "DocumentBlock", None),
    ("DocumentInline::to_graph_inline", "DocumentInline", "liwe::model::document::DocumentInline"),
    ("GraphBuilder::add_new_node_and", "Node", "liwe::model::node::Node"),
    ("GraphNodePointer as liwe::model::node::NodeIter>::node", "GraphNode", "liwe::graph::graph_node::GraphNode"),
    ("GraphBlock::to_markdown", "GraphBlock", "liwe::model::graph::GraphBlock"),
    ("GraphInline::to_markdown", "GraphInline", "liwe::model::graph::GraphInline"),
    ("MarkdownWriter::inlines_to_events", "GraphInline", "liwe::model::graph::GraphInline"),
    ("MarkdownWriter::block_events", "GraphBlock", None),
    ("GraphInline::normalize", "GraphInline", None),
]


def rule_r2(facts, rep, rid="C01-R2"):
    rep.rule(rid, "stage-to-stage forwarding: in every conversion fn of the pipeline each variant of the source enum has an arm that is not a "
                  "silent no-op, and every content slot of the variant's payload (tuple position / struct field, joined with the ADT table) is "
                  "read by the arm unless it is an audited drop")
    n = 0
    for (fs, enum, full) in STAGES:
        f = facts.fn(fs)
        rep.saw_fn(f)
        ms = A.matches_on(f, enum)
        if not ms:
            rep.anchor_missing(rid, "match on %s in %s" % (enum, fs))
            continue
        m = ms[0]
        scrut_ids = set(x.get("id") for x in fb.walk(m["e"]) if x.get("k") == "path" and x.get("res") == "local")
        covered = set()
        for vs, arm in A.arms_of(m):
            body = arm["body"]
            aloc = "%s:%s" % (f.file, body.get("ln") or f.line)
            div = _diverges(body)
            whole = any(fb.uses_local(body, i) for i in scrut_ids)
            for v in vs:
                if v != "_":
                    covered.add(v)
            if vs == ["_"]:
                continue
            vname = "+".join(fb.last_seg(v) for v in vs)
            if div:
                rep.ok(rid, "%s|arm:%s|diverges" % (f.def_, vname), "arm panics (reachability is C03's obligation)", aloc, nontrivial=False)
                continue
            if not A.has_effect(body):
                n += 1
                rep.violation(rid, "%s|arm:%s|empty" % (f.def_, vname), "%s has an arm for %s that produces nothing: every such construct vanishes at this stage" % (fs, vname), aloc)
                continue
            for s in A.arm_slots(facts, arm):
                if not _is_content_slot(s):
                    continue
                if ">" in s["slot"] and _leaf(s["slot"].rsplit(">", 1)[0]) in NONCONTENT:
                    continue
                # the whole-payload slot of a struct payload is implied by its fields
                n += 1
                rep.stats["arms"] += 1
                key = "%s|slot:%s" % (f.def_, s["slot"])
                if s["state"] == "kept" or whole:
                    rep.ok(rid, key, s["how"] if s["state"] == "kept" else "arm uses the whole matched value", aloc)
                else:
                    why = _allowed_drop(f, s["slot"])
                    if why:
                        rep.ok(rid, key, "audited drop: " + why, aloc, nontrivial=False)
                    else:
                        rep.violation(rid, key, "%s drops %s (%s): this part of every such construct is lost or replaced when the note is formatted" % (fs, s["slot"], s["how"]), aloc)
        if full:
            allv = [v["path"] for v in facts.adts[full]["variants"]]
            wild = [arm for vs, arm in A.arms_of(m) if vs == ["_"]]
            for v in allv:
                if v in covered:
                    continue
                key = "%s|arm:%s|wildcard" % (f.def_, fb.last_seg(v))
                n += 1
                if not wild:
                    continue
                wb = wild[0]["body"]
                has_payload = any(x["path"] == v and x["fields"] for x in facts.adts[full]["variants"])
                whole = any(fb.uses_local(wb, i) for i in scrut_ids)
                if _diverges(wb):
                    rep.ok(rid, key, "falls into a panicking wildcard (C03's obligation)", loc(f, wb), nontrivial=False)
                elif whole or not has_payload:
                    rep.ok(rid, key, "falls into a wildcard arm that forwards the whole value" if whole else "no payload", loc(f, wb), nontrivial=False)
                else:
                    rep.violation(rid, key, "%s: variant %s falls into a wildcard arm that does not use the matched value: its payload is dropped" % (fs, fb.last_seg(v)), loc(f, wb))
    rep.floor(rid, "payload slots / arms examined", n, 110)


# ------------------------------------------------------------------------------------------------------------ R2b  projector accessors

def _accessor_table(facts, rep, rid):
    """NodeIter default methods -> set of (variant, slot) they expose, read from their `if let Node::V(..) = node` / match."""
    out = {}
    for f in facts.body_fns():
        if f.in_trait and f.in_trait.endswith("model::node::NodeIter") and f.kind != "closure":
            cov = set()
            bodies = [f] + facts.closures_of.get(f.def_, [])
            for g in bodies:
                if g.body is None:
                    continue
                for x in fb.walk(g.body):
                    pats = []
                    if x.get("k") == "if" and x["c"].get("k") == "letx":
                        pats.append((x["c"]["pat"], x["t"]))
                    if x.get("k") == "match":
                        for a in x["arms"]:
                            pats.append((a["pat"], a["body"]))
                    if x.get("k") == "let" and x.get("els") is not None and x.get("pat") is not None:
                        # `let Some(Node::V(x)) = self.node() else { return None };` - what follows in the fn uses the bindings
                        pats.append((x["pat"], g.body))
                    if x.get("k") == "mcall" and (fb.callee(x) or "").startswith("liwe::model::node::Node::") and fb.callee(x) in facts.fns:
                        # the payload is taken out by a method of Node (`node.reference_key()`): read that method's own patterns
                        h_ = facts.fns[fb.callee(x)]
                        for y in fb.walk(h_.body or {}):
                            if y.get("k") == "if" and y["c"].get("k") == "letx":
                                pats.append((y["c"]["pat"], y["t"]))
                            if y.get("k") == "match":
                                for a in y["arms"]:
                                    pats.append((a["pat"], a["body"]))
                    for p, body in pats:
                        for s in A.arm_slots(facts, {"pat": p, "body": body, "guard": None}):
                            slot = s["slot"]
                            # `match self.node() { Some(Node::V(..)) => .. }` and `if let Some(Node::V(..)) = self.node()` name the same slots
                            while slot.startswith(("v1::Some.0>", "Option::Some.0>", "Some.0>")):
                                slot = slot.split(">", 1)[1]
                            if s["state"] == "kept" and slot.startswith("Node::"):
                                cov.add(slot)
            if cov:
                out[fb.last_seg(f.def_)] = cov
    return out


def rule_r2b(facts, rep, rid="C01-R2b"):
    rep.rule(rid, "Projector::project_node reads every content slot of each Node variant through the NodeIter accessors (the accessor -> slot "
                  "table is read from the accessors' own patterns), pushes a block in every arm and recurses into the children of containers")
    acc = _accessor_table(facts, rep, rid)
    if len(acc) < 8:
        rep.anchor_missing(rid, "NodeIter accessor methods (found %d)" % len(acc))
        return
    f = facts.fn("Projector::project_node")
    rep.saw_fn(f)
    ms = A.matches_on(f, "Node")
    if not ms:
        rep.anchor_missing(rid, "match on Node in Projector::project_node")
        return
    node = facts.adts["liwe::model::node::Node"]
    n = 0
    for vs, arm in A.arms_of(ms[0]):
        body = arm["body"]
        called = set(x["name"] for x in fb.walk(body) if x.get("k") == "mcall")
        exposed = set()
        for nm in called:
            exposed |= acc.get(nm, set())
        for v in vs:
            if v == "_":
                rep.violation(rid, "%s|arm:_" % f.def_, "wildcard arm in the projector hides which node kinds are not re-emitted", loc(f, body))
                continue
            vs_ = fb.last_seg(v)
            var = [x for x in node["variants"] if x["path"] == v][0]
            aloc = "%s:%s" % (f.file, body.get("ln"))
            # required slots
            req = []
            for i, fl in enumerate(var["fields"]):
                st = A.struct_of_type(facts, fl["ty"])
                if st is not None and fb.last_seg(st["path"]) != "Key":
                    for sf in st["variants"][0]["fields"]:
                        req.append("Node::%s.%d>%s" % (vs_, i, sf["name"]))
                else:
                    req.append("Node::%s.%d" % (vs_, i))
            for r in req:
                if vs_ == "Document":
                    continue
                n += 1
                key = "%s|arm:%s|reads:%s" % (f.def_, vs_, r)
                hit = [e for e in exposed if e == r or e.startswith(r + ">") or r.startswith(e + ">")]
                if hit:
                    rep.ok(rid, key, "through %s" % sorted(nm for nm in called if acc.get(nm) and (set(hit) & acc[nm])), aloc)
                else:
                    rep.violation(rid, key, "the projector's %s arm never reads %s (no NodeIter accessor exposing it is called): that part of every %s is lost in the output" % (vs_, r, vs_), aloc)
            # emits
            n += 1
            key = "%s|arm:%s|emits" % (f.def_, vs_)
            pushes = [x for x in fb.walk(body) if x.get("k") == "mcall" and x["name"] in ("push", "extend", "append")]
            if pushes:
                rep.ok(rid, key, "pushes/extends the output blocks", aloc)
            else:
                rep.violation(rid, key, "the projector's %s arm emits no block" % vs_, aloc)
            # containers recurse on child
            if vs_ in ("Document", "Section", "Quote", "BulletList", "OrderedList"):
                n += 1
                key = "%s|arm:%s|recurses-on-child" % (f.def_, vs_)
                rec = [x for x in fb.walk(body) if x.get("k") == "mcall" and x["name"] in ("project_node", "project_list_item")]
                ch = "child" in called
                if rec and ch:
                    rep.ok(rid, key, "child() -> %s" % rec[0]["name"], aloc)
                else:
                    rep.violation(rid, key, "container arm %s does not recurse into its children: everything nested in it is lost" % vs_, aloc)
    rep.floor(rid, "projector obligations", n, 25)
    # the accessors themselves are positional: name -> slot table must stay what the projector relies on
    expect = {"lang": "Node::Raw.0", "content": "Node::Raw.1", "table_header": "Node::Table.0>header", "table_alignment": "Node::Table.0>alignment",
              "table_rows": "Node::Table.0>rows", "ref_text": "Node::Reference.0>text", "ref_key2": "Node::Reference.0>key", "ref_type": "Node::Reference.0>reference_type"}
    for nm, slot in sorted(expect.items()):
        key = "NodeIter::%s|exposes:%s" % (nm, slot)
        got = acc.get(nm, set())
        got_n = set(g.replace("node::Reference.", "").replace("node::Table.", "") for g in got)
        if slot in got_n and len([g for g in got_n if ">" not in g or g == slot]) <= 2:
            rep.ok(rid, key, "accessor reads %s" % sorted(got_n))
        else:
            rep.violation(rid, key, "NodeIter::%s reads %s instead of %s: the projector would emit a different payload under this name" % (nm, sorted(got_n), slot))


# ------------------------------------------------------------------------------------------------------------ R3 walkers

def _enclosing(c, node):
    return c.parents(node)


def rule_r3(facts, rep, rid="C01-R3"):
    rep.rule(rid, "sibling/child walk completeness: in every recursive walker over NodeIter the step to the next sibling is taken on every "
                  "path (not inside one match arm, not behind an early return), and children are walked; Tree::from_pointer collects the "
                  "first child and every next sibling")
    # project_node: trailing next() recursion outside the match, no early return in arms
    f = facts.fn("Projector::project_node")
    rep.saw_fn(f)
    c = ctx(f)
    nexts = [x for x in fb.walk(f.body) if x.get("k") == "mcall" and x["name"] == "next" and (fb.callee(x) or "").endswith("NodeIter::next")]
    key = f.def_ + "|next-sibling-step"
    good = []
    node_matches = A.matches_on(f, "Node")

    def _is_scrutinee(construct, call):
        """`call` is what the construct tests: `if let P = call`, `match call {..}`, `while let`, `call.map(..)`."""
        if construct.get("k") == "if" and construct["c"].get("k") == "letx":
            return any(y is call for y in fb.walk(construct["c"].get("init") or {}))
        if construct.get("k") == "match":
            return any(y is call for y in fb.walk(construct["e"]))
        return False
    for nx in nexts:
        ps = c.parents(nx)
        inside_node_match = any(p in node_matches and not any(y is nx for y in fb.walk(p["e"])) for p in ps)
        # the construct that tests `iter.next()` (if-let / match on the Option / Option::map closure) must contain the recursive call
        tester = None
        for p in ps:
            if p.get("k") in ("if", "match") and _is_scrutinee(p, nx):
                tester = p
                break
            if p.get("k") == "mcall" and p.get("recv") is not None and any(y is nx for y in fb.walk(p["recv"])) and p["name"] in ("map", "and_then", "into_iter", "iter", "for_each"):
                tester = p
                break
        rec = tester is not None and any(y.get("k") == "mcall" and y["name"] == "project_node" for y in fb.walk(tester))
        other_cond = [p for p in ps if p is not tester and ((p.get("k") == "if") or (p.get("k") == "match" and p.get("src") == "Normal"))]
        if not inside_node_match and rec and not other_cond:
            good.append(nx)
    if good:
        rep.ok(rid, key, "`if let Some(next) = iter.next()` recursion at fn level, after the match", loc(f, good[0]))
    else:
        rep.violation(rid, key, "the step to the next sibling is missing, nested inside one match arm or behind another condition: every block after "
                      "the first (or after blocks of some kind) is dropped from the output", f.loc)
    ms = A.matches_on(f, "Node")
    rets = []
    for m in ms[:1]:
        for a in m["arms"]:
            rets += [x for x in fb.walk(a["body"], into_closures=False) if x.get("k") == "ret"]
    key = f.def_ + "|no-early-return-in-arms"
    if rets:
        rep.violation(rid, key, "an arm of the projector returns early: the siblings after such a node are never emitted", loc(f, rets[0]))
    else:
        rep.ok(rid, key, "no `return` inside the match arms", f.loc)
    # the only early return before the match is the is_none() guard
    pre = [x for x in fb.walk(f.body, into_closures=False) if x.get("k") == "ret"]
    for i, r in enumerate(pre):
        ps = c.parents(r)
        iff = [p for p in ps if p.get("k") == "if"]
        cond = fb.show(iff[0]["c"]) if iff else "?"
        key = "%s|early-return:%d" % (f.def_, i)
        tests_ = controlling_tests(c, r)
        # `if iter.node().is_none() { return .. }`, `let Some(node) = iter.node() else { return .. }`, `match iter.node() { None => return .., .. }`, `iter.node()?`
        if ("is_none()" in cond and "node()" in cond) or (tests_ and absent_test(c, tests_[0], "::node")):
            rep.ok(rid, key, "guard `%s`" % cond, loc(f, r), nontrivial=False)
        else:
            rep.violation(rid, key, "new early return under `%s` in the projector: the rest of the note is not emitted when it fires" % cond, loc(f, r))

    # project_list_item: child and next both walked
    f = facts.fn("Projector::project_list_item")
    rep.saw_fn(f)
    names = [x["name"] for x in fb.walk(f.body) if x.get("k") == "mcall"]
    for need, what in (("child", "item's sub-blocks"), ("next", "following items")):
        key = "%s|walks:%s" % (f.def_, need)
        ok = False
        for x in fb.walk(f.body):
            if x.get("k") == "mcall" and x["name"] == need and (fb.callee(x) or "").endswith("NodeIter::" + need):
                ch = [m["name"] for m in _chain(ctx(f), x)]
                blob = fb.show(_top(ctx(f), x))
                if ("project_node" in blob or "project_list_item" in blob) and "filter" not in ch:
                    ok = True
        if ok:
            rep.ok(rid, key, "%s() feeds a recursive projection" % need, f.loc)
        else:
            rep.violation(rid, key, "project_list_item no longer walks %s (%s are lost)" % (need, what), f.loc)
    key = f.def_ + "|item-text"
    cf_ = ctx(f)
    ctors = [x for x in fb.walk(f.body) if x.get("k") == "call" and (fb.callee(x) or "").endswith(("GraphBlock::Para", "GraphBlock::Plain"))
             and any(y.get("k") == "mcall" and y["name"] == "inlines" for a_ in x.get("args", []) for y in fb.walk(a_))]
    # the text block is pushed onto the item, or the item is built around it (`vec![Para(iter.inlines())]` that the sub-blocks are appended to)
    kept = [x for x in ctors if any(p_.get("k") in ("array", "let") or (p_.get("k") == "mcall" and p_["name"] in ("push", "insert")) or
                                    (p_.get("k") == "call" and "vec" in str(p_.get("m") or "")) for p_ in cf_.parents(x))]
    if names.count("inlines") >= 1 and (("push" in names and ctors) or kept):
        rep.ok(rid, key, "item text pushed", f.loc)
    else:
        rep.violation(rid, key, "list item's own text is not emitted", f.loc)

    # GraphBuilder::{insert_from_iter, append_from_visitor}
    for nm in ("GraphBuilder::insert_from_iter", "GraphBuilder::append_from_visitor"):
        f = facts.fn(nm)
        rep.saw_fn(f)
        bodies = [f] + [g for g in facts.closures_of.get(f.def_, [])]
        blob = fb.show(f.body, maxdepth=60)
        for need, rec in (("child", "insert_from_iter"), ("next", "append_from_visitor")):
            key = "%s|walks:%s" % (f.def_, need)
            ok = False
            for x in fb.walk(f.body):
                if x.get("k") == "mcall" and x["name"] == need and (fb.callee(x) or "").endswith("NodeIter::" + need):
                    top = _top(ctx(f), x)
                    if any(y.get("k") == "mcall" and y["name"] == rec for y in fb.walk(top)):
                        if not any(m["name"] in LOSSY for m in _chain(ctx(f), x)):
                            ok = True
            if ok:
                rep.ok(rid, key, "%s() -> %s" % (need, rec), f.loc)
            else:
                rep.violation(rid, key, "%s no longer copies the %s of a node (%s -> %s missing): content is lost when a tree is written back into a graph" % (nm, "children" if need == "child" else "following siblings", need, rec), f.loc)
        key = f.def_ + "|copies-node"
        if any(x.get("k") == "mcall" and x["name"] == "add_new_node_and" for x in fb.walk(f.body)):
            rep.ok(rid, key, "node() -> add_new_node_and", f.loc)
        else:
            rep.violation(rid, key, "%s does not add the node itself" % nm, f.loc)

    # Tree::from_pointer / squash_from_pointer: first child + while-let next loop, payload copied whole
    f = facts.fn("Tree::from_pointer")
    rep.saw_fn(f)
    c = ctx(f)
    pushes = [x for x in fb.walk(f.body) if x.get("k") == "mcall" and x["name"] == "push"]
    srcs = set()
    for p in pushes:
        for a in p["args"]:
            at = c.vprov(a)
            if q.has_call(at, "NodeIter::child"):
                srcs.add("child")
            if q.has_call(at, "NodeIter::next"):
                srcs.add("next")
    loops = [x for x in fb.walk(f.body) if x.get("k") == "loop"]
    key = f.def_ + "|collects-first-child-and-all-siblings"
    if {"child", "next"} <= srcs and loops and any(p for p in pushes if any(l for l in loops if any(y is p for y in fb.walk(l)))):
        rep.ok(rid, key, "children = [child()] ++ loop{next()}", f.loc)
    else:
        rep.violation(rid, key, "Tree::from_pointer does not collect the first child and then every next sibling in a loop (found pushes from %s): blocks are lost when a note is collected into a tree" % sorted(srcs), f.loc)
    # loop body: no conditional push / continue / break other than the while-let exit
    for l in loops:
        conds = [x for x in fb.walk(l) if x.get("k") == "if" and x["c"].get("k") != "letx"]
        key = f.def_ + "|sibling-loop-unconditional"
        if conds:
            rep.violation(rid, key, "the sibling loop of Tree::from_pointer pushes under a condition `%s`: siblings failing it are lost" % fb.show(conds[0]["c"])[:60], loc(f, conds[0]))
        else:
            rep.ok(rid, key, "every sibling is pushed", loc(f, l))
    key = f.def_ + "|payload-copied"
    st = [x for x in fb.walk(f.body) if x.get("k") == "struct" and fb.norm(x.get("def", "")).endswith("model::tree::Tree")]
    okp = False
    for s in st:
        for fl in s["fields"]:
            if fl["name"] == "node" and q.has_call(c.mentions(fl["e"]), "NodeIter::node"):
                okp = True
    if okp:
        rep.ok(rid, key, "Tree.node = pointer.node()", f.loc)
    else:
        rep.violation(rid, key, "Tree.node is not the pointer's node payload", f.loc)
    key = f.def_ + "|recurses-on-every-child"
    chain_ok = False

    def _applies_recursion(arg):
        if arg.get("k") == "path":
            return fb.norm(arg.get("def") or "").endswith("Tree::from_pointer")
        return any(y.get("k") in ("call", "mcall") and (fb.callee(y) or "").endswith("Tree::from_pointer") for y in fb.walk(arg))
    for x in fb.walk(f.body):
        # `.map(from_pointer).flatten()`, `.filter_map(from_pointer)` and `.flat_map(from_pointer)` are the same conversion
        if x.get("k") == "mcall" and x["name"] in ("map", "filter_map", "flat_map") and x.get("args") and _applies_recursion(x["args"][0]):
            recvs = []
            r = x["recv"]
            while r is not None and r.get("k") == "mcall":
                recvs.append(r["name"])
                r = r["recv"]
            if not (set(recvs) & LOSSY):
                chain_ok = True
    if chain_ok:
        rep.ok(rid, key, "children.into_iter().map(from_pointer).flatten() without filter/skip/take", f.loc)
    else:
        rep.violation(rid, key, "the children of a tree node are not all converted recursively", f.loc)


def _chain(c, node):
    from .common import chain_up
    return chain_up(c, node)


def _top(c, node):
    """Outermost statement-level expression containing node (stops at block statements)."""
    cur = node
    for p in c.parents(node):
        if p.get("k") in ("block", "loop") or (p.get("k") == "closure" and False):
            break
        cur = p
    return cur


# ------------------------------------------------------------------------------------------------------------ R4 inline printers

BLOCK_TAGS = ("Paragraph", "Heading", "BlockQuote", "CodeBlock", "HtmlBlock", "List", "Item", "Table", "TableHead", "TableRow", "TableCell",
              "FootnoteDefinition", "DefinitionList", "MetadataBlock")


def rule_r4(facts, rep, rid="C01-R4"):
    rep.rule(rid, "the two inline printers agree: table cells are printed by MarkdownWriter::inlines_to_events only, so for every inline kind "
                  "the reader can produce it must keep the payload slots GraphInline::to_markdown keeps and emit inline-level events only; "
                  "the event writer is reachable for tables only")
    f1 = facts.fn("GraphInline::to_markdown")
    f2 = facts.fn("MarkdownWriter::inlines_to_events")
    rep.saw_fn(f1)
    rep.saw_fn(f2)
    m1 = A.matches_on(f1, "GraphInline")
    m2 = A.matches_on(f2, "GraphInline")
    if not m1 or not m2:
        rep.anchor_missing(rid, "match on GraphInline in both inline printers")
        return

    def table(f, m):
        t = {}
        for vs, arm in A.arms_of(m):
            for v in vs:
                # an or-pattern arm (`Code(_, t) | RawInline(_, t)`) lists the slots of all its alternatives: a variant is answerable for its own only
                vn = fb.last_seg(v)
                t[vn] = (arm, set(s["slot"] for s in A.arm_slots(facts, arm) if s["state"] == "kept" and (
                    "::" not in s["slot"].split(">")[0].split(".")[0] or fb.last_seg(s["slot"].split(">")[0].split(".")[0]) == vn)))
        return t
    t1, t2 = table(f1, m1[0]), table(f2, m2[0])
    n = 0
    for v in sorted(t1):
        if v == "_":
            continue
        n += 1
        key = "inline-printers|%s|kept-slots" % v
        if v not in t2:
            rep.violation(rid, key, "GraphInline::%s has no arm in the table-cell printer" % v, f2.loc)
            continue
        miss = t1[v][1] - t2[v][1]
        if miss:
            rep.violation(rid, key, "the table-cell printer drops %s, which the paragraph printer keeps: a %s inside a table cell loses that part" % (sorted(miss), v), loc(f2, t2[v][0]["body"]))
        else:
            rep.ok(rid, key, "both keep %s" % sorted(t1[v][1]), loc(f2, t2[v][0]["body"]))
    # inline-level events only
    for v, (arm, _k) in sorted(t2.items()):
        n += 1
        key = "%s|arm:%s|inline-events-only" % (f2.def_, v)
        bad = []
        for x in fb.walk(arm["body"]):
            d = None
            if x.get("k") in ("call", "struct", "path"):
                d = fb.norm(x.get("def") or "")
            if d and d.startswith("pulldown_cmark::Tag::") and fb.last_seg(d) in BLOCK_TAGS:
                bad.append(fb.last_seg(d))
        if bad:
            rep.violation(rid, key, "the table-cell printer emits block-level event(s) Tag::%s for inline %s: the cell's text ends up outside the cell and the table is broken" % (sorted(set(bad)), v), loc(f2, arm["body"]))
        else:
            rep.ok(rid, key, "only inline events", loc(f2, arm["body"]))
    rep.floor(rid, "inline kinds compared", n, 30)
    # who may call the event writer
    w = facts.fn("MarkdownWriter::write")
    callers = sorted(facts.callgraph.callers_of(w.def_))
    key = w.def_ + "|who-may-call"
    if callers == ["liwe::model::graph::GraphBlock::to_markdown"]:
        tm = facts.fn("GraphBlock::to_markdown")
        mm = A.matches_on(tm, "GraphBlock")
        in_table = False
        for vs, arm in A.arms_of(mm[0]):
            if any(fb.last_seg(v) == "Table" for v in vs) and any((fb.callee(x) or "").endswith("MarkdownWriter::write") for x in fb.calls_in(arm["body"])):
                in_table = len(vs) == 1
        if in_table:
            rep.ok(rid, key, "only GraphBlock::to_markdown's Table arm", w.loc)
        else:
            rep.violation(rid, key, "MarkdownWriter::write is called outside the Table arm: its block arms (which drop code-block languages and raw blocks) become reachable", w.loc)
    else:
        rep.violation(rid, key, "MarkdownWriter::write has callers %s: the event writer's block arms were audited as reachable for tables only" % callers, w.loc)


# ------------------------------------------------------------------------------------------------------------ R5 sections builder shape

def rule_r5(facts, rep, rid="C01-R5"):
    rep.rule(rid, "SectionsBuilder visits every block index: the pre-heading loop calls block() for each index, every section range is processed, "
                  "a section handles blocks[start] and recurses on start+1..end, list items are processed from 0 to len, and the only early "
                  "returns are the two audited guards")
    pb = facts.fn("SectionsBuilder::process_blocks")
    ps = facts.fn("SectionsBuilder::process_section")
    for f in (pb, ps):
        rep.saw_fn(f)
    c = ctx(pb)
    # for loops
    fors = [x for x in fb.walk(pb.body) if x.get("k") == "match" and x.get("src") == "ForLoopDesugar"] or [x for x in fb.walk(pb.body) if x.get("k") == "loop"]
    calls_block = [x for x in fb.walk(pb.body) if x.get("k") == "mcall" and x["name"] == "block" and (fb.callee(x) or "").endswith("SectionsBuilder::block")]
    calls_sec = [x for x in fb.walk(pb.body) if x.get("k") == "mcall" and x["name"] == "process_section"]
    for what, calls in (("block", calls_block), ("process_section", calls_sec)):
        key = "%s|loop-calls:%s" % (pb.def_, what)
        if not calls:
            rep.violation(rid, key, "process_blocks never calls %s" % what, pb.loc)
            continue
        call = calls[0]
        par = c.parents(call)
        in_loop = any(p.get("k") == "loop" for p in par)
        conds = [p for p in par if p.get("k") == "if" and not (p["c"].get("k") == "letx")]
        # ifs that are inside the loop only
        inner = []
        for p in par:
            if p.get("k") == "loop":
                break
            if p.get("k") == "if" and p["c"].get("k") != "letx":
                inner.append(p)
            if p.get("k") == "match" and p.get("src") == "Normal":
                inner.append(p)
        skips = []
        for l in [p for p in par if p.get("k") == "loop"][:1]:
            skips = [x for x in fb.walk(l) if x.get("k") == "continue" or (x.get("k") == "break" and not _is_for_exit(c, x))]
        if in_loop and not inner and not skips:
            rep.ok(rid, key, "called unconditionally for every element of the loop", loc(pb, call))
        else:
            rep.violation(rid, key, "process_blocks calls %s %s: blocks are skipped" % (what, "under a condition / with continue-break in the loop" if in_loop else "outside a loop"), loc(pb, call))
    # iterator of the pre-header loop is a plain range (no step_by/skip/rev/filter)
    key = pb.def_ + "|loop-iterators-plain"
    bad = []
    for x in fb.walk(pb.body):
        if x.get("k") == "match" and x.get("src") == "ForLoopDesugar":
            it = x["e"]
            for y in fb.walk(it):
                if y.get("k") == "mcall" and y["name"] in LOSSY:
                    bad.append(y["name"])
    if bad:
        rep.violation(rid, key, "a loop in process_blocks iterates through %s: some block indices are not visited" % bad, pb.loc)
    else:
        rep.ok(rid, key, "for-loops iterate plain ranges / the ranges vector", pb.loc)
    # early returns
    rets = [x for x in fb.walk(pb.body, into_closures=False) if x.get("k") == "ret"]
    allowed = 0
    for i, r in enumerate(rets):
        tests = controlling_tests(c, r)
        cond = fb.show_canon(pb, tests[0][0]) if tests else "?"
        key = "%s|early-return:%d" % (pb.def_, i)
        if (tests and tests[0][1] == "true" and cond == "P1.is_empty()") or (tests and absent_test(c, tests[0], "first_header_level")):
            allowed += 1
            rep.ok(rid, key, "audited guard `%s` (%s)" % (cond, tests[0][1]), loc(pb, r), nontrivial=False)
        else:
            rep.violation(rid, key, "new early return in process_blocks under `%s`: the blocks of that range are never added to the note" % cond[:80], loc(pb, r))
    # the no-heading return must come after the pre-header loop
    if calls_block:
        for r in rets:
            tests = controlling_tests(c, r)
            if tests and absent_test(c, tests[0], "first_header_level"):
                key = pb.def_ + "|no-heading-return-after-block-loop"
                if (r.get("s") or [0])[0] > (calls_block[0].get("s") or [0])[0]:
                    rep.ok(rid, key, "the `no heading` return follows the loop over the pre-heading blocks", loc(pb, r))
                else:
                    rep.violation(rid, key, "process_blocks returns for a range without headings before adding its blocks: heading-less notes, list items and quotes lose all content", loc(pb, r))
    # process_section shape
    c2 = ctx(ps)
    sb = [x for x in fb.walk(ps.body) if x.get("k") == "mcall" and x["name"] == "section_block"]
    key = ps.def_ + "|handles-first-block"
    if sb and fb.show_canon(ps, sb[0]["args"][0]).replace(" ", "") in ("&P2[P1.start]", "&P2[(P1.start)]"):
        rep.ok(rid, key, "section_block(&blocks[range.start])", loc(ps, sb[0]))
    else:
        rep.violation(rid, key, "process_section does not pass blocks[range.start] to section_block (%s)" % (fb.show(sb[0]["args"][0]) if sb else "no call"), ps.loc)
    rc = [x for x in fb.walk(ps.body) if x.get("k") == "mcall" and x["name"] == "process_blocks"]
    key = ps.def_ + "|recurses-on-rest"
    shape = _range_shape(rc[0]["args"][0], ps) if rc else ""
    if rc and shape == "(P1.start+1)..P1.end" and fb.show_canon(ps, rc[0]["args"][1]) == "P2":
        rep.ok(rid, key, "process_blocks(range.start + 1..range.end)", loc(ps, rc[0]))
    else:
        rep.violation(rid, key, "process_section does not recurse on exactly range.start+1..range.end (got `%s`): blocks of the section are skipped or visited twice" % shape, ps.loc)
    rets = [x for x in fb.walk(ps.body, into_closures=False) if x.get("k") == "ret"]
    for i, r in enumerate(rets):
        iff = [p for p in c2.parents(r) if p.get("k") == "if"]
        cond = fb.show_canon(ps, iff[0]["c"]) if iff else "?"
        key = "%s|early-return:%d" % (ps.def_, i)
        if cond == "P1.is_empty()":
            rep.ok(rid, key, "audited guard", loc(ps, r), nontrivial=False)
        else:
            rep.violation(rid, key, "new early return in process_section under `%s`" % cond[:80], loc(ps, r))
    # list items: process_section(0..b.len(), b) for every item; quote: new(..., &quote.blocks, ..)
    n_items = 0
    for nm in ("SectionsBuilder::block", "SectionsBuilder::section_block"):
        f = facts.fn(nm)
        cc = ctx(f)
        for x in fb.walk(f.body):
            if x.get("k") == "mcall" and x["name"] == "process_section":
                n_items += 1
                i = n_items
                shape = _range_shape(x["args"][0], f)
                same_item = len(x["args"]) > 1 and fb.show_canon(f, x["args"][1]) == "b0"
                key = "%s|item-range|%d" % (f.def_, sum(1 for y in fb.walk(f.body) if y.get("k") == "mcall" and y["name"] == "process_section" and (y.get("s") or [0])[0] < (x.get("s") or [0])[0]))
                par = cc.parents(x)
                iters = [p for p in par if p.get("k") == "match" and p.get("src") == "ForLoopDesugar"]
                lossy = []
                for it in iters[:1]:
                    lossy = [y["name"] for y in fb.walk(it["e"]) if y.get("k") == "mcall" and y["name"] in LOSSY]
                if shape == "0..b0.len()" and same_item and iters and not lossy:
                    rep.ok(rid, key, "for b in items.iter() { process_section(0..b.len(), b) }", loc(f, x))
                else:
                    rep.violation(rid, key, "list items are not all processed over their full block range (range `%s`, iterator adapters %s)" % (shape, lossy), loc(f, x))
    rep.floor(rid, "list-item loops", n_items, 4)
    f = facts.fn("SectionsBuilder::new")
    key = f.def_ + "|whole-range"
    calls = [x for x in fb.walk(f.body) if x.get("k") == "mcall" and x["name"] == "process_blocks"]
    shape = _range_shape(calls[0]["args"][0], f) if calls else ""
    if shape == "0..P1.len()" and fb.show_canon(f, calls[0]["args"][1]) == "P1":
        rep.ok(rid, key, "process_blocks(0..content.len())", f.loc)
    else:
        rep.violation(rid, key, "SectionsBuilder::new does not process the whole block list (`%s`)" % shape, f.loc)


def _range_shape(e, fn=None):
    """`a..b` rendered as `a..b` whatever the desugaring looks like (locals rendered rename-independently when fn is given)."""
    t = (fb.show_canon(fn, e) if fn is not None else fb.show(e)).replace(" ", "")
    mm = re.match(r"^(?:[A-Za-z_:]*::)?Range\{start:(.*),end:(.*)\}$", t)
    if mm:
        return "%s..%s" % (mm.group(1), mm.group(2))
    return t


def _is_for_exit(c, brk):
    """`break` generated by the for/while-let desugaring (None arm of the iterator match / else of while-let)."""
    for p in c.parents(brk):
        if p.get("k") == "match" and p.get("src") == "ForLoopDesugar":
            return True
        if p.get("k") == "if" and p["c"].get("k") == "letx":
            return True
        if p.get("k") == "loop":
            return False
    return False


# ------------------------------------------------------------------------------------------------------------ R6 metadata + joiners

def rule_r6(facts, rep, rid="C01-R6"):
    rep.rule(rid, "front matter is carried verbatim: reader.metadata() -> Document.metadata -> Graph.metadata[key] -> re-emitted in front of the "
                  "body; blocks are joined with the blank-line joiner at note and quote level so that neighbours stay separate blocks")
    d = facts.fn("MarkdownReader as liwe::graph::Reader>::document")
    rep.saw_fn(d)
    c = ctx(d)
    st = [x for x in fb.walk(d.body) if x.get("k") == "struct" and fb.norm(x.get("def", "")).endswith("document::Document")]
    key = d.def_ + "|fields"
    okm = okb = False
    for s in st:
        for fl in s["fields"]:
            at = c.vprov(fl["e"])
            if fl["name"] == "metadata" and q.has_call(at, "MarkdownEventsReader::metadata"):
                okm = True
            if fl["name"] == "blocks" and q.has_call(at, "MarkdownEventsReader::blocks"):
                okb = True
    if okm and okb:
        rep.ok(rid, key, "Document{blocks: reader.blocks(), metadata: reader.metadata()}", d.loc)
    else:
        rep.violation(rid, key, "Document is not built from the reader's blocks() and metadata() (blocks ok=%s, metadata ok=%s)" % (okb, okm), d.loc)
    tm = facts.fn("Graph::to_markdown")
    rep.saw_fn(tm)
    c = ctx(tm)
    key = tm.def_ + "|re-emits-front-matter"
    ok = False
    # some string-building expression (format! / push_str / concat) combines the stored front matter - a value that comes from
    # `self.metadata.get(..)` / `self.metadata[..]`, in whatever idiom it is looked up - with the rendered body
    # the combination may sit in a helper of Graph (`self.with_front_matter(key, body)`): look at the fn with its own type's helpers expanded as well
    from vlib import inline as _inl
    tm_x = _inl.expanded(facts, tm)
    cands_ = [(tm, c)] + ([(tm_x, ctx(tm_x))] if tm_x is not tm else [])
    for tm_, c_ in cands_:
      for x in fb.walk(tm_.body):
        if x.get("k") not in ("call", "mcall", "binary"):
            continue
        cal = fb.callee(x) or ""
        if x.get("k") in ("call", "mcall") and not (cal.endswith("fmt::format") or cal.endswith("::push_str") or cal.endswith("::concat") or cal.endswith("::join")):
            continue
        pv = c_.vprov(x)
        at = c_.mentions(x)
        has_meta = ("field", "metadata") in at or any(a == ("field", "metadata") for a in pv)
        looked_up = q.has_call(pv, "HashMap::get") or q.has_call(at, "HashMap::get") or any(y.get("k") == "index" for y in fb.walk(x))
        has_body = q.has_call(pv, "NodeIter::to_markdown") or q.has_call(at, "NodeIter::to_markdown")
        if has_meta and looked_up and has_body:
            ok = True
    if ok:
        rep.ok(rid, key, "the value of metadata.get(key) is combined with the rendered body", tm.loc)
    else:
        rep.violation(rid, key, "Graph::to_markdown does not print the stored front matter in front of the body", tm.loc)
    key = tm.def_ + "|body-from-own-key"
    body_calls = [x for x in fb.walk(tm.body) if x.get("k") == "mcall" and x["name"] == "collect"]
    if body_calls and fb.show_canon(tm, body_calls[0]["args"][0]) == "P1":
        rep.ok(rid, key, "collect(key)", tm.loc)
    else:
        rep.violation(rid, key, "to_markdown(key) does not render collect(key)", tm.loc)
    # joiners
    ni = facts.fn("NodeIter::to_markdown")
    rep.saw_fn(ni)
    joiner = None
    for x in fb.calls_in(ni.body):
        cal = fb.callee(x) or ""
        g = facts.fns.get(cal)
        if g is not None and g.body is not None and "Vec<liwe::model::graph::GraphBlock>" in fb.show_types(g) if hasattr(fb, "show_types") else False:
            joiner = g
    cands = [x for x in fb.calls_in(ni.body) if (fb.callee(x) or "").startswith("liwe::model::graph::blocks_to_markdown")]
    key = ni.def_ + "|joiner"
    if len(cands) == 1 and _join_literal(facts, fb.callee(cands[0]), cands[0]) == "\n":
        rep.ok(rid, key, "%s joins with a blank line" % fb.last_seg(fb.callee(cands[0])), ni.loc)
    else:
        rep.violation(rid, key, "a note's blocks are no longer joined with the blank-line joiner (%s): adjacent paragraphs merge into one" % [fb.last_seg(fb.callee(x)) for x in cands], ni.loc)
    gb = facts.fn("GraphBlock::to_markdown")
    for vs, arm in A.arms_of(A.matches_on(gb, "GraphBlock")[0]):
        if any(fb.last_seg(v) == "BlockQuote" for v in vs):
            cands = [x for x in fb.calls_in(arm["body"]) if (fb.callee(x) or "").startswith("liwe::model::graph::blocks_to_markdown")]
            key = gb.def_ + "|arm:BlockQuote|joiner"
            if len(cands) == 1 and _join_literal(facts, fb.callee(cands[0]), cands[0]) == "\n":
                rep.ok(rid, key, "quote blocks joined with a blank line", loc(gb, arm["body"]))
            else:
                rep.violation(rid, key, "blocks inside a quote are no longer joined with the blank-line joiner", loc(gb, arm["body"]))
        if any(fb.last_seg(v) in ("BulletList", "OrderedList") for v in vs):
            for v in vs:
                cands = [x for x in fb.calls_in(arm["body"]) if (fb.callee(x) or "").endswith("blocks_to_markdown_and")]
                key = "%s|arm:%s|joiner" % (gb.def_, fb.last_seg(v))
                okj = False
                for x in cands:
                    if len(x["args"]) >= 2 and "is_sparce_list" in fb.show_canon(gb, x["args"][1]):
                        okj = True
                if okj:
                    rep.ok(rid, key, "item blocks joined according to is_sparce_list()", loc(gb, arm["body"]))
                else:
                    rep.violation(rid, key, "list item blocks are not joined by blocks_to_markdown_and(.., self.is_sparce_list(), ..)", loc(gb, arm["body"]))


def _recv_of(e):
    while e is not None and e.get("k") == "unary":
        e = e["e"]
    if e is not None and e.get("k") == "mcall":
        return e["recv"]
    return None


def _lit_str(a):
    if a is not None and a.get("k") == "lit" and str(a.get("v", "")).startswith("s:"):
        return a["v"][2:]
    return None


def _lit_bool(a):
    if a is not None and a.get("k") == "lit" and str(a.get("v", "")).startswith("bool:"):
        return a["v"] == "bool:true"
    return None


def _block_value(e):
    while e is not None and e.get("k") == "block" and not e.get("stmts"):
        e = e.get("e")
    return e


def _sep_of(facts, g, argvals, depth=0):
    """Separator a block-joiner fn joins with, given what is known about its arguments (True / False / None per parameter):
    `join("\n")`, `join(if sparce { "\n" } else { "" })` with `sparce` a parameter, or a delegation to another joiner."""
    if g is None or g.body is None or depth > 3:
        return None
    pidx = {}
    for i, p in enumerate(g.params):
        for _n, lid in fb.pat_bindings(p["pat"]):
            pidx[lid] = i
    joins = [x for x in fb.walk(g.body) if x.get("k") == "mcall" and x["name"] == "join" and x["args"]]
    if len(joins) == 1:
        a = _block_value(joins[0]["args"][0])
        from .common import through_lets as _tl
        a = _block_value(_tl(ctx(g), a)) if a is not None else a        # `let separator = if sparce { "\n" } else { "" }; .. .join(separator)`
        if _lit_str(a) is not None:
            return _lit_str(a)
        if a is not None and a.get("k") == "if" and a["c"].get("k") == "path" and a["c"].get("res") == "local" and a["c"].get("id") in pidx:
            v = argvals[pidx[a["c"]["id"]]] if pidx[a["c"]["id"]] < len(argvals) else None
            t, e = _lit_str(_block_value(a.get("t"))), _lit_str(_block_value(a.get("e")))
            if v is True:
                return t
            if v is False:
                return e
        return None
    if not joins:
        dele = [x for x in fb.calls_in(g.body) if (fb.callee(x) or "").startswith("liwe::model::graph::blocks_to_markdown") and fb.callee(x) != g.def_]
        if len(dele) == 1:
            vals = []
            for a in dele[0].get("args", []):
                b = _lit_bool(a)
                if b is None and a.get("k") == "path" and a.get("res") == "local" and a.get("id") in pidx and pidx[a["id"]] < len(argvals):
                    b = argvals[pidx[a["id"]]]
                vals.append(b)
            return _sep_of(facts, facts.fns.get(fb.callee(dele[0])), vals, depth + 1)
    return None


def _join_literal(facts, callee_def, call=None):
    vals = [_lit_bool(a) for a in (call.get("args", []) if call is not None else [])]
    return _sep_of(facts, facts.fns.get(callee_def), vals)


# ------------------------------------------------------------------------------------------------------------ R7 lossy adapters inventory

PIPELINE_ROOTS = ("Graph::from_markdown", "Graph::to_markdown")
PIPELINE_SCOPE = ("liwe::markdown::", "liwe::graph::sections_builder::", "liwe::graph::builder::", "liwe::graph::basic_iter::", "liwe::model::projector::",
                  "liwe::model::graph::", "liwe::model::tree::Tree::from_pointer", "liwe::model::tree::Tree::iter", "liwe::model::tree::TreeIter",
                  "<liwe::model::tree::TreeIter", "liwe::model::document::", "liwe::graph::graph_line::", "liwe::model::node::NodeIter",
                  "<liwe::graph::basic_iter::", "<liwe::markdown::", "liwe::graph::Graph::to_markdown", "liwe::graph::Graph::from_markdown")


def rule_r7(facts, rep, rid="C01-R7"):
    rep.rule(rid, "inventory of lossy collection adapters (filter / skip / take / rev / dedup / find / flatten / sort ...) on the formatting path "
                  "(fns reachable from Graph::from_markdown and Graph::to_markdown inside the reader, builders, projector and printers): each "
                  "is audited; a new one is reported because it can drop, reorder or truncate note content")
    cg = facts.callgraph
    roots = [facts.fn(r).def_ for r in PIPELINE_ROOTS]
    reach = cg.reachable_from(roots)
    n = 0
    nf = 0
    for f in facts.body_fns():
        if f.crate != "liwe" or "::tests::" in f.def_ or "::test::" in f.def_:
            continue
        owner = f.parent if f.kind == "closure" and f.parent else f.def_
        if f.kind == "closure":
            continue
        if owner not in reach or not owner.startswith(PIPELINE_SCOPE):
            continue
        nf += 1
        rep.saw_fn(f)
        counts = {}
        for x in fb.walk(f.body):
            if x.get("k") != "mcall" or x["name"] not in LOSSY:
                continue
            cal = fb.callee(x) or ""
            # Option/Result combinators are value-level decisions on one value, not collection adapters
            if cal.startswith(("std::option::Option::", "core::option::Option::", "std::result::Result::", "core::result::Result::")):
                continue
            if not cal.startswith(("std::iter::", "core::iter::", "itertools::", "rayon::iter::", "std::vec::Vec::", "alloc::vec::Vec::", "core::slice::", "std::slice::",
                                   "std::collections::VecDeque::", "alloc::collections::")):
                continue        # maps/sets/strings/local methods: not a content sequence
            # only sequences that carry note content: an adapter over plain numbers (line-start offsets, indices, counts) cannot drop a block or a word
            rty_ = str(x.get("rty") or "")
            if rty_ and "liwe::" not in rty_ and "pulldown" not in rty_ and any(t_ in rty_ for t_ in ("usize", "u32", "u64", "i64", "u8")):
                continue
            # `.map(f).flatten()`, `.filter_map(f)` and `.flat_map(f)` are one family: an audit of one form covers the others
            fam = "flatten" if x["name"] in ("filter_map", "flat_map") else x["name"]
            i = counts.get(fam, 0)
            counts[fam] = i + 1
            n += 1
            key = "%s|%s|%d" % (f.def_, fam, i)
            why = None
            if cal.startswith(("core::slice::", "std::slice::")) and x["name"] in ("last", "first", "last_mut", "first_mut"):
                # slice accessors borrow one element and leave the sequence as it is (unlike Iterator::last, which consumes): not an adapter
                rep.ok(rid, key, "element accessor `slice::%s()`: borrows one element, the sequence itself is untouched" % x["name"], loc(f, x), nontrivial=False)
                continue
            for (fs, nm, ordn), reason in LOSSY_OK.items():
                if f.def_.endswith(fs) and nm == fam and ordn == i:
                    why = reason
            if why:
                rep.ok(rid, key, "audited: " + why, loc(f, x), nontrivial=True)
            else:
                rep.violation(rid, key, "new lossy adapter `.%s(..)` (%s) on the formatting path in %s: it can drop, reorder or truncate blocks/inlines of a note; "
                              "audit it (tables in rules/c01.py) if it is a pure query" % (x["name"], fb.last2(cal), f.def_), loc(f, x))
    rep.floor(rid, "pipeline fns scanned", nf, 60)
    rep.floor(rid, "lossy adapters audited", n, 8)


# ------------------------------------------------------------------------------------------------------------ R8 trimming in the printers

PRINTERS = ("GraphBlock::to_markdown", "GraphInline::to_markdown", "model::graph::inlines_to_markdown", "model::graph::blocks_to_markdown", "model::graph::blocks_to_markdown_and",
            "model::graph::blocks_to_markdown_sparce", "model::graph::left_pad_and_prefix", "model::graph::left_pad_and_prefix_num", "NodeIter::to_markdown", "Graph::to_markdown")
TRIMMERS = {"trim", "trim_start", "trim_end", "trim_matches", "trim_start_matches", "trim_end_matches", "trim_left", "trim_right", "strip_prefix", "strip_suffix",
            "split_whitespace", "truncate", "replace", "replacen", "trim_ascii", "trim_ascii_start", "trim_ascii_end"}

# audited: (printer fn suffix, method, ordinal) -> (required operand class prefix, reason)
TRIM_OK = {
    ("GraphBlock::to_markdown", "trim", 0): ("query:", "`lang.trim().is_empty()`: decides whether a language tag is printed, the value itself is not trimmed"),
    ("GraphBlock::to_markdown", "trim_matches", 0): ("payload:newline-pattern", "code block body: blank lines at its edges are presentation (the fence supplies them); the pattern is a single '\\n'"),
    ("GraphBlock::to_markdown", "trim_matches", 1): ("payload:newline-pattern", "code block body: blank lines at its edges are presentation (the fence supplies them); the pattern is a single '\\n'"),
    ("GraphInline::to_markdown", "strip_suffix", 0): ("payload:GraphInline::Link.0", "reference url: the configured extension is taken off only to be appended again by the same format! "
                                                      "(re-checked: the pattern is `options.refs_extension` and the branch's format! writes `options.refs_extension` back)"),
    ("GraphBlock::to_markdown", "trim", 1): ("formatted-with-visible-prefix", "quote lines are trimmed AFTER the `> ` marker is prepended: only trailing whitespace (and the space of an empty `> ` line) goes"),
}


def _printable(v):
    return "".join(ch for ch in v if ch.isprintable() and ch != "\u00b7")


def _operand_class(c, call):
    """Rename-robust class of the value a trimming call is applied to."""
    # consumer: if the trimmed value only feeds a predicate, it is a query
    ups = _chain(c, call)
    if ups and ups[0]["name"] in ("is_empty", "len", "eq", "starts_with", "ends_with", "contains", "eq_ignore_ascii_case"):
        return "query:" + ups[0]["name"]
    r = call["recv"]
    while r is not None and r.get("k") in ("addrof", "unary"):
        r = r["e"]
    pat = ""
    if call["args"]:
        a = call["args"][0]
        if a.get("k") == "lit":
            pat = str(a.get("v", ""))
    def _format_class(e):
        lits = [y for y in fb.walk(e) if y.get("k") == "lit" and str(y.get("v", "")).startswith(("bs:", "s:"))]
        fm = any("format" in (y.get("m") or "") for y in fb.walk(e))
        if fm and lits:
            vis = _printable(str(lits[0]["v"]).split(":", 1)[1])
            if vis and not vis[0].isspace():
                return "formatted-with-visible-prefix:" + vis.strip()
            return "formatted-with-blank-prefix"
        return None
    # the trimmed value is itself a `format!(..)` (the two map steps fused into one)
    if r is not None and r.get("k") in ("call", "block") and any("format" in (y.get("m") or "") for y in fb.walk(r)):
        fc = _format_class(r)
        if fc:
            return fc
    if r is not None and r.get("k") == "path" and r.get("res") == "local":
        b = c.binds.get(r["id"])
        if b and b[0] == "expr":
            src = b[1]
            # closure parameter fed by an upstream `.map(|x| format!(..))` ?
            if src.get("k") == "mcall" and src["name"] == "map":
                for a in src["args"]:
                    if a.get("k") == "closure":
                        fc = _format_class(a["body"])
                        if fc:
                            return fc
            if src.get("k") == "mcall" and src["name"] in ("lines", "split", "split_terminator", "chars", "iter"):
                return "content-line"
            if src.get("k") == "mcall" and src["name"] in ("map", "filter", "enumerate"):
                inner = src
                while inner.get("k") == "mcall":
                    if inner["name"] in ("lines", "split"):
                        return "content-line"
                    inner = inner["recv"]
        if b and b[0] == "param":
            return "payload:param"
        # match-arm payload binding
        if c.pos.get(r["id"]):
            if pat in ("c:\n",):
                return "payload:newline-pattern"
            return "payload:" + c.pos[r["id"]]
    return "other:" + fb.show(r)[:30]


def _suffix_reappended(c, f, call):
    """The pattern of the strip is the field `refs_extension`, and the innermost enclosing block's value (the format!) mentions `refs_extension` outside the strip call."""
    if not call["args"] or ("field", "refs_extension") not in c.mentions(call["args"][0]):
        return False
    inside = set(id(y) for y in fb.walk(call))
    for p in c.parents(call):
        if p.get("k") == "block" and p.get("e") is not None:
            return any(y.get("k") == "field" and y.get("name") == "refs_extension" and id(y) not in inside for y in fb.walk(p["e"]))
    return False


def rule_r8(facts, rep, rid="C01-R8"):
    rep.rule(rid, "whitespace trimming / stripping / replacing inside the text printers is confined to audited sites, each with its audited operand class: a trim applied to a content "
                  "line before the block marker is prepended (instead of to the marked line) strips the indentation that keeps nested code, sub-lists and continuation paragraphs inside "
                  "their block")
    n = 0
    for nm in PRINTERS:
        f = facts.fn(nm)
        rep.saw_fn(f)
        c = ctx(f)
        counts = {}
        for x in fb.walk(f.body):
            if x.get("k") != "mcall" or x["name"] not in TRIMMERS:
                continue
            cal = fb.callee(x) or ""
            if not cal.startswith(("core::str::", "std::str::", "alloc::str::", "alloc::string::", "std::string::")):
                continue
            i = counts.get(x["name"], 0)
            counts[x["name"]] = i + 1
            n += 1
            key = "%s|%s|%d" % (f.def_, x["name"], i)
            cls = _operand_class(c, x)
            ent = None
            for (fs, m_, o_), v in TRIM_OK.items():
                if f.def_.endswith(fs) and m_ == x["name"] and o_ == i:
                    ent = v
            if ent is None:
                rep.violation(rid, key, "new `.%s(..)` on a %s value in printer %s: trimming/replacing inside the printers changes note content (indentation inside quotes and "
                              "items, code bodies, words) unless it is one of the audited sites" % (x["name"], cls, nm), loc(f, x))
            elif not cls.startswith(ent[0]):
                rep.violation(rid, key, "`.%s(..)` in %s is now applied to a `%s` value; the audited site applies it to `%s` (%s): trimming the content line itself strips the leading "
                              "indentation that keeps nested blocks inside their quote / item" % (x["name"], nm, cls, ent[0], ent[1]), loc(f, x))
            elif x["name"] == "strip_suffix" and not _suffix_reappended(c, f, x):
                rep.violation(rid, key, "`.strip_suffix(..)` in %s: the stripped suffix is not the configured reference extension written back by the same branch - the tail of every "
                              "reference url that matches it is lost (the link is retargeted)" % nm, loc(f, x))
            else:
                rep.ok(rid, key, "audited (%s): %s" % (cls, ent[1]), loc(f, x))
    rep.floor(rid, "trimming sites in the printers", n, 4)


# ------------------------------------------------------------------------------------------------------------ R10 builder cursor typestate

def rule_r10(facts, rep, rid="C01-R10"):
    rep.rule(rid, "builder cursor typestate in SectionsBuilder::block: an arm that switches the builder to insert-as-child (set_insert(true)) before walking a container's items restores the "
                  "cursor (set_id(saved)) AND the flag (set_insert(false)) after the loop - the loop may add nothing (all items empty), and a flag left set makes the next block a child of "
                  "the container (a paragraph after `1.` is printed as a list item)")
    f = facts.fn("SectionsBuilder::block")
    rep.saw_fn(f)
    ms = A.matches_on(f, "DocumentBlock")
    if not ms:
        rep.anchor_missing(rid, "match on DocumentBlock in SectionsBuilder::block")
        return
    n = 0
    for vs, arm in A.arms_of(ms[0]):
        body = arm["body"]
        sets = [x for x in fb.walk(body, into_closures=False) if x.get("k") == "mcall" and x["name"] == "set_insert" and (fb.callee(x) or "").endswith("GraphBuilder::set_insert")]
        on = [x for x in sets if fb.show(x["args"][0]) == "true"]
        if not on:
            continue
        n += 1
        vname = "+".join(fb.last_seg(v) for v in vs)
        key = "%s|arm:%s|insert-flag-restored" % (f.def_, vname)
        loops = [x for x in fb.walk(body) if x.get("k") == "loop"]
        end = max([(x.get("s") or [0, 0])[1] for x in loops] or [0])
        off_after = [x for x in sets if fb.show(x["args"][0]) == "false" and (x.get("s") or [0])[0] > end]
        setid_after = [x for x in fb.walk(body, into_closures=False) if x.get("k") == "mcall" and x["name"] == "set_id" and (x.get("s") or [0])[0] > end]
        # a fresh sub-builder for the children (quote) does not touch the outer flag at all
        if loops and off_after and setid_after:
            rep.ok(rid, key, "after the item loop: set_id(saved); set_insert(false)", loc(f, off_after[0]))
        elif not loops:
            rep.violation(rid, key, "the %s arm sets insert-as-child without walking any items" % vname, loc(f, on[0]))
        else:
            rep.violation(rid, key, "after walking the items of a %s the builder's insert-as-child flag is not reset (set_insert(false) %s, set_id %s): when every item is empty nothing was "
                          "inserted, the flag is still set, and the block that follows the list becomes its child - a paragraph turns into a list item" % (
                              vname, "present" if off_after else "missing", "present" if setid_after else "missing"), loc(f, on[0]))
    rep.floor(rid, "container arms that switch the insert flag", n, 2)


# ------------------------------------------------------------------------------------------------------------ R11 first block of an item

def rule_r11(facts, rep, rid="C01-R11"):
    rep.rule(rid, "sibling agreement between the two places that turn a list into graph nodes: SectionsBuilder::block (a list anywhere in a section) opens a list node, walks the items as its "
                  "children and restores the cursor; SectionsBuilder::section_block (a list as the FIRST block of a list item, `- - a`) has to do the same - walking the items in place "
                  "flattens the nested list into its parent and leaves the cursor inside the last nested item, so what follows overwrites that item's children")
    blk = facts.fn("SectionsBuilder::block")
    sec = facts.fn("SectionsBuilder::section_block")
    rep.saw_fn(blk)
    rep.saw_fn(sec)
    mb = A.matches_on(blk, "DocumentBlock")
    msec = A.matches_on(sec, "DocumentBlock")
    if not mb or not msec:
        rep.anchor_missing(rid, "match on DocumentBlock in SectionsBuilder::block / section_block")
        return

    def effects(arm):
        names = set(x["name"] for x in fb.walk(arm["body"]) if x.get("k") == "mcall")
        return {"opens-list": bool(names & {"bullet_list", "ordered_list"}), "restores-cursor": "set_id" in names, "walks-items": "process_section" in names}
    ref = {}
    for vs, arm in A.arms_of(mb[0]):
        for v in vs:
            if fb.last_seg(v) in ("BulletList", "OrderedList"):
                ref[fb.last_seg(v)] = effects(arm)
    for vs, arm in A.arms_of(msec[0]):
        for v in vs:
            vs_ = fb.last_seg(v)
            if vs_ not in ("BulletList", "OrderedList"):
                continue
            key = "%s|arm:%s|agrees-with-block" % (sec.def_, vs_)
            got = effects(arm)
            want = ref.get(vs_)
            if want is None:
                rep.anchor_missing(rid, "arm for %s in SectionsBuilder::block" % vs_)
            elif got == want or not got["walks-items"]:
                rep.ok(rid, key, "same treatment as SectionsBuilder::block (%s)" % got, loc(sec, arm["body"]))
            else:
                rep.violation(rid, key, "a %s that is the first block of a list item is walked in place (%s) while SectionsBuilder::block gives a list its own node and restores the cursor (%s): "
                              "`- - a\\n    - b\\n\\n  para` is written back as `- a\\n\\n  para` - the nested list is flattened into its parent and the item `b` is lost (its nodes stay in the "
                              "arena, unreachable)" % (vs_, got, want), loc(sec, arm["body"]))


# ------------------------------------------------------------------------------------------------------------ R12 loose-list decision

def rule_r12(facts, rep, rid="C01-R12"):
    rep.rule(rid, "a list is written loose (blank line between an item's blocks) iff SOME item has more than one paragraph ANYWHERE in it: GraphBlock::is_sparce_list counts the "
                  "paragraphs of every item over the whole item (`item.iter().filter(is_paragraph).count() > 1` or an equivalent count); a positional test (second block, leading "
                  "run, first / last) misses `[text, nested list, paragraph]`, which is then written tight and re-read with the paragraph glued to the nested item")
    f = facts.fn("GraphBlock::is_sparce_list")
    rep.saw_fn(f)
    n = 0
    for vs, arm in A.arms_of(A.matches_on(f, "GraphBlock")[0]) if A.matches_on(f, "GraphBlock") else []:
        lists = [fb.last_seg(v) for v in vs if fb.last_seg(v) in ("BulletList", "OrderedList")]
        if not lists:
            continue
        body = arm["body"]
        calls = [x for x in fb.walk(body) if x.get("k") == "mcall"]
        names = [x["name"] for x in calls]
        para = any((fb.callee(x) or "").endswith("GraphBlock::is_paragraph") for x in fb.walk(body) if x.get("k") in ("mcall", "call")) or \
            any(y.get("k") == "path" and fb.norm(y.get("def") or "").endswith("GraphBlock::is_paragraph") for y in fb.walk(body))
        counts_all = "filter" in names and ("count" in names or "nth" in names or "take" in names) and "any" in names
        positional = [m for m in names if m in ("get", "first", "last", "take_while", "skip_while", "skip", "windows", "nth_back", "split_first", "split_last", "position", "find")
                      and not (m == "nth" and "filter" in names)]
        idx = [x for x in fb.walk(body) if x.get("k") == "index"]
        for v in lists:
            n += 1
            key = "%s|arm:%s|counts-paragraphs-of-the-whole-item" % (f.def_, v)
            if para and counts_all and not positional and not idx:
                rep.ok(rid, key, "any(item -> filter(is_paragraph).count() > 1)", loc(f, body))
            else:
                rep.violation(rid, key, "the loose-list decision for %s is not a count of the paragraphs over each whole item (paragraph test: %s, filter+count under any(): %s, positional "
                              "access: %s): an item shaped `[text, nested list or quote, paragraph]` is written without the blank line and the paragraph is merged into the nested block on "
                              "the next read" % (v, para, counts_all, positional or ("indexing" if idx else "-")), loc(f, body))
    rep.floor(rid, "list arms of is_sparce_list", n, 2)


def run(facts, rep, tier):
    rule_r1(facts, rep)
    rule_r1b(facts, rep)
    rule_r2(facts, rep)
    rule_r2b(facts, rep)
    rule_r3(facts, rep)
    rule_r4(facts, rep)
    rule_r5(facts, rep)
    rule_r6(facts, rep)
    rule_r7(facts, rep)
    rule_r8(facts, rep)
    rule_r10(facts, rep)
    rep.rule("C01-R4b", "= C06-R5: the two link printers switch to the autolink form `<url>` only for external links whose text equals the url; a reference written as <key> is no longer a link "
                        "(its destination is lost).")
    from . import c06
    c06.rule_r5(facts, rep, "C01-R4b")
    rep.rule("C01-R9", "= C07-R4: continuation lines of a list item are indented by the width of the marker actually printed; a fixed indent lets the later lines of items with wider markers "
                       "(100., 1000.) fall out of the item, i.e. they are merged into a neighbour or turn into another kind of block.")
    from . import c07
    c07.rule_r4(facts, rep, "C01-R9")
    # front matter must not be invented either: the per-key metadata cache needs its remove edge (= C04-R3)
    rep.rule("C01-R6b", "= C04-R3 for the front-matter cache: the single-key update removes Graph.metadata[key] when the new text has no front matter (otherwise formatting re-adds a block the author deleted).")
    from . import c04
    sub = _Only(rep, "cache:metadata")
    c04.rule_r3(facts, sub, "C01-R6b")
    rep.rule("C01-R4c", "= C05-R3: both printers decide reference-vs-external through model::is_ref_url, a negated disjunction of case-folded scheme prefixes (a url that is "
             "taken for a note reference gets the extension / title / path treatment of one).")
    from . import c05
    c05.rule_r3(facts, rep, "C01-R4c")
    rep.rule("C01-R4d", "= C06-R7b: link destinations survive formatting whatever their scheme (is_ref_url does not take `ftp://..` / `tel:..` for a note and append the extension).")
    c05.rule_scheme_list(facts, rep, "C01-R4d")
    rep.rule("C01-R4d", "= C05-R7: only a one-inline paragraph is a block reference (otherwise the other inlines of the paragraph are dropped when the note is formatted).")
    c05.rule_r7(facts, rep, "C01-R4d")
    rule_r11(facts, rep)
    rule_r12(facts, rep)
    rep.rule("C01-R13", "= C04-R5b: text is stored in lines that have exactly one owner (Arena::add_line stores and returns a freshly drawn id on every exit); formatting a note after another "
                        "note was edited would otherwise print lines that the edit blanked.")
    from . import arena
    arena.rule_fresh_ids(facts, rep, "C01-R13")
    rep.rule("C01-R14", "The Markdown dialect is the one the reader has arms for: exactly the audited pulldown-cmark extensions (metadata blocks, wiki links, tables) are enabled; any other "
                        "extension makes the parser consume characters the document model cannot hold (they are lost on formatting), a missing one turns that syntax into escaped text.")
    from . import reader_opts
    reader_opts.rule_reader_options(facts, rep, "C01-R14")
    rep.rule("C01-R15", "Destinations survive the table-cell writer: Tag::Image / Tag::Link get dest_url from position 0 and title from position 1 of the matched inline.")
    from . import writer_payload
    writer_payload.rule_writer_payload(facts, rep, "C01-R15")

class _Only:
    """Forwards only the instances whose key contains a marker."""

    def __init__(self, rep, marker):
        self.rep = rep
        self.marker = marker
        self.stats = rep.stats

    def ok(self, rule, key, detail="", loc=None, nontrivial=True):
        if self.marker in key:
            self.rep.ok(rule, key, detail, loc, nontrivial)

    def violation(self, rule, key, detail, loc=None):
        if self.marker in key:
            self.rep.violation(rule, key, detail, loc)

    def undecided(self, rule, key, detail, loc=None):
        if self.marker in key:
            self.rep.undecided(rule, key, detail, loc)

    def floor(self, *a, **k):
        pass

    def anchor_missing(self, rule, what):
        self.rep.anchor_missing(rule, what)

    def saw_fn(self, fn):
        self.rep.saw_fn(fn)

    def rule(self, rid, text):
        pass
