"""C06 - formatting refreshes link titles and never retargets or rewrites a link."""
from vlib import factbase as fb
from vlib import q
from .common import pname, ctx, loc, match_arms_on, strip_refs, known_call, facts_at
from . import c05

TITLE_LOOKUPS = ("InlinesContext::get_ref_title", "GraphContext::get_ref_text", "Graph::get_key_title")


def _class_of_arm(c, body):
    """Classify what a link-kind arm evaluates to: title / empty / original."""
    ment = c.mentions(body)
    has_title = any(q.has_call(ment, t) for t in TITLE_LOOKUPS)
    e = body
    while e is not None and e.get("k") == "block" and not e.get("stmts"):
        e = e.get("e")
    empty = False
    if e is not None:
        s = fb.show(e)
        # vec![] / Vec::new() / String::default() / String::new() / "" literal
        if e.get("k") in ("call", "mcall") and not e.get("args") and (fb.callee(e) or "").endswith(("Vec::new", "String::default", "String::new", "Default::default")):
            empty = True
        if e.get("k") == "lit" and e.get("v") == "s:":
            empty = True
        if e.get("m") and e.get("m").startswith("vec") and not any(x.get("k") == "path" and x.get("res") == "local" for x in fb.walk(e)) and not any(x.get("k") == "lit" for x in fb.walk(e)):
            # vec![] with no elements mentions no local and no literal
            if not [x for x in fb.walk(e) if x.get("k") in ("mcall",)]:
                empty = True
    if has_title:
        if q.has_call(ment, "Option::unwrap_or") or q.has_call(ment, "Option::unwrap_or_else") or q.has_call(ment, "Option::unwrap_or_default"):
            return "title-with-fallback"
        # the same fallback written as the None arm of a match / the else of an if-let on the lookup
        for y in fb.walk(body):
            if y.get("k") in ("call", "mcall") and any((fb.callee(y) or "").endswith(t) or (fb.rcallee(y) or "").endswith(t) for t in TITLE_LOOKUPS):
                r = _absence_handled(c, y, body)
                if r and r[0] in ("match", "if-let", "combinator"):
                    return "title-with-fallback"
        return "title-no-fallback"
    if empty:
        return "empty"
    return "original"


_ABSENT_COMBINATORS = ("unwrap_or", "unwrap_or_else", "unwrap_or_default", "or", "or_else", "map_or", "map_or_else")


def _absence_handled(c, lookup, scope=None, depth=0):
    """Is the None edge of the Option produced by `lookup` given a value of its own - by a combinator (`unwrap_or(..)`, `map_or(d, ..)`), by the `None` / `_` arm of a `match` on it, or by
    the `else` of an `if let Some(..) = <lookup>`?  -> ("combinator" | "match" | "if-let", node) or None; a filter met on the way is returned as ("filter", node)."""
    from .common import value_chain
    for m_ in value_chain(c, lookup):
        if m_["name"] in ("filter", "and_then", "take_if", "filter_map", "zip", "xor"):
            return ("filter", m_)
        if m_["name"] in _ABSENT_COMBINATORS:
            return ("combinator", m_)
    for p in c.parents(lookup):
        if p.get("k") == "match" and p.get("src", "Normal") == "Normal" and any(y is lookup for y in fb.walk(p["e"])):
            for arm in p.get("arms", []):
                vs = [fb.last_seg(v or "_") for v in fb.pat_variants(arm["pat"])]
                if "None" in vs or vs == ["_"]:
                    return ("match", arm["body"])
            return None
        if p.get("k") == "if" and p["c"].get("k") == "letx" and any(y is lookup for y in fb.walk(p["c"].get("init") or {})):
            return ("if-let", p["e"]) if p.get("e") is not None else None
        if p.get("k") == "let" and p.get("init") is not None and any(y is lookup for y in fb.walk(p["init"])):
            if p.get("els") is not None:
                return ("if-let", p["els"])
            if depth < 2:
                for _n, lid in fb.pat_bindings(p["pat"]):
                    for use in fb.local_uses(c.fn.body, lid):
                        r = _absence_handled(c, use, None, depth + 1)
                        if r:
                            return r
            return None
        if scope is not None and p is scope:
            break
        if p.get("k") == "closure":
            break
    return None


def _kind_arms(facts, f, enum_suffix):
    """{variant last segment: body} for the (single) match on the link-kind enum in f."""
    ms = match_arms_on(f, enum_suffix)
    out = []
    for m in ms:
        d = {}
        for arm in m["arms"]:
            for v in fb.pat_variants(arm["pat"]):
                d[fb.last_seg(v)] = arm
        out.append((m, d))
    return out


def rule_r1(facts, rep, rid="C06-R1"):
    sites = [
        ("GraphInline::normalize", "LinkType", {"Regular": ("title-with-fallback",), "WikiLink": ("empty",), "WikiLinkPiped": ("original",)}),
        ("GraphNodePointer as liwe::model::node::NodeIter>::node", "ReferenceType", {"Regular": ("title-with-fallback",), "WikiLink": ("empty",), "WikiLinkPiped": ("original",)}),
        ("Projector::project_node", "ReferenceType", {"Regular": ("original",), "WikiLink": ("empty",), "WikiLinkPiped": ("original",)}),
    ]
    for name, enum, expect in sites:
        f = facts.fn(name)
        rep.saw_fn(f)
        c = ctx(f)
        ms = _kind_arms(facts, f, enum)
        if not ms:
            rep.anchor_missing(rid, "match on %s in %s" % (enum, name))
            continue
        m, arms = ms[0]
        for kind, allowed in expect.items():
            key = "%s|kind:%s" % (f.def_, kind)
            arm = arms.get(kind) or arms.get("_")
            if arm is None:
                rep.violation(rid, key + "|missing", "no arm for %s::%s" % (enum, kind), loc(f, m))
                continue
            cls = _class_of_arm(c, arm["body"])
            if cls in allowed:
                rep.ok(rid, key, "text class = %s" % cls, "%s:%s" % (f.file, arm.get("ln")))
            else:
                rep.violation(rid, key, "link kind %s gets text class `%s`, expected %s (Regular: refreshed from the target's title with "
                              "fallback to the original text; WikiLink: no text; WikiLinkPiped: the author's text, never the title)" % (kind, cls, "/".join(allowed)),
                              "%s:%s" % (f.file, arm.get("ln")))
    # the two enum bijections
    for name, frm, to in (("LinkType::to_ref_type", "LinkType", "ReferenceType"), ("ReferenceType::to_link_type", "ReferenceType", "LinkType")):
        f = facts.fn(name)
        rep.saw_fn(f)
        ms = _kind_arms(facts, f, frm)
        if not ms:
            rep.anchor_missing(rid, "match in " + name)
            continue
        _, arms = ms[0]
        bad = []
        for kind, arm in arms.items():
            tgt = None
            for x in fb.walk(arm["body"]):
                if x.get("k") == "path" and x.get("res") == "def" and to in (x.get("def") or ""):
                    tgt = fb.last_seg(fb.norm(x["def"]))
            if tgt != kind:
                bad.append("%s -> %s" % (kind, tgt))
        if bad or len(arms) < 3:
            rep.violation(rid, f.def_ + "|identity-on-kinds", "kind mapping is not the identity: %s" % bad, f.loc)
        else:
            rep.ok(rid, f.def_ + "|identity-on-kinds", "Regular/WikiLink/WikiLinkPiped map to themselves", f.loc)


def rule_r2(facts, rep, rid="C06-R2"):
    # normalize: rebuilt link copies url / title / kind positionally; non-refs and other inlines are cloned
    f = facts.fn("GraphInline::normalize")
    rep.saw_fn(f)
    c = ctx(f)
    ctor = [x for x in fb.calls_in(f.body) if x.get("ctor") and (fb.callee(x) or "").endswith("GraphInline::Link")]
    if not ctor:
        rep.anchor_missing(rid, "GraphInline::Link constructor in normalize")
    for n, call in enumerate(ctor):
        want = {0: "GraphInline::Link.0", 1: "GraphInline::Link.1", 2: "GraphInline::Link.2"}
        bad = []
        for i, pos in want.items():
            pv = c.vprov(call["args"][i])
            pps = [a[1] for a in pv if a[0] == "patpos"]
            other_calls = [a[1] for a in pv if a[0] == "call" and a[1] and not a[1].endswith(("::clone", "::to_string", "::to_owned", "::deref"))]
            if pps != [pos] or other_calls:
                bad.append("arg %d comes from %s %s" % (i, pps, [fb.last2(x) for x in other_calls]))
        key = "%s|rebuilt-link-copies-destination|%d" % (f.def_, n)
        if bad:
            rep.violation(rid, key, "normalize rebuilds a link whose url/title/kind are not plain copies of the matched link: %s" % "; ".join(bad), loc(f, call))
        else:
            rep.ok(rid, key, "url, title and kind are positional copies", loc(f, call))
    # Image / everything else falls to `self.clone()`
    ms = match_arms_on(f, "GraphInline")
    if ms:
        m = ms[0]
        for arm in m["arms"]:
            vs = [fb.last_seg(v) for v in fb.pat_variants(arm["pat"])]
            if "_" in vs or "Image" in vs:
                s = fb.show(arm["body"])
                if "Image" in vs or "_" in vs:
                    if s.strip("{} ") == "self.clone()":
                        rep.ok(rid, "%s|arm:%s|identity" % (f.def_, "/".join(vs)), "returns self.clone()", "%s:%s" % (f.file, arm.get("ln")))
                    else:
                        rep.violation(rid, "%s|arm:%s|identity" % (f.def_, "/".join(vs)), "images / other inlines are rewritten by normalize: %s" % s[:100], "%s:%s" % (f.file, arm.get("ln")))
    # non-reference links: the !is_ref() edge returns self.clone()
    # the Link constructor is evaluated only where is_ref() is known to be true (then-branch, else of the negation, after an early return ...)
    unguarded = [y for y in ctor if known_call(c, y, "GraphInline::is_ref") is not True]
    if ctor and not unguarded:
        rep.ok(rid, f.def_ + "|rewrite-only-under-is_ref", "rebuilt only where is_ref() holds", f.loc)
    elif ctor:
        rep.violation(rid, f.def_ + "|rewrite-only-under-is_ref", "the link is rebuilt where is_ref() is not known to hold: external urls would get note titles", loc(f, unguarded[0]))
    else:
        rep.violation(rid, f.def_ + "|rewrite-only-under-is_ref", "no is_ref() guard in normalize", f.loc)

    # GraphNodePointer::node Reference arm: key and kind are copied from the stored reference
    g = facts.fn("GraphNodePointer as liwe::model::node::NodeIter>::node")
    rep.saw_fn(g)
    cg_ = ctx(g)
    for x in fb.walk(g.body):
        if x.get("k") == "struct" and fb.norm(x.get("def", "")).endswith("model::node::Reference"):
            fl = {fld["name"]: fld["e"] for fld in x["fields"]}
            pk = cg_.vprov(fl.get("key"))
            pt = cg_.vprov(fl.get("reference_type"))
            okk = q.has_call(pk, "Reference::key") and not any(a[0] == "call" and a[1] and ("from_" in a[1] or "to_rel" in a[1]) for a in pk)
            okt = q.has_call(pt, "Reference::reference_type")
            if okk and okt:
                rep.ok(rid, g.def_ + "|reference-key-and-kind-copied", "", loc(g, x))
            else:
                rep.violation(rid, g.def_ + "|reference-key-and-kind-copied", "Node::Reference is built with key from %s / kind from %s instead of the stored reference's key()/reference_type()" % (q.calls_named(pk), q.calls_named(pt)), loc(g, x))
    # GraphInline::to_markdown: url printed is the matched url; refs_extension only under is_ref()
    t = facts.fn("GraphInline::to_markdown")
    rep.saw_fn(t)
    ct = ctx(t)
    ext_sites = [x for x in fb.walk(t.body) if x.get("k") == "field" and x.get("name") == "refs_extension"]
    bad = 0
    for x in ext_sites:
        guarded = False
        child = x
        for p in ct.parents(x):
            if p.get("k") == "if" and child is p.get("t"):
                if any((fb.callee(y) or "").endswith("GraphInline::is_ref") for y in fb.calls_in(p["c"])) and not any(z.get("k") == "unary" and z.get("op") == "!" for z in fb.walk(p["c"])):
                    guarded = True
            child = p
        if not guarded and known_call(ct, x, "GraphInline::is_ref") is True:
            guarded = True       # `let is_ref = self.is_ref(); .. else if is_ref { .. }`, an early exit on `!is_ref`, ...
        if not guarded:
            bad += 1
    if ext_sites and not bad:
        rep.ok(rid, t.def_ + "|extension-only-for-references", "%d use(s) of refs_extension, all under `if self.is_ref()`" % len(ext_sites), t.loc)
    else:
        rep.violation(rid, t.def_ + "|extension-only-for-references", "refs_extension is appended outside an is_ref() branch (%d of %d uses) or not used at all" % (bad, len(ext_sites)), t.loc)
    # the extension is appended idempotently: a url that already carries it is stripped first (`[t](2.md)` must not become `2.md.md`)
    branches = []
    for x in fb.walk(t.body):
        if x.get("k") == "if" and any((fb.callee(y) or "").endswith("GraphInline::is_ref") for y in fb.calls_in(x["c"])) and \
                any(y.get("k") == "field" and y.get("name") == "refs_extension" for y in fb.walk(x["t"])):
            branches.append(x["t"])
    for n, br in enumerate(branches):
        strips = [y for y in fb.walk(br) if y.get("k") == "mcall" and y["name"] in ("strip_suffix", "trim_end_matches") and y["args"] and ("field", "refs_extension") in ct.mentions(y["args"][0])]
        key = "%s|extension-appended-idempotently|%d" % (t.def_, n)
        if strips:
            rep.ok(rid, key, "the url is stripped of the configured extension before it is appended", loc(t, strips[0]))
        else:
            rep.violation(rid, key, "the reference branch appends refs_extension to the url as written: with refs_extension = \".md\" a link `[t](2.md)` (which refers to note 2) is written back "
                          "as `[t](2.md.md)` and refers to another note on the next read", loc(t, br))
    # Projector: url relative to self.parent; parent is threaded unchanged
    p = facts.fn("Projector::project_node")
    rep.saw_fn(p)
    cp = ctx(p)
    link = [x for x in fb.calls_in(p.body) if x.get("ctor") and (fb.callee(x) or "").endswith("GraphInline::Link")]
    for n, call in enumerate(link):
        pv = cp.vprov(call["args"][0])
        mm = cp.mentions(call["args"][0])
        if q.has_call(pv, "Key::to_rel_link_url") and q.has_call(pv, "NodeIter::ref_key2") and ("field", "parent") in mm:
            rep.ok(rid, "%s|reference-url-relative-to-parent|%d" % (p.def_, n), "ref_key2().to_rel_link_url(&self.parent)", loc(p, call))
        else:
            rep.violation(rid, "%s|reference-url-relative-to-parent|%d" % (p.def_, n), "block reference url is not `ref_key2().to_rel_link_url(&self.parent)`: %s" % fb.show(call["args"][0])[:120], loc(p, call))
    w = facts.fn("Projector::with")
    pr = facts.fn("Projector::project")
    for fn_, src in ((w, ("field", "parent")), (pr, ("param", pname(pr, 1)))):
        cc = ctx(fn_)
        okp = False
        for x in fb.walk(fn_.body):
            if x.get("k") == "struct" and fb.norm(x.get("def", "")).endswith("Projector"):
                for fld in x["fields"]:
                    if fld["name"] == "parent" and src in cc.vprov(fld["e"]):
                        okp = True
        if okp:
            rep.ok(rid, fn_.def_ + "|parent-threaded", "Projector.parent <- %s %s" % src, fn_.loc)
        else:
            rep.violation(rid, fn_.def_ + "|parent-threaded", "Projector.parent is not carried over from %s %s" % src, fn_.loc)


def rule_r3(facts, rep, rid="C06-R3"):
    f = facts.fn("Graph::extract_ref_text")
    rep.saw_fn(f)
    c = ctx(f)
    ment = c.mentions(f.body)
    need = ["Graph::get_document_id", "GraphNode::child_id", "GraphNode::is_section", "GraphNode::line_id", "Line::to_plain_text"]
    missing = [n for n in need if not q.has_call(ment, n)]
    forbidden = [n for n in ("GraphNode::next_id",) if q.has_call(ment, n)]
    if missing or forbidden:
        rep.violation(rid, f.def_ + "|title-is-first-block-heading", "title derivation changed: missing %s, unexpected %s (title = plain text of the note's first block iff it is a section)" % (missing, forbidden), f.loc)
    else:
        rep.ok(rid, f.def_ + "|title-is-first-block-heading", "document root -> child_id -> is_section -> line_id -> to_plain_text", f.loc)
    # title cache is written under the note's own key
    fm = facts.fn("Graph::from_markdown")
    cm = ctx(fm)
    for x in fb.walk(fm.body):
        if x.get("k") == "mcall" and x["name"] == "insert" and x["recv"].get("k") == "field" and x["recv"]["name"] == "keys_to_ref_text":
            pv = cm.vprov(x["args"][0])
            if ("param", pname(fm, 1)) in pv:
                rep.ok(rid, fm.def_ + "|title-cached-under-own-key", "", loc(fm, x))
            else:
                rep.violation(rid, fm.def_ + "|title-cached-under-own-key", "title cached under a key that is not the updated note's key: %s" % sorted(pv), loc(fm, x))


def rule_r5(facts, rep, rid="C06-R5"):
    """A link is re-printed in another *kind* (autolink `<url>`) only when it is external and its text equals its url - in both printers."""
    from . import arms as A
    n = 0
    for nm in ("GraphInline::to_markdown", "MarkdownWriter::inlines_to_events"):
        f = facts.fn(nm)
        rep.saw_fn(f)
        ms = A.matches_on(f, "GraphInline")
        if not ms:
            rep.anchor_missing(rid, "match on GraphInline in " + nm)
            continue
        for vs, arm in A.arms_of(ms[0]):
            if not any(fb.last_seg(v) == "Link" for v in vs):
                continue
            for x in fb.walk(arm["body"]):
                if x.get("k") != "if":
                    continue
                cond = x["c"]
                # a kind-changing branch: its then-side prints the autolink form (`<...>` literal / LinkType::Autolink)
                def autolink(e):
                    for y in fb.walk(e):
                        if y.get("k") == "lit" and str(y.get("v", "")).startswith("s:<"):
                            return True
                        if y.get("k") == "path" and (y.get("def") or "").endswith("LinkType::Autolink"):
                            return True
                        if y.get("k") == "call" and "Arguments" in (fb.callee(y) or "") and "<" in fb.show(y)[:40]:
                            return True
                    return False
                if not autolink(x["t"]):
                    continue
                n += 1
                key = "%s|arm:Link|kind-change-only-for-external" % f.def_
                # conjunction with a negated is_ref / is_ref_url
                conj = []

                def split(e):
                    if e.get("k") == "binary" and e["op"] == "&&":
                        split(e["l"])
                        split(e["r"])
                    else:
                        conj.append(e)
                split(cond)
                neg_ref = False
                for cj in conj:
                    if cj.get("k") == "unary" and cj.get("op") == "!":
                        inner = cj["e"]
                        if inner.get("k") in ("call", "mcall") and fb.last_seg(fb.callee(inner) or "") in ("is_ref", "is_ref_url"):
                            neg_ref = True
                # the same knowledge in any other spelling: `let is_ref = self.is_ref(); if !is_ref && ..`, an enclosing `if !is_ref`, a preceding early exit ...
                cf = ctx(f)
                probe = x["t"]
                for suffix in ("::is_ref", "::is_ref_url"):
                    if known_call(cf, probe, suffix) is False:
                        neg_ref = True
                if neg_ref:
                    rep.ok(rid, key, "autolink form chosen under `%s`" % fb.show(cond)[:80], loc(f, x))
                else:
                    rep.violation(rid, key, "the printer switches a link to the autolink form `<url>` under `%s`, without requiring the link to be external: a reference whose (refreshed) text "
                                  "equals its key - a note whose heading spells its own name, or a dangling [x](x) - is written as <x>, which is no longer a link to the note" % fb.show(cond)[:80], loc(f, x))
    rep.floor(rid, "kind-changing branches in the link printers", n, 2)


def rule_r1b(facts, rep, rid="C06-R1b"):
    """Title refresh is unconditional: between the title lookup and its fallback there is nothing but `map`."""
    from .common import value_chain
    sites = [("GraphInline::normalize", ("get_ref_title",)), ("GraphNodePointer as liwe::model::node::NodeIter>::node", ("get_ref_text", "get_key_title", "get_ref_title"))]
    n = 0
    for nm, lookups in sites:
        f = facts.fn(nm)
        rep.saw_fn(f)
        c = ctx(f)
        for x in fb.walk(f.body):
            if x.get("k") == "mcall" and x["name"] in lookups:
                n += 1
                chain = value_chain(c, x)
                names = [m["name"] for m in chain]
                key = "%s|%s|refresh-is-unconditional" % (f.def_, x["name"])
                bad = [m for m in chain if m["name"] not in ("map", "unwrap_or", "unwrap_or_else", "unwrap_or_default", "cloned", "clone", "to_string", "into")]
                end = [m for m in chain if m["name"] in ("unwrap_or", "unwrap_or_else", "unwrap_or_default")]
                if bad:
                    rep.violation(rid, key, "the looked-up title passes `.%s(%s)` before it replaces the link text: the refresh is skipped for the titles that test rejects, so the link keeps a "
                                  "stale text although its target has a heading" % (bad[0]["name"], fb.show(bad[0]["args"][0])[:70] if bad[0]["args"] else ""), loc(f, bad[0]))
                elif not end and (_absence_handled(c, x) or ("", None))[0] in ("match", "if-let"):
                    rep.ok(rid, key, "the absent edge (None arm / else branch) yields the original text", loc(f, x))
                elif not end:
                    rep.violation(rid, key, "the title lookup has no fallback to the link's own text (chain: %s)" % names, loc(f, x))
                else:
                    rep.ok(rid, key, "lookup -> %s" % " -> ".join(names), loc(f, x))
    rep.floor(rid, "title lookups", n, 2)


def rule_r6(facts, rep, rid="C06-R6"):
    """Sibling printers agree on wiki links: each of them writes `[[target]]` / `[[target|text]]` itself on a branch decided by the link's kind,
    before any generic `[text](url)` path (the cmark serializer used for table cells prints a Tag::Link of wiki kind as an inline link)."""
    for name in ("GraphInline::to_markdown", "MarkdownWriter::inlines_to_events"):
        f = facts.fn(name)
        rep.saw_fn(f)
        c = ctx(f)
        for variant in ("WikiLink", "WikiLinkPiped"):
            key = "%s|wiki-syntax-for:%s" % (f.def_, variant)
            okv = None
            for x in fb.walk(f.body):
                # a string built from a template that opens with `[[` ...
                lits = [y for y in fb.walk(x) if y.get("k") == "lit" and str(y.get("v", "")).startswith(("bs:", "s:")) and "[[" in str(y.get("v", ""))] if x.get("k") in ("call", "block") and "format" in (x.get("m") or "") else []
                if not lits:
                    continue
                # ... on a branch where the link's kind is known to be `variant` (if `t == LinkType::V`, or a match arm on V)
                known = False
                for e, pol in facts_at(c, x):
                    if pol and e.get("k") == "binary" and e.get("op") == "==" and any(
                            y.get("k") == "path" and fb.norm(y.get("def") or "").endswith("LinkType::" + variant) for y in fb.walk(e)):
                        known = True
                from .common import controlling_tests
                for e, pol in controlling_tests(c, x):
                    if pol == "pat:" + variant:
                        known = True
                if known:
                    okv = x
                    break
            if okv is not None:
                rep.ok(rid, key, "written as `[[..]]` on the branch for LinkType::%s" % variant, loc(f, okv))
            else:
                rep.violation(rid, key, "%s has no branch that writes a %s in wiki syntax: it goes down the generic link path and comes out as `[text](target)` (a bare wiki link as "
                              "`[](target)`) - the link changes its kind" % (fb.last_seg(f.def_), variant), f.loc)


def run(facts, rep, tier):
    rep.rule("C06-R1", "Kind->text table agreement across the three sites that choose a link's text (GraphInline::normalize, "
             "GraphNodePointer::node, Projector::project_node): Regular = title with fallback to the original, WikiLink = empty, "
             "WikiLinkPiped = the author's text without title lookup; LinkType<->ReferenceType conversions are the identity on kinds.")
    rep.rule("C06-R2", "Destinations are copied, never computed: rebuilt links take url/title/kind positionally from the matched link, only on "
             "the is_ref() edge; images and other inlines are cloned; refs_extension is appended only for references; block-reference urls "
             "are ref_key2().to_rel_link_url(&self.parent) with parent threaded unchanged.")
    rep.rule("C06-R3", "The title is the plain text of the target's first block iff it is a section, cached under the note's own key.")
    rep.rule("C06-R4", "= C05-R2: the title used is that of the note the link resolves to from the linking note's directory.")
    rule_r1(facts, rep)
    rep.rule("C06-R1b", "The refresh is unconditional: at the sites that look a title up (get_ref_title / get_ref_text) the value flows through `map` only into `unwrap_or(<original text>)` - no filter / and_then in between.")
    rule_r1b(facts, rep)
    rule_r2(facts, rep)
    rule_r3(facts, rep)
    rep.rule("C06-R3b", "= C04-R3 for the title cache: the single-key update refreshes keys_to_ref_text on every path (insert on Some, remove on None, no early return before it), so a link to a "
             "note that lost its heading is not re-titled with the old one.")
    from . import c04
    from .c01 import _Only
    c04.rule_r3(facts, _MultiOnly(rep, ("cache:keys_to_ref_text", "no-early-return-before-cache-refresh")), "C06-R3b")
    c05.rule_r2(facts, rep, "C06-R4")
    rep.rule("C06-R4b", "= C15-R3: the directory a block reference is resolved against comes from Key::parent, which must use the same path algebra as the url reader/writer.")
    from . import c15
    c15.rule_r3(facts, rep, "C06-R4b")
    rep.rule("C06-R5", "Links keep their kind: both link printers choose the autolink form only under `!is_ref && text == url`.")
    rule_r5(facts, rep)
    rep.rule("C06-R6", "Wiki links keep their kind in both printers (paragraph text and table cells): each has a branch per wiki kind that writes `[[..]]` itself.")
    rule_r6(facts, rep)
    rep.rule("C06-R7", "= C05-R3: which links are references (and so get a title, an extension, a path relative to the note) is decided in one place, model::is_ref_url, a negated disjunction "
             "of case-folded scheme prefixes: a note key taken for an external url is not refreshed and can be written as an autolink `<key>`, which is no link any more.")
    c05.rule_r3(facts, rep, "C06-R7")
    rep.rule("C06-R7b", "External urls keep their destination whatever their scheme: model::is_ref_url tests for a scheme in general, not for a closed list of prefixes (a url with an "
             "unlisted scheme would get the references extension appended).")
    c05.rule_scheme_list(facts, rep, "C06-R7b")
    rep.rule("C06-R3c", "The title is all the words of the heading: Line::to_plain_text folds every inline through GraphInline::plain_text, a variant table in which every text-bearing variant "
             "(links included) contributes its payload's text.")
    from . import plaintext
    plaintext.rule_plain_text(facts, rep, "C06-R3c")
    rep.rule("C06-R8", "= C01-R15: no link changes its destination in a table cell (dest_url <- url, title <- title, position by position).")
    from . import writer_payload
    writer_payload.rule_writer_payload(facts, rep, "C06-R8")
    rep.rule("C06-R9", "= C01-R1 (stored-verbatim): the reader stores a link's destination as the source has it - no fragment, case or prefix is cut off on the way into the model, so formatting "
             "cannot rewrite where a link points.")
    from . import c01 as _c01
    _c01.rule_r1(facts, _c01._Only(rep, "stored-verbatim"), "C06-R9")


class _MultiOnly:
    """Forwards only the instances whose key contains one of the markers."""

    def __init__(self, rep, markers):
        self.rep = rep
        self.markers = markers
        self.stats = rep.stats

    def _keep(self, key):
        return any(m in key for m in self.markers)

    def ok(self, rule, key, detail="", loc=None, nontrivial=True):
        if self._keep(key):
            self.rep.ok(rule, key, detail, loc, nontrivial)

    def violation(self, rule, key, detail, loc=None):
        if self._keep(key):
            self.rep.violation(rule, key, detail, loc)

    def undecided(self, rule, key, detail, loc=None):
        if self._keep(key):
            self.rep.undecided(rule, key, detail, loc)

    def floor(self, *a, **k):
        pass

    def anchor_missing(self, rule, what):
        self.rep.anchor_missing(rule, what)

    def saw_fn(self, fn):
        self.rep.saw_fn(fn)

    def rule(self, rid, text):
        pass
