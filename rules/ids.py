"""An absent node id is never replaced by a constant (shared by C09 / C20): NodeId is a plain u64 and 0 is a real node - the document root of the first note that was loaded.
`keys.get(key).copied().unwrap_or_default()` instead of `.expect(..)` turns "no such note" into "that other note": an action on a dangling reference would copy (and delete) the wrong note
instead of failing.  Inventory: every `unwrap_or_default()` / `unwrap_or(<literal>)` / `unwrap_or_else(|| <literal>)` / `map_or(<literal>, ..)` whose result is a `u64` (the only u64s of
the workspace are node ids) is audited; a fallback to another *id* (`unwrap_or(target_id)`) is not a constant and is left to the rules of the action that uses it."""
from vlib import factbase as fb
from .common import loc

AUDITED = {
    ("NodePointer::get_all_sub_nodes", "unwrap_or_default"): "the only NodePointer is GraphNodePointer, whose id() is always Some: the default is unreachable",
}


def _const(e):
    while e is not None and e.get("k") in ("addrof", "unary", "cast"):
        e = e["e"]
    if e is None:
        return True
    if e.get("k") == "lit":
        return True
    if e.get("k") == "closure":
        b = e["body"]
        while b.get("k") == "block" and not b.get("stmts") and b.get("e") is not None:
            b = b["e"]
        return _const(b)
    if e.get("k") in ("call", "mcall") and (fb.callee(e) or "").endswith(("Default::default", "Default>::default")):
        return True
    if e.get("k") == "path" and e.get("res") == "def" and (e.get("def") or "").endswith(("Default::default", "u64::MIN", "u64::MAX")):
        return True
    return False


def rule_no_default_ids(facts, rep, rid):
    n = 0
    for f in facts.body_fns():
        if f.crate not in ("liwe", "iwes", "iwe") or "::tests::" in f.def_ or "::test::" in f.def_:
            continue
        counts = {}
        for x in fb.walk(f.body):
            if x.get("k") != "mcall" or x["name"] not in ("unwrap_or_default", "unwrap_or", "unwrap_or_else", "map_or", "map_or_else"):
                continue
            if fb.norm(x.get("ty") or "") != "u64":
                continue
            if x["name"] != "unwrap_or_default" and not (x.get("args") and _const(x["args"][0])):
                continue
            owner = f.parent if f.kind == "closure" and f.parent else f.def_
            i = counts.get(x["name"], 0)
            counts[x["name"]] = i + 1
            n += 1
            key = "%s|%s|%d|id-defaulted-to-constant" % (owner, x["name"], i)
            why = next((r for (suf, nm), r in AUDITED.items() if owner.endswith(suf) and nm == x["name"]), None)
            if why:
                rep.ok(rid, key, "audited: " + why, loc(f, x))
            else:
                rep.violation(rid, key, "`%s`: an absent node id becomes a constant - 0 is the root of the first note loaded, so `no such note / node` silently turns into another note "
                              "(an inline / extract on a dangling reference copies and deletes the wrong note); fail or propagate the absence instead" % fb.show(x)[:70], loc(f, x))
    rep.ok(rid, "ids|defaulted-id-inventory", "%d constant-defaulted id(s) in the workspace" % n, None, nontrivial=False)
