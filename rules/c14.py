"""C14 - a file on disk, its URI and its note key always name the same note."""
import re

from vlib import factbase as fb
from vlib import q
from .common import pname, ctx, loc, str_template

TRIMS = ("core::str::trim_end_matches", "core::str::trim_start_matches", "core::str::trim_matches",
         "std::str::trim_end_matches", "std::str::trim_start_matches", "std::str::trim_matches",
         "core::str::<impl str>::trim_end_matches", "core::str::<impl str>::trim_start_matches", "core::str::<impl str>::trim_matches")


def _is_trim(c):
    return c is not None and c.rsplit("::", 1)[-1] in ("trim_end_matches", "trim_start_matches", "trim_matches") and "str" in c


def rule_r1(facts, rep, rid="C14-R1"):
    n = 0
    counts = {}
    for f in facts.body_fns():
        if f.crate not in ("liwe", "iwes", "iwe"):
            continue
        for x in fb.walk(f.body):
            if x.get("k") == "mcall" and _is_trim(fb.callee(x)):
                rep.saw_fn(f)
                pat = x["args"][0] if x["args"] else None
                pty = (pat or {}).get("ty", "")
                i = counts.get(f.def_, 0)
                counts[f.def_] = i + 1
                key = "%s|%s|%d" % (f.def_, x["name"], i)
                if pty == "char" or (pat is not None and pat.get("k") == "closure"):
                    rep.ok(rid, key, "single-character / predicate pattern (`%s`): stripping repetitions is the intent" % fb.show(pat), loc(f, x), nontrivial=False)
                    continue
                n += 1
                lit = pat.get("v")[2:] if pat is not None and pat.get("k") == "lit" and str(pat.get("v", "")).startswith("s:") else None
                if lit is not None and len(lit) <= 1:
                    rep.ok(rid, key, "one-character string pattern", loc(f, x), nontrivial=False)
                    continue
                rep.violation(rid, key, "`%s(%s)` removes *every* repetition of the pattern, not one prefix/suffix: `a.md.md` becomes key `a` (and is written back to "
                              "`a.md`, another file); a base path occurring twice at the start of a url is eaten twice. Use strip_suffix/strip_prefix (once)."
                              % (x["name"], fb.show(pat)[:40]), loc(f, x))
    if n == 0:
        rep.ok(rid, "no-multi-char-trim", "no trim_*_matches call with a multi-character string pattern in the workspace")
    # exactly one `.md` removal between a file name on disk and its key: loader side + Key::from_file_name
    def strips(fn):
        k = 0
        for x in fb.walk(fn.body):
            if x.get("k") == "mcall" and x["name"] in ("strip_suffix", "trim_end_matches", "file_stem", "trim_suffix"):
                k += 1
        return k
    loader = [facts.fn("liwe::fs::read_file"), facts.fn("liwe::fs::to_file_name")]
    ffn = facts.fn("Key::from_file_name")
    a = sum(strips(f) for f in loader)
    b = strips(ffn)
    imp = facts.fn("Graph::import")
    via = q.has_call(ctx(imp).mentions(imp.body), "Key::from_file_name")
    for f in loader + [ffn, imp]:
        rep.saw_fn(f)
    key = "load-path|one-suffix-removal"
    if via and a + b == 1:
        rep.ok(rid, key, "loader removes %d, Key::from_file_name (used by Graph::import on loader names) removes %d" % (a, b), ffn.loc)
    else:
        rep.violation(rid, key, "between a file name on disk and its key the `.md` suffix is removed %d time(s) (loader: %d, Key::from_file_name: %d, import uses it: %s); "
                      "it must be exactly once, or `x.md.md` and `x.md` name the same note" % (a + b if via else a, a, b, via), ffn.loc)
    for name in ("Key::from_rel_link_url", "BasePath::url_to_key"):
        f = facts.fn(name)
        rep.saw_fn(f)
        m = _deep_mentions(facts, f)
        if any(a_[0] == "call" and a_[1] and a_[1].rsplit("::", 1)[-1] in ("strip_suffix", "strip_prefix", "to_file_path", "file_stem") for a_ in m) or q.has_call(m, "Key::from_file_name"):
            rep.ok(rid, f.def_ + "|removes-suffix-or-prefix-once", "", f.loc)
        else:
            rep.violation(rid, f.def_ + "|removes-suffix-or-prefix-once", "%s no longer removes the `.md` suffix / the base prefix with a single-strip operation" % name, f.loc)


def _deep_mentions(facts, f, depth=2):
    """mentions of f plus those of local helper fns it calls in the same impl / module (bounded inlining)."""
    out = set(ctx(f).mentions(f.body))
    if depth <= 0:
        return out
    for a in list(out):
        if a[0] == "call" and a[1] in facts.fns:
            g = facts.fns[a[1]]
            if g.body is not None and g is not f and g.crate == f.crate and (g.impl_self == f.impl_self or g.file == f.file):
                out |= _deep_mentions(facts, g, depth - 1)
    return out


def rule_r2(facts, rep, rid="C14-R2"):
    # url -> key must decode what key -> url encodes
    f = facts.fn("BasePath::url_to_key")
    rep.saw_fn(f)
    m = _deep_mentions(facts, f)
    dec = any(a[0] == "call" and a[1] and (a[1].endswith("Url::to_file_path") or "percent_decode" in a[1] or a[1].endswith("decode_utf8") or a[1].endswith("decode_utf8_lossy")) for a in m)
    enc_out = []
    for name in ("BasePath::key_to_url", "BasePath::relative_to_full_path", "BasePath::name_to_url"):
        g = facts.fn(name)
        rep.saw_fn(g)
        mg = _deep_mentions(facts, g)
        if any(a[0] == "call" and a[1] and (a[1].endswith("Url::from_file_path") or a[1].endswith("Url::from_directory_path") or "path_segments_mut" in a[1]) for a in mg):
            enc_out.append((g, "encoding"))
        elif any(a[0] == "call" and a[1] and a[1].endswith("Url::join") for a in mg):
            enc_out.append((g, "join"))
        elif any(a[0] == "call" and a[1] and a[1].endswith("Url::parse") for a in mg):
            enc_out.append((g, "parse-of-formatted-string"))
        else:
            enc_out.append((g, "unknown"))
    key = f.def_ + "|decodes-percent-encoding"
    if dec:
        rep.ok(rid, key, "goes through Url::to_file_path / percent_decode", f.loc)
    else:
        rep.violation(rid, key, "the key is cut out of `url.to_string()` (percent-encoded) while key->url constructors percent-encode: the file `my note.md` is loaded as key "
                      "`my note` but addressed by the editor as `my%20note` -> an edit notification creates a second note", f.loc)
    kinds = set(k for _, k in enc_out)
    for g, kind in enc_out:
        k2 = g.def_ + "|url-constructor-kind"
        if kind in ("encoding", "join") and len(kinds) == 1:
            rep.ok(rid, k2, "all three url constructors build the url the same way (%s)" % kind, g.loc)
        elif kind in ("encoding", "join"):
            rep.violation(rid, k2, "the url constructors of BasePath disagree (%s): the same note gets different urls depending on the code path" % sorted(kinds), g.loc)
        else:
            rep.violation(rid, k2, "builds the url by formatting a string and parsing it (%s) while its siblings use an encoding constructor: names containing "
                          "`%%`, `#`, `?` or spaces yield a different url than key_to_url gives for the same note" % kind, g.loc)


def rule_r3(facts, rep, rid="C14-R3"):
    # loader and writer agree on the file-name suffix and separator
    sites = {
        "liwe::fs::write_file": ("lit", "{}.md"),
        "Key::to_path": ("lit", "{}.md"),
        "liwe::fs::read_file": ("lit", "/"),
    }
    for name, (_, want) in sites.items():
        f = facts.fn(name)
        rep.saw_fn(f)
        lits = [x.get("v", "").split(":", 1)[1] for x in fb.walk(f.body) if x.get("k") == "lit" and str(x.get("v", "")).startswith(("s:", "bs:"))]
        if want == "{}.md":
            okl = any(".md" in l for l in lits)
            # the name that is built, whatever builds it (format!, constants, an intermediate `file_name`): <key> + ".md"
            cf = ctx(f)
            if name.endswith("write_file"):
                dest = [x["args"][1] for x in fb.calls_in(f.body) if fb.callee(x) == "std::fs::rename" and len(x.get("args", [])) > 1] or \
                       [x["args"][0] for x in fb.calls_in(f.body) if fb.callee(x) in ("std::fs::write", "std::fs::File::create") and x.get("args")]
                tmpl = str_template(cf, dest[0]) if dest else None
            else:
                tmpl = str_template(cf, f.body)
            if tmpl and isinstance(tmpl[-1], str):
                okl = tmpl[-1] == ".md" and len(tmpl) >= 2 and not isinstance(tmpl[-2], str)
                lits = ["".join(p if isinstance(p, str) else "{}" for p in tmpl)]
        else:
            okl = any("/" in l for l in lits)
        if okl:
            rep.ok(rid, f.def_ + "|uses:" + want, "string literals: %s" % [l for l in lits if l][:4], f.loc)
        else:
            rep.violation(rid, f.def_ + "|uses:" + want, "%s no longer uses `%s` (literals: %s): loader, key and writer disagree on the file name of a note" % (name, want, lits[:4]), f.loc)
    # loader only picks *.md and derives the key from sub-directories + stem
    nf = facts.fn("liwe::fs::new_for_path_rec")
    rep.saw_fn(nf)
    lits = [x.get("v", "")[2:] for x in fb.walk(nf.body) if x.get("k") == "lit" and str(x.get("v", "")).startswith("s:")]
    if "md" in lits:
        rep.ok(rid, nf.def_ + "|filters-md-extension", "", nf.loc)
    else:
        rep.violation(rid, nf.def_ + "|filters-md-extension", "directory scan no longer filters on the `md` extension", nf.loc)
    rf = facts.fn("liwe::fs::read_file")
    c = ctx(rf)
    m = c.mentions(rf.body)
    if q.has_call(m, "liwe::fs::to_file_name") and (("param", pname(rf, 1)) in m):
        rep.ok(rid, rf.def_ + "|key-is-subdirs-plus-stem", "", rf.loc)
    else:
        rep.violation(rid, rf.def_ + "|key-is-subdirs-plus-stem", "loader key is no longer `<sub dirs>/<file stem>`", rf.loc)

    # the recursive directory walk hands down the WHOLE path of sub-directories (parent's path + this directory's name)
    rec = [x for x in fb.walk(nf.body) if x.get("k") == "call" and fb.callee(x) == nf.def_]
    key = nf.def_ + "|recursion-accumulates-sub-path"
    if not rec:
        rep.violation(rid, key, "the directory scan does not recurse into sub-directories", nf.loc)
    else:
        cnf = ctx(nf)
        arg = rec[0]["args"][1] if len(rec[0]["args"]) > 1 else None
        at = cnf.mentions(arg) if arg is not None else set()
        lid = arg.get("id") if arg is not None and arg.get("k") == "path" else None
        # mutations of the local (push / extend) count as provenance too
        grown = False
        if lid is not None:
            for y in fb.walk(nf.body):
                if y.get("k") == "mcall" and y["name"] in ("push", "extend", "extend_from_slice", "append") and y["recv"].get("k") == "path" and y["recv"].get("id") == lid:
                    grown = True
                    at |= cnf.mentions(y["args"][0])
        has_parent = ("param", pname(nf, 1)) in at
        has_name = any(a[0] == "call" and a[1] and a[1].endswith("Path::file_name") for a in at)
        if has_parent and has_name:
            rep.ok(rid, key, "recursive call gets sub_path + [directory name]", loc(nf, rec[0]))
        else:
            rep.violation(rid, key, "the recursive scan passes a sub-path built from %s: notes two or more directories deep are loaded under a key that lacks the outer directories, "
                          "so the file, its URI and its key no longer name the same note" % ("the directory name only" if has_name and not has_parent else "the parent path only" if has_parent else "neither the parent path nor the directory name"), loc(nf, rec[0]))
    files = [x for x in fb.walk(nf.body) if x.get("k") == "call" and (fb.callee(x) or "").endswith("liwe::fs::read_file")]
    key = nf.def_ + "|files-get-current-sub-path"
    if files and len(files[0]["args"]) > 1 and ("param", pname(nf, 1)) in ctx(nf).vprov(files[0]["args"][1]):
        rep.ok(rid, key, "read_file(path, &sub_path)", loc(nf, files[0]))
    else:
        rep.violation(rid, key, "files are not read with the current sub_path", nf.loc)


def rule_r4(facts, rep, rid="C14-R4"):
    """Inside BasePath every url -> path conversion decodes (Url::to_file_path); the raw, still percent-encoded forms are audited fallbacks."""
    raw = ("Url::path", "Url::as_str", "Url::to_string", "Url::path_segments", "ToString>::to_string")
    n = 0
    for f in facts.body_fns():
        if f.impl_self is None or not f.impl_self.endswith("server::BasePath") or f.kind == "closure":
            continue
        rep.saw_fn(f)
        counts = {}
        for x in fb.walk(f.body):
            if x.get("k") != "mcall":
                continue
            rty = fb.norm(fb.tnorm(x.get("rty") or "")).replace("&", "")
            if not rty.endswith(("url::Url", "lsp_types::Url", "::Url")):
                continue
            nm = x["name"]
            if nm in ("to_file_path", "join", "clone", "scheme"):
                continue
            if nm in ("path", "as_str", "to_string", "path_segments", "as_ref", "into_string", "domain", "host_str", "query", "fragment"):
                i = counts.get(nm, 0)
                counts[nm] = i + 1
                n += 1
                key = "%s|Url::%s|%d" % (f.def_, nm, i)
                c = ctx(f)
                # audited: the fallback of url_to_key for non-file urls (only reached when to_file_path failed)
                from .common import on_absent_edge
                fallback = f.def_.endswith("BasePath::url_to_key") and on_absent_edge(c, x, "Url::to_file_path")
                if fallback:
                    rep.ok(rid, key, "audited fallback: only on the arm where Url::to_file_path gave no path", loc(f, x), nontrivial=False)
                else:
                    rep.violation(rid, key, "BasePath::%s reads the url through `%s()`, which is still percent-encoded, where its siblings compare decoded file paths (Url::to_file_path): "
                                  "for a library path or note name with a space / non-ASCII character the key, the file and the URI fall apart" % (fb.last_seg(f.def_), nm), loc(f, x))
    d = facts.fn("BasePath::directory")
    key = d.def_ + "|decoded"
    if q.has_call(ctx(d).mentions(d.body), "Url::to_file_path"):
        rep.ok(rid, key, "the library directory is the decoded file path of the base url", d.loc)
    else:
        rep.violation(rid, key, "BasePath::directory does not decode the base url with Url::to_file_path", d.loc)


LASTDOT = {"with_extension", "set_extension", "file_stem", "extension", "file_prefix", "with_file_name"}

# audited last-dot API uses: (fn suffix, method, ordinal) -> reason
LASTDOT_OK = {
    ("liwe::fs::new_for_path_rec", "extension", 0): "query only: selects the files whose extension is exactly `md`; the name itself is not rewritten",
}


def rule_r5(facts, rep, rid="C14-R5"):
    """Note names may contain dots (`release-1.2`, `x.md.md`): the `.md` suffix is handled by exact suffix tests, never by the std / relative_path
    'extension = text after the last dot' APIs."""
    n = 0
    for f in facts.body_fns():
        if f.crate not in ("liwe", "iwes", "iwe") or f.kind == "closure" or "::tests::" in f.def_ or "::test::" in f.def_:
            continue
        counts = {}
        for x in fb.walk(f.body):
            if x.get("k") != "mcall" or x["name"] not in LASTDOT:
                continue
            cal = fb.callee(x) or ""
            if not cal.startswith(("std::path::", "relative_path::", "camino::")):
                continue
            rep.saw_fn(f)
            i = counts.get(x["name"], 0)
            counts[x["name"]] = i + 1
            n += 1
            key = "%s|%s|%d" % (f.def_, x["name"], i)
            why = None
            for (fs, mm, oo), reason in LASTDOT_OK.items():
                if f.def_.endswith(fs) and mm == x["name"] and oo == i:
                    why = reason
            if why:
                rep.ok(rid, key, "audited: " + why, loc(f, x), nontrivial=False)
            else:
                rep.violation(rid, key, "`.%s(..)` (%s) in %s treats whatever follows the LAST dot of a note name as its extension: `release-1.2` becomes `release-1`, `x.md.md` becomes `x.md` -> "
                              "the file, its URI and its key name different notes" % (x["name"], fb.last2(cal), f.def_), loc(f, x))
    rep.ok(rid, "last-dot-extension-api|inventory", "%d use(s) of path-extension APIs in the workspace" % n, None, nontrivial=False)


FOLDERS = {"eq_ignore_ascii_case", "to_lowercase", "to_ascii_lowercase", "to_uppercase", "to_ascii_uppercase", "make_ascii_lowercase", "make_ascii_uppercase"}
RESOLVERS = {"canonicalize", "read_link", "absolute"}


def rule_r6(facts, rep, rid="C14-R6"):
    """The three name conversions (loader, Key::from_file_name / to_path, BasePath) treat a name literally: no case folding, no path resolution on one side only,
    and the writer appends `.md` unconditionally."""
    scope = []
    for f in facts.body_fns():
        if f.kind == "closure" or "::tests::" in f.def_ or "::test::" in f.def_:
            continue
        # inherent Key fns and its From/Display impls in liwe; the editor-side KeyExt trait (completion labels, filter text) is not a name conversion
        if f.def_.startswith("liwe::fs::") or ((f.impl_self or "").endswith("model::Key") and f.crate == "liwe") or (f.impl_self or "").endswith("server::BasePath"):
            scope.append(f)
        # ... and the plumbing that carries the library directory from the command line to BasePath and to the loader: both must get the same spelling of it
        elif f.crate in ("iwes", "iwe") and any(x.get("k") == "struct" and fb.norm(x.get("def", "")).endswith(("router::ServerConfig", "iwes::ServerParams", "server::BasePath"))
                                                for x in fb.walk(f.body)):
            scope.append(f)
    rep.floor(rid, "fns of the name conversions (liwe::fs, Key, BasePath, base-path plumbing)", len(scope), 18)
    n = 0
    for f in scope:
        rep.saw_fn(f)
        counts = {}
        for x in fb.walk(f.body):
            if x.get("k") in ("mcall", "call"):
                nm = x.get("name") or fb.last_seg(fb.callee(x) or "")
                if nm in FOLDERS or nm in RESOLVERS:
                    i = counts.get(nm, 0)
                    counts[nm] = i + 1
                    n += 1
                    key = "%s|%s|%d" % (f.def_, nm, i)
                    if nm in FOLDERS:
                        rep.violation(rid, key, "`%s` in %s compares / rewrites a file or note name case-insensitively while the other conversions are literal: `README.MD` is picked up by one "
                                      "side and not recognised by the other, so it is written back under another name (`README.MD.md`)" % (nm, f.def_), loc(f, x))
                    else:
                        rep.violation(rid, key, "`%s` in %s resolves links / `..` on one side of the path comparison only: for a library reached through a symlink the editor's URIs no longer "
                                      "match the library directory and keys are cut out of the raw URI instead" % (nm, f.def_), loc(f, x))
    rep.ok(rid, "name-conversions|case-folding-and-resolution-inventory", "%d case-folding / path-resolving call(s) in the name conversions" % n, None, nontrivial=False)
    # writer: `.md` is appended unconditionally
    for nm in ("liwe::fs::write_file", "Key::to_path"):
        f = facts.fn(nm)
        key = f.def_ + "|suffix-appended-unconditionally"
        tests = [x for x in fb.walk(f.body) if (x.get("k") == "mcall" and x["name"] in ("ends_with", "starts_with", "contains", "strip_suffix", "strip_prefix", "rsplit_once", "extension")) or
                 (x.get("k") == "if" and x["c"].get("k") != "letx")]
        if tests:
            rep.violation(rid, key, "%s decides by looking at the key (`%s`) whether to append `.md`: a note whose key itself ends in `.md` (file `x.md.md`) is written to `x.md`, the path of "
                          "another note" % (fb.last_seg(nm), fb.show(tests[0].get("c") or tests[0])[:60]), loc(f, tests[0]))
        else:
            rep.ok(rid, key, "format!(\"{}.md\", key) with no test on the key", f.loc)
    # loader: the extension test is the exact literal `md`
    nf = facts.fn("liwe::fs::new_for_path_rec")
    ext = [x for x in fb.walk(nf.body) if x.get("k") == "mcall" and x["name"] == "extension"]
    key = nf.def_ + "|extension-test-is-literal-md"
    okx = False
    for e in ext:
        from .common import ctx as _c, chain_up
        ups = chain_up(_c(nf), e)
        t = fb.show(ups[0])[:200] if ups else ""
        if re.search(r'\.eq\("md"\)|=="md"|== "md"', t.replace(" ", "").replace('=="md"', '=="md"')) or '.eq("md")' in t:
            okx = True
    if okx:
        rep.ok(rid, key, "extension().map_or(false, |ex| ex.eq(\"md\"))", nf.loc)
    else:
        rep.violation(rid, key, "the loader's extension test is not the exact comparison with `md`", nf.loc)


def rule_r8(facts, rep, rid="C14-R8"):
    """Key -> file goes through one function: BasePath::key_to_url hands `Key::to_path()` (key + `.md`, nothing stripped) to the url builder.  A key may itself
    end in `.md` (the note `x.md.md`); a "strip one `.md`, then append" normalisation is right for link urls typed by users but maps that key to the file of
    another note."""
    f = facts.fn("BasePath::key_to_url")
    rep.saw_fn(f)
    c = ctx(f)
    key = f.def_ + "|through-Key::to_path"
    m = c.mentions(f.body)
    through = q.has_call(m, "Key::to_path")
    strips = [x for x in fb.walk(f.body) if x.get("k") == "mcall" and x["name"] in ("strip_suffix", "trim_end_matches", "trim_matches", "strip_prefix", "replace", "replacen",
                                                                                      "with_extension", "file_stem", "rsplit_once", "split_once")]
    if through and not strips:
        rep.ok(rid, key, "file_url(&key.to_path())", f.loc)
    else:
        rep.violation(rid, key, "BasePath::key_to_url does not map the key through Key::to_path() unchanged (uses to_path: %s, rewrites the name with %s): the note loaded from `x.md.md` "
                      "(key `x.md`) is reported under the URI of `x.md`, another note's file" % (through, [x["name"] for x in strips] or "-"), loc(f, strips[0]) if strips else f.loc)


def run(facts, rep, tier):
    rep.rule("C14-R6", "The name conversions are literal and symmetric: no case folding and no one-sided path resolution (canonicalize) in liwe::fs / Key / BasePath, the writer appends `.md` "
             "without looking at the key, the loader's extension test is the exact literal.")
    rep.rule("C14-R5", "Note names may contain dots: no std::path / relative_path `extension = text after the last dot` API (with_extension, set_extension, file_stem, ...) is applied to "
             "note names, keys or urls, except the audited query in the directory scan.")
    rep.rule("C14-R4", "Unit discipline inside BasePath: every url -> path conversion decodes through Url::to_file_path; raw (percent-encoded) views of a url are confined to the audited fallback.")
    rep.rule("C14-R1", "No repeated-pattern trimming for prefix/suffix removal: str::trim_{end,start}_matches with a multi-character string pattern is not used "
             "anywhere in the workspace (it strips all repetitions); the key-deriving fns still strip the suffix/prefix (once).")
    rep.rule("C14-R2", "url->key decodes what key->url encodes (Url::to_file_path / percent_decode in url_to_key), and the three url constructors of "
             "BasePath agree on an encoding constructor (join / from_file_path) rather than format!+parse.")
    rep.rule("C14-R3", "Loader, key and writer agree on `<sub dirs>/<stem>` + `.md`: write_file and Key::to_path append `.md`, the loader filters on `md` and "
             "builds the key from the sub-directory names and the file stem.")
    rule_r1(facts, rep)
    rule_r2(facts, rep)
    rule_r3(facts, rep)
    rule_r4(facts, rep)
    rule_r5(facts, rep)
    rule_r6(facts, rep)
    rep.rule("C14-R7", "= C15-R3: Key::parent (the directory relative links and new notes are resolved against) uses the path algebra of the url reader / writer.")
    from . import c15 as _c15
    _c15.rule_r3(facts, rep, "C14-R7")
    rep.rule("C14-R8", "Key -> URI goes through Key::to_path (append-only): BasePath::key_to_url does not normalise the key's own `.md` away.")
    rule_r8(facts, rep)
    rep.rule("C14-R9", "= C16-R8 for Key: a key is the same note exactly when its text is the same - ==, Hash and the order of Key are the derived (literal) ones; a folded or partial notion "
             "of equality makes two files share one entry of the library (one of them is written over the other).")
    from . import c16 as _c16
    _c16.rule_r8(facts, rep, "C14-R9", only=("Key",), floor=4)
    rep.rule("C14-R10", "= C05-R3: a note is reached by linking to its path whatever its name: only urls that start with a complete scheme (`http://`, `https://`, `mailto:`) are external - a note "
             "named `http-caching` is a note.")
    from . import c05 as _c05
    _c05.rule_r3(facts, rep, "C14-R10")
