"""Whole-file edits carry the note's front matter (shared by C09 / C10): `Change::Update` becomes a TextEdit over the whole document (0:0 .. u32::MAX:0).  The actions render their
tree with NodeIter::to_markdown, which knows nothing about front matter - so the one place that turns an action's changes into an edit has to put the recorded front matter of the
updated key back in front (`Graph::with_front_matter(&update.key, update.markdown)`); every other producer of an Update renders with Graph::to_markdown / export_key, which writes it
itself.  Otherwise every extract / inline / list conversion on a note with a `---` block deletes that block (found on the pinned tree, repaired in fa99984)."""
from vlib import factbase as fb
from vlib import q
from .common import ctx, loc

WRITES_FRONT_MATTER = ("Graph::to_markdown", "Graph::export_key", "GraphPatch::markdown", "Graph::with_front_matter")


def rule_updates_carry_front_matter(facts, rep, rid):
    h = facts.fn("Server::handle_code_action_resolve")
    rep.saw_fn(h)
    c = ctx(h)
    key = h.def_ + "|action-updates-get-front-matter"
    ch = [x for x in fb.walk(h.body) if x.get("k") in ("mcall", "call") and (fb.callee(x) or fb.rcallee(x) or "").endswith("ActionProvider::changes")]
    tdc = [x for x in fb.walk(h.body) if x.get("k") in ("mcall", "call") and (fb.callee(x) or "").endswith("to_document_change")]
    wf = [x for x in fb.walk(h.body) if x.get("k") in ("mcall", "call") and (fb.callee(x) or "").endswith("Graph::with_front_matter")]
    probs = []
    if not ch or not tdc:
        probs.append("cannot see ActionProvider::changes(..) flowing into to_document_change")
    if not wf:
        probs.append("the changes of an action reach to_document_change without Graph::with_front_matter: the whole-file edit drops the note's front matter")
    else:
        w = wf[0]
        args = w.get("args", [])
        pk = c.vprov(args[0]) if len(args) > 0 else set()
        pm = c.vprov(args[1]) if len(args) > 1 else set()
        if ("field", "key") not in pk or ("field", "markdown") not in pm:
            probs.append("with_front_matter is not given (update.key, update.markdown)")
        # what to_document_change is mapped over must be the result of that re-wrap, not the raw changes
        src = None
        for t in tdc:
            for p in c.parents(t):
                if p.get("k") == "closure":
                    host = c.parent_of.get(id(p))
                    if host is not None and host.get("k") == "mcall":
                        src = host["recv"]
                    break
        if src is not None:
            m = c.vprov(src) | c.mentions(src)
            # follow the local the chain starts from
            base = src
            while base is not None and base.get("k") == "mcall":
                base = base["recv"]
            while base is not None and base.get("k") in ("addrof", "unary"):
                base = base["e"]
            if base is not None and base.get("k") == "path" and base.get("res") == "local":
                b = c.binds.get(base["id"])
                if b and b[0] == "expr" and b[1] is not None:
                    m |= c.mentions(b[1])
            if not q.has_call(m, "Graph::with_front_matter"):
                probs.append("to_document_change is mapped over changes that did not pass with_front_matter")
    if probs:
        rep.violation(rid, key, "; ".join(probs), h.loc)
    else:
        rep.ok(rid, key, "changes(..) -> Update { markdown: graph.with_front_matter(&update.key, update.markdown), .. } -> to_document_change", loc(h, wf[0]))
    # every Update built outside the action providers is rendered by a front-matter-aware renderer
    n = 0
    for f in facts.body_fns():
        if f.crate != "iwes" or "::tests::" in f.def_ or "::action::" in f.def_ or f.def_.startswith(h.def_):
            continue
        cf = None
        i = 0
        for x in fb.walk(f.body):
            if x.get("k") == "struct" and fb.norm(x.get("def", "")).endswith("action::Update"):
                cf = cf or ctx(f)
                rep.saw_fn(f)
                fl = {z["name"]: z["e"] for z in x["fields"]}
                owner = f.parent if f.kind == "closure" and f.parent else f.def_
                k2 = "%s|update|%d|rendered-with-front-matter" % (owner, i)
                i += 1
                n += 1
                m = cf.vprov(fl.get("markdown")) | cf.mentions(fl.get("markdown"))
                if any(q.has_call(m, w_) for w_ in WRITES_FRONT_MATTER):
                    rep.ok(rid, k2, "rendered by Graph::to_markdown / export_key (front matter included)", loc(f, x))
                else:
                    rep.violation(rid, k2, "an Update built outside the action providers is not rendered by Graph::to_markdown / export_key / with_front_matter: the whole-file edit drops the "
                                  "note's front matter", loc(f, x))
    rep.floor(rid, "Update literals outside the action providers", n, 2)


def rule_rename_carries_front_matter(facts, rep, rid):
    """The note a rename moves is rebuilt in a patch graph under the NEW name, but the patch knows the library's front matter under the OLD names only
    (Graph::new_patch copies `metadata` as it is): the text written to the new file has to get the front matter recorded for the old key
    (`Graph::with_front_matter(&key, ..)`), otherwise renaming a note deletes its `---` block (found on the pinned tree through a sub-agent's remark, repaired)."""
    h = facts.fn("Server::handle_rename")
    rep.saw_fn(h)
    c = ctx(h)
    key = h.def_ + "|renamed-note-keeps-front-matter"
    ops = [x for x in fb.walk(h.body) if x.get("k") in ("mcall", "call") and (fb.callee(x) or "").endswith("to_override_new_file_op")]
    if not ops:
        rep.anchor_missing(rid, "to_override_new_file_op in Server::handle_rename (the content of the new file)")
        return
    probs = []
    for op in ops:
        args = op.get("args", [])
        content = args[-1] if args else None
        m = c.vprov(content) | c.mentions(content)
        if not q.has_call(m, "Graph::with_front_matter"):
            probs.append("the text of the new file does not pass Graph::with_front_matter: the patch graph has the note's front matter under the old name only, so the renamed note loses it")
            continue
        wf = [x for x in fb.walk(h.body) if x.get("k") in ("mcall", "call") and (fb.callee(x) or "").endswith("Graph::with_front_matter")]
        for w in wf:
            a = w.get("args", [])
            mk = (c.vprov(a[0]) | c.mentions(a[0])) if a else set()
            if ("field", "new_name") in mk:
                probs.append("with_front_matter is asked for the NEW key (derived from params.new_name), under which nothing is recorded")
            rcv = c.vprov(w.get("recv")) | c.mentions(w.get("recv")) if w.get("recv") is not None else set()
            if q.has_call(rcv, "Graph::new_patch"):
                pass    # the patch carries the same metadata map (new_patch copies it): either graph answers for the old key
    if probs:
        rep.violation(rid, key, "; ".join(sorted(set(probs))), loc(h, ops[0]))
    else:
        rep.ok(rid, key, "new file <- graph.with_front_matter(<old key>, patch.export_key(new_key))", loc(h, ops[0]))
