"""C03 - no document can crash, hang or kill the server or CLI (over-approximate inventories)."""
import json
import os
import re

from vlib import factbase as fb
from vlib import q
from .common import ctx, loc, match_arms_on
from . import panics

VERIF = os.path.dirname(os.path.dirname(os.path.abspath(__file__)))
_CLOS = re.compile(r"::\{closure#\d+\}")


def roots(facts):
    """Input-facing roots: the server loop, the CLI, and the exported library API of liwe."""
    r = []
    for f in facts.fn_list:
        if f.kind == "closure":
            continue
        if f.def_ in ("iwes::main_loop", "iwe::main", "iwes::main", "iwes::router::Router::run"):
            r.append(f.def_)
        elif f.crate == "liwe" and f.exported and f.body is not None and (f.impl_self in ("liwe::graph::Graph", "liwe::database::Database", "liwe::parser::Parser") or f.def_.startswith("liwe::fs::")):
            r.append(f.def_)
    return sorted(set(r))


# ------------------------------------------------------------------------------------------ R2 recursion

LINK_KINDS = [
    ("next", re.compile(r"(NodeIter|NodePointer|GraphNode|graph_node::\w+)::(next|next_id|to_next|get_next_nodes|get_next_sections)$")),
    ("prev", re.compile(r"(NodePointer|GraphNode|graph_node::\w+)::(prev_id|to_prev|to_parent|to_document)$")),
    ("child", re.compile(r"(NodeIter|NodePointer|GraphNode|graph_node::\w+|DocumentBlock|DocumentInline)::(child|child_id|to_child|child_blocks|child_inlines|get_sub_nodes)$")),
    ("cross-note", re.compile(r"::(to_key|maybe_key|get_node_id|get_block_references_to|get_inline_references_to)$")),
    ("fs", re.compile(r"::(read_dir)$")),
]
CHILD_FIELDS = {"children", "inlines", "blocks", "items", "rows", "header"}


_ABSORBED = set()
_SPECIALISED = {}


def scc_key(scc):
    """Members of a cycle, closures folded into their fn, helpers that are analysed inlined (vlib/inline.py) folded into their callers."""
    names = set(_CLOS.sub("", d) for d in scc)
    # a merged fn that is analysed as the recorded fns it replaced (vlib/inline.py) stands for them in the cycle
    for n in list(names):
        if n in _SPECIALISED:
            names.discard(n)
            names.update(_SPECIALISED[n])
    kept = set(n for n in names if n not in _ABSORBED)
    return "+".join(sorted(kept or names))


_REC_ADTS = None


def recursive_adts(facts):
    """Local ADTs that (transitively) contain themselves through owned fields: finite trees by construction."""
    global _REC_ADTS
    if _REC_ADTS is not None:
        return _REC_ADTS
    edges = {}
    for p, a in facts.adts.items():
        tgt = set()
        for v in a["variants"]:
            for fl in v["fields"]:
                for p2 in facts.adts:
                    if p2 in fl["ty"]:
                        tgt.add(p2)
        edges[p] = tgt
    rec = set()
    for p in edges:
        seen, stack = set(), list(edges[p])
        while stack:
            x = stack.pop()
            if x in seen:
                continue
            seen.add(x)
            stack.extend(edges.get(x, ()))
        if p in seen:
            rec.add(p)
    _REC_ADTS = rec
    return rec


def _subject_owned(facts, f):
    rec = recursive_adts(facts)
    subj = [f.impl_self or ""] + [p.get("ty", "") or "" for p in f.params]
    return any(r in t for r in rec for t in subj)


def classify_scc(facts, scc):
    names = set(_CLOS.sub("", d) for d in scc)
    for n_ in list(names):
        if n_ in _SPECIALISED:
            names.update(_SPECIALISED[n_])
    kinds = set()
    sites = []
    members = []
    for d in sorted(names):
        f = facts.fns.get(d)
        if f is None or f.body is None:
            continue
        members.append(f)
        c = ctx(f)
        for call in fb.calls_in(f.body):
            cal, rc = fb.callee(call), fb.rcallee(call)
            if not any(x in names for x in (rc, cal)):
                continue
            sites.append((f, call))
            parts = list(call.get("args", []))
            if call.get("recv") is not None:
                parts.append(call["recv"])
            for p in parts:
                for a in c.mentions(p):
                    if a[0] == "call" and a[1]:
                        for kind, rx in LINK_KINDS:
                            if rx.search(a[1]):
                                kinds.add(kind)
                    if a[0] == "field" and a[1] in CHILD_FIELDS:
                        kinds.add("child")
    if not (kinds - {"child"}) and members and all(_subject_owned(facts, f) for f in members):
        return {"owned-structure"}, sites
    return kinds or {"other"}, sites


def recursion_table():
    p = os.path.join(VERIF, "tables", "recursion.json")
    if os.path.exists(p):
        with open(p) as fh:
            return json.load(fh)
    return {}


def rule_r2(facts, rep, rid="C03-R2"):
    cg = facts.callgraph
    rts = roots(facts)
    reach = cg.reachable_from(rts)
    local = [f.def_ for f in facts.fn_list if f.crate in ("liwe", "iwes", "iwe") and f.def_ in reach]
    sccs = cg.sccs(local)
    _ABSORBED.clear()
    _ABSORBED.update(f.def_ for f in facts.fn_list if f.absorbed)
    _SPECIALISED.clear()
    _SPECIALISED.update(getattr(facts, "specialised", None) or {})
    tab = recursion_table()
    n = 0
    seen_keys = set()
    # a recursive helper that is analysed specialised into several independent wrappers (vlib/inline.py) is one cycle per wrapper
    separately = getattr(facts, "specialised_separately", None) or set()
    work = []
    for scc in sccs:
        bare = set(_CLOS.sub("", d) for d in scc)
        sep = [d for d in bare if d in separately]
        if sep and all(d in separately or d in _ABSORBED for d in bare):
            for w in sorted(set(w_ for d in sep for w_ in _SPECIALISED.get(d, []))):
                work.append((w, frozenset([w])))
        else:
            work.append((scc_key(scc), scc))
    for key, scc in sorted(work, key=lambda kv: kv[0]):
        if key in seen_keys:
            continue
        seen_keys.add(key)
        n += 1
        kinds, sites = classify_scc(facts, scc)
        cls = "+".join(sorted(kinds)) or "none"
        f0 = facts.fns.get(sorted(set(_CLOS.sub("", d) for d in scc))[0])
        where = f0.loc if f0 else None
        if f0:
            rep.saw_fn(f0)
        ent = tab.get(key)
        if ent is None:
            members = sorted(set(key.split("+")))
            # (a) a recorded helper of the cycle was inlined into a member and deleted: the audited cycle named it too
            moved = getattr(facts, "moved_into", None) or {}
            extra = sorted(set(m_ for d_ in members for m_ in moved.get(d_, [])))
            if extra:
                alt = "+".join(sorted(set(members + extra)))
                if alt in tab:
                    ent, key = tab[alt], alt
            # (b) a recorded pass-through fn now sits on the cycle (`to_graph_inline` recursing through `to_graph_inlines`): the audited cycle is
            #     the part of it that was recursive before, if the rest only forwards into it
            if ent is None and len(members) > 1:
                for sub_n in range(len(members) - 1, 0, -1):
                    import itertools
                    for sub in itertools.combinations(members, sub_n):
                        k_ = "+".join(sub)
                        if k_ in tab:
                            rest = [d_ for d_ in members if d_ not in sub]
                            forwards = all(set(x_ for x_ in cg.edges.get(d_, ()) if x_ in cg.local and not x_.startswith(d_ + "::{closure")) <= set(members)
                                           for d_ in rest)
                            if forwards:
                                ent, key = tab[k_], k_
                                break
                    if ent is not None:
                        break
        ikey = "recursion|%s" % key
        if ent is None:
            rep.violation(rid, ikey + "|new", "new recursion cycle (driven by: %s) reachable from the input-facing roots; it has no audited termination / depth measure "
                          "in tables/recursion.json" % cls, where)
            continue
        if ent["driver"] != cls:
            rep.violation(rid, ikey + "|driver-changed:%s" % cls, "the recursion is now driven by `%s` but was audited as `%s` (%s): its depth measure no longer applies" % (cls, ent["driver"], ent["measure"]), where)
            continue
        if ent["status"] == "finding":
            rep.violation(rid, ikey, "recursion depth is %s: %s" % (ent["measure"], ent["reason"]), where)
        else:
            rep.ok(rid, ikey, "driver %s; measure: %s" % (cls, ent["measure"]), where)
    rep.floor(rid, "recursion cycles reachable from the roots", n, 40)
    # explicit unbounded loops: `loop {}` / `while` without a for-iterator
    lt = {
        "iwes::router::Router::run": "message loop: ends when the channel closes or `exit` arrives",
        "<&liwe::graph::Graph as liwe::graph::GraphContext>::random_key": "probabilistic: retries until an unused 8-character key is drawn (36^8 candidates)",
        "liwe::markdown::reader::MarkdownEventsReader::read": "drains the pulldown-cmark event iterator, which is finite for a finite input",
        "liwe::model::tree::Tree::from_pointer": "walks the `next` chain of one note: finite because the chain is acyclic (C20)",
        "liwe::model::tree::Tree::squash_from_pointer": "walks the `next` chain of one note: finite because the chain is acyclic (C20)",
    }
    m = 0
    for f in facts.body_fns():
        if f.def_ not in reach or f.crate not in ("liwe", "iwes", "iwe"):
            continue
        cnt = 0
        for x, parents in fb.walk_with_parents(f.body):
            if x.get("k") == "loop" and x.get("src") in ("Loop", "While"):
                if x.get("m") and not x["m"].startswith("desugar"):
                    continue      # generated by a macro, not repo logic
                if any(p.get("k") == "if" and p["c"].get("k") == "lit" and p["c"].get("v") == "bool:false" for p in parents):
                    continue      # `if false { loop {} }` type-inference idiom of #[tracing::instrument]: unreachable
                m += 1
                key = "loop|%s|%s|%d" % (f.def_, x.get("src"), cnt)
                cnt += 1
                if f.def_ in lt:
                    rep.ok(rid, key, lt[f.def_], loc(f, x))
                else:
                    rep.violation(rid, key, "new unbounded loop (`%s`) on an input-reachable path without an audited termination argument" % x.get("src").lower(), loc(f, x))
    rep.floor(rid, "explicit loop/while constructs", m, 5)


# ------------------------------------------------------------------------------------------ R3 reader stack balance

def _effects(c, body):
    """(pushes_block, pops_block, pushes_inline, pops_inline) of a reader arm body."""
    ment = c.mentions(body)

    def has(n):
        return q.has_call(ment, "MarkdownEventsReader::" + n)
    return (has("push_block"), has("pop_block"), has("push_inline"), has("pop_inline"))


def rule_r3(facts, rep, rid="C03-R3"):
    st = facts.fn("MarkdownEventsReader::start_tag")
    en = facts.fn("MarkdownEventsReader::end_tag")
    rep.saw_fn(st)
    rep.saw_fn(en)
    cs, ce = ctx(st), ctx(en)
    ms = match_arms_on(st, "Tag")
    me = match_arms_on(en, "TagEnd")
    if not ms or not me:
        rep.anchor_missing(rid, "match on pulldown Tag / TagEnd in the reader")
        return
    sarms, earms = {}, {}
    for arm in ms[0]["arms"]:
        for v in fb.pat_variants(arm["pat"]):
            sarms[fb.last_seg(v)] = arm
    for arm in me[0]["arms"]:
        for v in fb.pat_variants(arm["pat"]):
            earms[fb.last_seg(v)] = arm
    n = 0
    for tag, sarm in sorted(sarms.items()):
        if tag == "_":
            continue
        earm = earms.get(tag) or earms.get("_")
        key = "%s|tag:%s" % (st.def_, tag)
        if earm is None:
            rep.violation(rid, key + "|no-end-arm", "Tag::%s has no TagEnd arm" % tag, "%s:%s" % (st.file, sarm.get("ln")))
            continue
        n += 1
        pb, _, pi, _ = _effects(cs, sarm["body"])
        _, qb, _, qi = _effects(ce, earm["body"])
        if (pb, pi) == (qb, qi):
            rep.ok(rid, key, "start pushes (block=%s, inline=%s); end pops the same" % (pb, pi), "%s:%s" % (st.file, sarm.get("ln")), nontrivial=pb or pi)
        else:
            rep.violation(rid, key, "unbalanced: start_tag pushes (block=%s, inline=%s) but end_tag pops (block=%s, inline=%s): the reader's stacks get out of step "
                          "and a later top_block()/pop() hits an empty stack (panic) or content lands in the wrong block" % (pb, pi, qb, qi), "%s:%s" % (st.file, sarm.get("ln")))
    rep.floor(rid, "Tag variants with start/end arms", n, 20)
    # leaf events push and pop an inline within the same arm
    rd = facts.fn("MarkdownEventsReader::read")
    rep.saw_fn(rd)
    cr = ctx(rd)
    mr = match_arms_on(rd, "Event")
    if mr:
        for arm in mr[0]["arms"]:
            for v in fb.pat_variants(arm["pat"]):
                ev = fb.last_seg(v)
                if ev in ("Start", "End", "_"):
                    continue
                pb, qb, pi, qi = _effects(cr, arm["body"])
                key = "%s|event:%s" % (rd.def_, ev)
                if (pb, pi) == (qb, qi):
                    rep.ok(rid, key, "self-balanced (block=%s, inline=%s)" % (pb, pi), "%s:%s" % (rd.file, arm.get("ln")), nontrivial=pb or pi)
                else:
                    rep.violation(rid, key, "leaf event pushes (block=%s, inline=%s) but pops (block=%s, inline=%s) in its own arm" % (pb, pi, qb, qi), "%s:%s" % (rd.file, arm.get("ln")))


# ------------------------------------------------------------------------------------------ R2b recursion over grown sequences

GROWERS = {"insert", "push", "push_front", "push_back", "extend", "append", "splice", "extend_from_slice", "insert_many"}


def rule_r2b(facts, rep, rid="C03-R2b"):
    """An owned-structure recursion terminates because every recursive call works on a strictly smaller part of the input.  That argument
    fails when the fn recurses over a *local copy of its children that it has grown first*: the added element is not part of the input, and if
    it contains the construct that triggers the growth (a note inlined into itself) every level adds it again."""
    n = 0
    for f in facts.body_fns():
        if f.crate not in ("liwe", "iwes", "iwe") or f.kind == "closure" or "::tests::" in f.def_ or "::test::" in f.def_:
            continue
        rec_calls = [x for x in fb.calls_in(f.body) if fb.callee(x) == f.def_]
        if not rec_calls:
            continue
        c = ctx(f)
        for i, call in enumerate(rec_calls):
            # the sequence the recursion is mapped over: receiver chain of the enclosing `.map(|child| child.f(..))` / the for-loop iterator
            seq_base = None
            for p in c.parents(call):
                if p.get("k") == "closure":
                    host = c.parent_of.get(id(p))
                    if host is not None and host.get("k") == "mcall" and host["name"] in ("map", "flat_map", "filter_map", "for_each"):
                        r = host["recv"]
                        while r is not None and r.get("k") == "mcall":
                            r = r["recv"]
                        while r is not None and r.get("k") in ("addrof", "unary"):
                            r = r["e"]
                        seq_base = r
                    break
                if p.get("k") == "match" and p.get("src") == "ForLoopDesugar":
                    for y in fb.walk(p.get("e") or {}):
                        if y.get("k") == "path" and y.get("res") == "local":
                            seq_base = y
                    break
            if seq_base is None or seq_base.get("k") != "path" or seq_base.get("res") != "local" or "Vec<" not in str(seq_base.get("ty") or ""):
                continue
            n += 1
            lid = seq_base["id"]
            key = "%s|recursion-over-grown-copy|%d" % (f.def_, i)
            # parameters handed on unchanged to the recursive call (`new` in `child.f(target, new.clone())`)
            passed_on = set()
            for a in call.get("args", []):
                for at in c.vprov(a):
                    if at[0] == "param" and at[1] != "self":
                        passed_on.add(at[1])
            grown = []
            for x in fb.walk(f.body):
                if x.get("k") == "mcall" and x["name"] in GROWERS and x.get("recv") is not None and (x.get("s") or [0])[0] < (call.get("s") or [0])[0] and \
                        any(y.get("k") == "path" and y.get("res") == "local" and y.get("id") == lid for y in fb.walk(x["recv"])):
                    # the element added is (a copy of) a parameter that every level receives again: not part of the structure being walked
                    added = set(at[1] for a in x.get("args", []) for at in c.vprov(a) if at[0] == "param")
                    if added & passed_on:
                        grown.append(x)
            if grown:
                rep.violation(rid, key, "%s recurses over the local `%s` after adding one of its own arguments to it with `.%s(..)`, and hands the same argument to every level: the "
                              "recursion also descends into the element it has just added, so its depth is not bounded by the input - if the added value contains what triggers the growth (a note inlined into itself) it never ends "
                              "(stack overflow, process abort)" % (fb.last2(f.def_), seq_base.get("name"), grown[0]["name"]), loc(f, grown[0]))
            else:
                rep.ok(rid, key, "the recursion runs over `%s`, which is not grown before" % seq_base.get("name"), loc(f, call), nontrivial=False)
    rep.ok(rid, "recursion-over-grown-copy|inventory", "%d recursive map / loop site(s) over a local sequence examined" % n, None, nontrivial=False)


def run(facts, rep, tier):
    rep.rule("C03-R1", "Audited panic inventory: every unwrap/expect, explicit panic, index, arithmetic assert and panicking std call reachable from the "
             "input-facing roots is discharged by an enumerated local guard idiom or classified in tables/panics.json (invariant / guarded / benign / finding).")
    rep.rule("C03-R2", "Recursion and loop inventory: every call-graph cycle reachable from the roots has an audited driver (child = nesting depth, "
             "next/prev = number of siblings, cross-note = guarded by C17/C18) that must match what the recursive calls' arguments derive from; "
             "sibling-driven recursion is reported (stack exhaustion on long notes). Explicit loop/while constructs need a termination entry.")
    rep.rule("C03-R3", "Reader stack balance: for every pulldown Tag the start arm pushes a block/inline iff the matching TagEnd arm pops one; "
             "leaf events balance within their arm (necessary for the unwrap/expect on the reader's stacks to be infeasible).")
    rts = roots(facts)
    rep.notes.append("roots: %d (%s ...)" % (len(rts), ", ".join(fb.last2(r) for r in rts[:8])))
    panics.inventory(facts, rep, "C03-R1", rts, floor=150, prop="C03")
    rule_r2(facts, rep)
    rep.rule("C03-R2b", "Structural recursion runs over the untouched input: a fn that maps itself over a local copy of its children must not have grown that copy before (the added "
             "element is not bounded by the input; a self-containing insertion recurses forever).")
    rule_r2b(facts, rep)
    rule_r3(facts, rep)
    rep.rule("C03-R4", "= C04-R3 for the per-note lookup tables: a re-parse replaces a note's line->node table (a table that accumulates keeps ids of tombstoned nodes, and the "
             "handlers unwrap what they look up there).")
    from . import c04
    from .c06 import _MultiOnly
    c04.rule_r3(facts, _MultiOnly(rep, ("nodes_map", "cache:")), "C03-R4")
    rep.rule("C03-R5", "Writer event pairing: in every block of the cmark event writer the Start(Tag::V) / End(TagEnd::W) constructions are balanced in source order with V == W at every "
             "close - an unbalanced stream is answered with Err(UnexpectedEvent), which MarkdownWriter::write unwraps (formatting a note with that construct in a table panics).")
    from . import events
    events.rule_event_pairing(facts, rep, "C03-R5")
