"""C08 - rename moves a note and keeps every link pointing at it (structural necessary conditions).

Decides: the taken-name guard precedes (and uses the same key as) everything that builds the edit; the affected set is the
union of block and inline referrers of the renamed key; Tree::change_key / GraphInline::change_key reach every node / inline
kind that can hold a link (agreement with the indexer GraphInline::ref_keys); the rebuilt link keeps kind and title and a
piped wiki link keeps its text; there is ONE derivation of the new key; the edit consists of delete(old) + create(new) +
override(new) + one override per affected note.  Does NOT decide that the edited library, re-parsed, resolves as stated.
"""
from vlib import factbase as fb
from vlib import q
from . import arms as A
from .common import ctx, loc, chain_up, strip_refs, through_lets

LOSSY = {"filter_map", "skip", "take", "step_by", "take_while", "skip_while", "nth", "last", "find", "find_map", "dedup", "truncate"}


def _local_id(e):
    while e is not None and e.get("k") in ("addrof", "unary", "cast"):
        e = e["e"]
    while e is not None and e.get("k") == "mcall" and e["name"] in ("clone", "to_owned", "borrow", "as_ref"):
        e = e["recv"]
        while e is not None and e.get("k") in ("addrof", "unary", "cast"):
            e = e["e"]
    if e is not None and e.get("k") == "path" and e.get("res") == "local":
        return e["id"], e.get("name")
    return None, None


def rule_r1_r5(facts, rep):
    r1, r5, r2, r6 = "C08-R1", "C08-R5", "C08-R2", "C08-R6"
    rep.rule(r1, "taken-name guard: handle_rename returns the error on maybe_key(<new key>).is_some() at fn level, before the expression that builds the WorkspaceEdit")
    rep.rule(r5, "one new key, one derivation: the guard, the patch's build_key, both change_key calls, export_key and the create/override urls all use the same local, "
                 "which is derived with Key::from_rel_link_url(new_name, <directory of the note the link is in>)")
    rep.rule(r2, "affected set = block referrers ∪ inline referrers of the renamed key, mapped to their notes, minus the note itself; no lossy adapter in the chain")
    rep.rule(r6, "edit shape: one delete of the old key's url, one create and one override of the new key's url, one override per affected key; each override's text is the patch's export of that same key")
    f = facts.fn("Server::handle_rename")
    rep.saw_fn(f)
    c = ctx(f)
    body = f.body
    stmts = body.get("stmts", []) if body.get("k") == "block" else []
    # ---- R1 guard
    guard = None
    guard_key = None
    for s in stmts:
        if s.get("k") == "if" and any(x.get("k") == "ret" for x in fb.walk(s["t"], into_closures=False)):
            cond = s["c"]
            # `let taken = graph.maybe_key(&k).is_some(); if taken {..}`: look through simple locals
            hops = 0
            while cond.get("k") == "path" and cond.get("res") == "local" and hops < 4:
                b_ = c.binds.get(cond["id"])
                if not (b_ and b_[0] == "expr"):
                    break
                cond = b_[1]
                hops += 1
            mk = [x for x in fb.walk(cond) if x.get("k") == "mcall" and x["name"] == "maybe_key"]
            issome = [x for x in fb.walk(cond) if x.get("k") == "mcall" and x["name"] in ("is_some",)]
            if mk and issome and not (cond.get("k") == "unary" and cond.get("op") == "!"):
                errs = [x for x in fb.walk(s["t"]) if x.get("k") == "call" and fb.last_seg(fb.callee(x) or "") == "Err"]
                if errs:
                    guard = s
                    guard_key = _local_id(mk[0]["args"][0])
    edits = [x for x in fb.walk(body) if x.get("k") == "struct" and fb.norm(x.get("def", "")).endswith("lsp_types::WorkspaceEdit")]
    key = f.def_ + "|taken-name-guard"
    if guard is None:
        rep.violation(r1, key, "no fn-level `if graph.maybe_key(<new key>).is_some() { return Err(..) }` in handle_rename: renaming onto an existing note is no longer refused", f.loc)
    elif not edits:
        rep.anchor_missing(r1, "WorkspaceEdit literal in handle_rename")
    else:
        gpos = (guard.get("s") or [0])[0]
        first_build = min((x.get("s") or [1 << 60])[0] for x in fb.walk(body) if x.get("k") == "mcall" and x["name"] in ("build_key", "new_patch", "export_key"))
        if gpos < first_build and gpos < min((e.get("s") or [1 << 60])[0] for e in edits):
            rep.ok(r1, key, "guard is a fn-level statement before the patch and the edit are built", loc(f, guard))
        else:
            rep.violation(r1, key, "the taken-name test comes after the patch/edit construction started", loc(f, guard))
    # the affected-set binding: the `let` whose initialiser asks the graph for the referrers of a key
    aff = None
    cands = []
    for x in fb.walk(body):
        if x.get("k") == "let" and x.get("init") is not None and any(
                y.get("k") == "mcall" and (fb.callee(y) or "").endswith(("Graph::get_block_references_to", "Graph::get_inline_references_to")) for y in fb.walk(x["init"])):
            cands.append(x)
    if cands:
        # the innermost such `let` (an enclosing `let renamed = ..map(|url| { .. })` contains it too)
        aff = min(cands, key=lambda x: ((x["init"].get("s") or [0, 1 << 60])[1] - (x["init"].get("s") or [0, 0])[0]))
    aff_ids = set(lid for _n, lid in fb.pat_bindings(aff["pat"])) if aff is not None else set()

    def over_affected(node):
        """closure parameter id if `node` lies in a closure that iterates over the affected set (for_each / map on it), else None"""
        ps_ = c.parents(node)
        for i_, p_ in enumerate(ps_):
            # `for k in affected.iter() { .. }`
            if p_.get("k") == "match" and p_.get("src") == "ForLoopDesugar" and any(
                    y.get("k") == "path" and y.get("res") == "local" and y.get("id") in aff_ids for y in fb.walk(p_.get("e") or {})):
                for y in fb.walk(p_):
                    if y.get("k") == "match" and y is not p_:
                        for arm in y.get("arms", []):
                            if any(fb.last_seg(v) == "Some" for v in fb.pat_variants(arm["pat"])):
                                pids = [lid for _n, lid in fb.pat_bindings(arm["pat"])]
                                return pids[0] if pids else -1
            if p_.get("k") == "closure":
                for pp in ps_[i_ + 1:i_ + 3]:
                    if pp.get("k") == "mcall" and pp["name"] in ("for_each", "map", "flat_map", "filter_map") and p_ in pp.get("args", []):
                        r_ = pp["recv"]
                        while r_ is not None and r_.get("k") == "mcall" and r_["name"] in ("iter", "into_iter", "clone", "par_iter", "into_par_iter", "cloned"):
                            r_ = r_["recv"]
                        if r_ is not None and r_.get("k") == "path" and r_.get("id") in aff_ids:
                            pids = [lid for q_ in p_.get("params", []) for _n, lid in fb.pat_bindings(q_)]
                            return pids[0] if pids else -1
        return None

    # ---- R5 one derivation
    uses = []

    def use(what, e):
        lid, name = _local_id(e)
        uses.append((what, lid, name, e))

    for x in fb.walk(body):
        if x.get("k") != "mcall":
            continue
        if x["name"] == "change_key" and len(x["args"]) == 2:
            use("change_key(.., new)", x["args"][1])
        if x["name"] == "export_key":
            # the export for the *new* note is the one feeding to_override_new_file_op
            ps = c.parents(x)
            if any(p.get("k") == "mcall" and p["name"] == "to_override_new_file_op" for p in ps):
                use("export_key(new)", x["args"][0])
        if x["name"] in ("to_create_file_op", "to_override_new_file_op"):
            r = through_lets(c, x["recv"])          # `let new_url = new_key.to_full_url(..); new_url.to_create_file_op()`
            while r.get("k") in ("addrof", "unary"):
                r = through_lets(c, r["e"])
            while r.get("k") == "mcall" and r["name"] in ("to_full_url", "to_url", "clone"):
                r = r["recv"]
                while r.get("k") in ("addrof", "unary"):
                    r = r["e"]
            use(x["name"] + " receiver", r)
    # build_key for the renamed note = the build_key whose inserted tree is collect(&key) of the renamed key (the one outside for_each)
    bks = [x for x in fb.walk(body) if x.get("k") == "mcall" and x["name"] == "build_key"]
    for bk in bks:
        ps = c.parents(bk)
        if over_affected(bk) is None:
            use("build_key(new)", bk["args"][0])
    if guard is not None:
        gc_ = guard["c"]
        hops = 0
        while gc_.get("k") == "path" and gc_.get("res") == "local" and hops < 4:
            b_ = c.binds.get(gc_["id"])
            if not (b_ and b_[0] == "expr"):
                break
            gc_ = b_[1]
            hops += 1
        mk0 = [x for x in fb.walk(gc_) if x.get("k") == "mcall" and x["name"] == "maybe_key"][0]
        uses.append(("taken-name guard", guard_key[0] if guard_key else None, guard_key[1] if guard_key else None, mk0["args"][0]))
    ids = set(u[1] for u in uses)
    key = f.def_ + "|single-new-key"
    if len(uses) < 6:
        rep.violation(r5, key, "only %d uses of the new key recognised in handle_rename (expected guard, build_key, 2x change_key, export_key, create, override): %s" % (len(uses), [u[0] for u in uses]), f.loc)
    elif None in ids:
        bad = [u[0] + " = `" + fb.show(u[3])[:60] + "`" for u in uses if u[1] is None and u[3] is not None]
        rep.violation(r5, key, "the new key is re-derived in place at %s instead of using the one local: two derivations differ as soon as the rename is issued from a note in a sub-directory" % bad, f.loc)
    elif len(ids) != 1:
        rep.violation(r5, key, "different locals are used as the new key: %s" % sorted(set((u[0], u[2]) for u in uses)), f.loc)
    else:
        lid = list(ids)[0]
        b = c.binds.get(lid)
        okd = False
        if b and b[0] == "expr":
            init = b[1]
            if init.get("k") == "call" and (fb.callee(init) or "").endswith("Key::from_rel_link_url") and len(init["args"]) == 2:
                a0 = c.vprov(init["args"][0])
                a1 = c.mentions(init["args"][1])
                okd = ("field", "new_name") in a0 and q.has_call(a1, "Key::parent")
        if okd:
            rep.ok(r5, key, "%d uses, all the local `%s` = Key::from_rel_link_url(new_name, dir of the linking note)" % (len(uses), uses[0][2]), f.loc)
        else:
            rep.violation(r5, key, "the new key is not Key::from_rel_link_url(params.new_name, <note>.parent()): the name typed at a link is relative to that note's directory", f.loc)
    # ---- R2 affected set
    key = f.def_ + "|affected-set"
    if aff is None:
        rep.anchor_missing(r2, "a `let` in handle_rename that collects the referrers of a key (get_block_references_to / get_inline_references_to)")
    else:
        init = aff["init"]
        calls = [x for x in fb.walk(init) if x.get("k") == "mcall"]
        names = [x["name"] for x in calls]
        blk = [x for x in calls if (fb.callee(x) or "").endswith("Graph::get_block_references_to")]
        inl = [x for x in calls if (fb.callee(x) or "").endswith("Graph::get_inline_references_to")]
        probs = []
        if not blk:
            probs.append("block referrers (Graph::get_block_references_to) are missing")
        if not inl:
            probs.append("inline referrers (Graph::get_inline_references_to) are missing")
        if "chain" not in names and blk and inl:
            probs.append("the two referrer lists are not chained")
        kid = set()
        for x in blk + inl:
            kid.add(_local_id(x["args"][0]))
        if len(kid) > 1:
            probs.append("block and inline referrers are asked for different keys %s" % sorted(k[1] or "?" for k in kid))
        if "node_key" not in names:
            probs.append("referrer node ids are not mapped to their note keys")
        lossy = [n for n in names if n in LOSSY]
        if lossy:
            probs.append("lossy adapter(s) %s in the chain" % lossy)
        filters = [x for x in calls if x["name"] == "filter"]
        for fl in filters:
            t = fb.show(fl["args"][0]).replace(" ", "")
            kid_ids = set(k_[0] for k_ in kid)
            cmp_ = [y for y in fb.walk(fl["args"][0]) if y.get("k") == "binary" and y["op"] == "!="]
            okf = bool(cmp_) and any(y.get("k") == "path" and y.get("id") in kid_ids for y in fb.walk(cmp_[0]))
            if not okf:
                probs.append("unexpected filter `%s`" % t[:60])
        if probs:
            rep.violation(r2, key, "; ".join(probs) + " — notes that link to the renamed note are left with dangling links", loc(f, aff))
        else:
            rep.ok(r2, key, "block ∪ inline referrers of `%s`, mapped by node_key, minus the note itself" % (list(kid)[0][1]), loc(f, aff))
    # every affected note and the renamed note are rebuilt with change_key(old, new) applied to collect(<that note>)
    cks = [x for x in fb.walk(body) if x.get("k") == "mcall" and x["name"] == "change_key" and (fb.callee(x) or "").endswith("Tree::change_key")]
    key = f.def_ + "|change-key-applied"
    okc = 0
    for ck in cks:
        a0 = _local_id(ck["args"][0])
        rcv = ck["recv"]
        col = rcv if rcv.get("k") == "mcall" and rcv["name"] == "collect" else None
        ps = c.parents(ck)
        bk = [p for p in ps if p.get("k") == "mcall" and p["name"] == "insert_from_iter"]
        if col is not None and bk:
            okc += 1
    if okc >= 2 and len(set(_local_id(ck["args"][0]) for ck in cks)) == 1:
        rep.ok(r2, key, "%d rebuilds: build_key(k).insert_from_iter(collect(k).change_key(old, new).iter())" % okc, f.loc)
    else:
        rep.violation(r2, key, "the renamed note and every affected note must be rebuilt from collect(..).change_key(old, new) (found %d such rebuilds)" % okc, f.loc)
    # rebuilt key == collected key
    for bk in bks:
        ins = [p for p in c.parents(bk) if p.get("k") == "mcall" and p["name"] == "insert_from_iter"]
        if not ins:
            continue
        col = [x for x in fb.walk(ins[0]) if x.get("k") == "mcall" and x["name"] == "collect"]
        if not col:
            continue
        b_id = _local_id(bk["args"][0])
        c_id = _local_id(col[0]["args"][0])
        in_aff = over_affected(bk) is not None
        key = "%s|rebuild:%s" % (f.def_, "affected" if in_aff else "renamed")
        if in_aff:
            if b_id == c_id:
                rep.ok(r2, key, "patch.build_key(k) is filled from collect(k)", loc(f, bk))
            else:
                rep.violation(r2, key, "an affected note is rebuilt under `%s` from the content of `%s`" % (b_id[1], c_id[1]), loc(f, bk))
        else:
            ck_old = [x for x in fb.walk(ins[0]) if x.get("k") == "mcall" and x["name"] == "change_key"]
            o_id = _local_id(ck_old[0]["args"][0]) if ck_old else (None, None)
            if c_id == o_id and c_id[0] is not None:
                rep.ok(r2, key, "the note is rebuilt under the new key from collect(old key)", loc(f, bk))
            else:
                rep.violation(r2, key, "the renamed note's new content is collected from `%s` but links to `%s` are rewritten" % (c_id[1], o_id[1]), loc(f, bk))
    # ---- R6 edit shape
    ops = {"to_delete_file_op": [], "to_create_file_op": [], "to_override_new_file_op": [], "to_override_file_op": []}
    for x in fb.walk(body):
        if x.get("k") == "mcall" and x["name"] in ops:
            ops[x["name"]].append(x)
    key = f.def_ + "|edit-operations"
    counts = {k: len(v) for k, v in ops.items()}
    if counts == {"to_delete_file_op": 1, "to_create_file_op": 1, "to_override_new_file_op": 1, "to_override_file_op": 1}:
        rep.ok(r6, key, "delete + create + override-new + override-per-affected", f.loc)
    else:
        rep.violation(r6, key, "rename's edit no longer consists of exactly one delete, one create, one override of the new file and one override per affected note: %s" % counts, f.loc)
    for x in ops["to_delete_file_op"]:
        r = x["recv"]
        while r.get("k") == "mcall" and r["name"] in ("to_full_url", "clone"):
            r = r["recv"]
        lid = _local_id(r)
        old = set(_local_id(ck["args"][0]) for ck in cks)
        k2 = f.def_ + "|delete-old"
        if lid in old and lid[0] is not None:
            rep.ok(r6, k2, "delete targets the renamed key `%s`" % lid[1], loc(f, x))
        else:
            rep.violation(r6, k2, "the delete operation targets `%s`, not the renamed key" % fb.show(x["recv"])[:60], loc(f, x))
    for x in ops["to_override_file_op"]:
        # url key and exported key must be the same closure parameter
        r = x["recv"]
        cp = over_affected(x)
        urlk = [y for y in fb.walk(r) if y.get("k") == "path" and y.get("res") == "local" and y.get("id") == cp]
        expk = [y for y in fb.walk(x["args"][1]) if y.get("k") == "path" and y.get("res") == "local" and y.get("id") == cp] if len(x["args"]) > 1 else []
        k2 = f.def_ + "|override-affected"
        okx = urlk and expk and urlk[0]["id"] == expk[0]["id"] and any(y.get("k") == "mcall" and y["name"] == "export_key" for y in fb.walk(x["args"][1]))
        if okx:
            rep.ok(r6, k2, "override(url of k, patch.export_key(k))", loc(f, x))
        else:
            rep.violation(r6, k2, "an affected note's file is overridden with text that is not the patch's export of that same note", loc(f, x))


# ------------------------------------------------------------------------------------------------------ R3 / R4

def _rec_variants(facts, f, enum, method):
    """Variants of `enum` whose arm in `f` calls `method` recursively on the payload (or handles it itself)."""
    ms = A.matches_on(f, enum)
    out = {}
    if not ms:
        return None
    for vs, arm in A.arms_of(ms[0]):
        rec = any(x.get("k") == "mcall" and x["name"] == method for x in fb.walk(arm["body"]))
        for v in vs:
            out[fb.last_seg(v)] = (rec, arm)
    return out


def _known_target_guard(ck, c, rb):
    """At the rebuilt link, `is_ref()` is known to be true and a comparison of `ref_key()` with the target parameter is known to hold - whatever idiom establishes it."""
    from .common import facts_at
    isref = keyeq = False
    for e, pol in facts_at(c, rb):
        if not pol:
            continue
        t = fb.show_canon(ck, e)
        if e.get("k") in ("call", "mcall") and (fb.callee(e) or "").endswith("::is_ref"):
            isref = True
        if "ref_key" in t and "P1" in t and ((e.get("k") == "binary" and e.get("op") == "==") or (e.get("k") == "mcall" and e.get("name") in ("eq", "is_some_and", "map_or", "contains"))):
            keyeq = True
    return isref and keyeq


def rule_r3_r4(facts, rep):
    r3, r4 = "C08-R3", "C08-R4"
    rep.rule(r3, "Tree::change_key rewrites every node kind whose payload can hold a link (payload type mentions GraphInline or Reference; read from the ADT table): "
                 "inline text through GraphInline::change_key, block references by compare-and-replace; children are recursed without filter")
    rep.rule(r4, "GraphInline::change_key recurses into exactly the inline kinds the indexer (GraphInline::ref_keys) recurses into; the rebuilt link keeps kind and title, "
                 "a piped wiki link keeps its text, and only links whose key equals the target are touched")
    f = facts.fn("Tree::change_key")
    rep.saw_fn(f)
    node = facts.adts["liwe::model::node::Node"]
    ms = A.matches_on(f, "Node")
    if not ms:
        rep.anchor_missing(r3, "match on Node in Tree::change_key")
        return
    armsv = {}
    wild = None
    for vs, arm in A.arms_of(ms[0]):
        for v in vs:
            if v == "_":
                wild = arm
            else:
                armsv[fb.last_seg(v)] = arm
    n = 0
    for var in node["variants"]:
        vs_ = fb.last_seg(var["path"])
        holds_inline = False
        holds_ref = False
        for fl in var["fields"]:
            t = fl["ty"]
            st = A.struct_of_type(facts, t)
            tys = [t] + ([x["ty"] for x in st["variants"][0]["fields"]] if st else [])
            if any("GraphInline" in x for x in tys):
                holds_inline = True
            if st is not None and fb.last_seg(st["path"]) == "Reference":
                holds_ref = True
        if not (holds_inline or holds_ref):
            rep.ok(r3, "%s|arm:%s" % (f.def_, vs_), "payload cannot hold a link", f.loc, nontrivial=False)
            continue
        n += 1
        key = "%s|arm:%s|rewrites-links" % (f.def_, vs_)
        arm = armsv.get(vs_)
        if arm is None:
            rep.violation(r3, key, "Node::%s can hold links but falls into Tree::change_key's catch-all arm: links in such nodes keep pointing at the old name after a rename" % vs_, loc(f, wild["body"]) if wild else f.loc)
            continue
        body = arm["body"]
        if holds_inline:
            ck = [x for x in fb.walk(body) if x.get("k") == "mcall" and (fb.callee(x) or "").endswith("GraphInline::change_key")]
            if ck:
                rep.ok(r3, key, "inlines mapped through GraphInline::change_key", loc(f, body))
            else:
                rep.violation(r3, key, "the %s arm does not map its inline text through GraphInline::change_key" % vs_, loc(f, body))
        else:
            txt = fb.show(body)
            st = [x for x in fb.walk(body) if x.get("k") == "struct" and fb.norm(x.get("def", "")).endswith("node::Reference")]
            okr = False
            for s in st:
                fm = {fl["name"]: fl["e"] for fl in s["fields"]}
                if "key" in fm and fm["key"].get("k") == "if":
                    cond = fb.show_canon(f, fm["key"]["c"]).replace(" ", "")
                    t_ = fb.show_canon(f, fm["key"]["t"]).replace(" ", "")
                    e_ = fb.show_canon(f, fm["key"]["e"]).replace(" ", "")
                    if "P1" in cond and "b0.key" in cond and "P2" in t_ and "P1" not in t_ and "b0.key" in e_:
                        okr = True
                keep = all(nm in fm and ("b0.%s" % nm) in fb.show_canon(f, fm[nm]).replace(" ", "") for nm in ("text", "reference_type"))
                okr = okr and keep
            if okr:
                rep.ok(r3, key, "key replaced iff equal to the target; text and kind copied", loc(f, body))
            else:
                rep.violation(r3, key, "the Reference arm is not `key: if reference.key == target { updated } else { reference.key }` with text and kind copied", loc(f, body))
    rep.floor(r3, "link-holding node kinds", n, 4)
    # children recursed through map_children
    key = f.def_ + "|recurses-children"
    from .common import maps_every_child
    mc = maps_every_child(ctx(f), f.body, "Tree::change_key")
    rec = bool(mc)
    if rec:
        rep.ok(r3, key, "every child is mapped through change_key(..)", loc(f, mc[0]))
    else:
        rep.violation(r3, key, "Tree::change_key does not recurse into all children", f.loc)
    g = facts.fn("Tree::map_children")
    rep.saw_fn(g)
    bad = [x["name"] for x in fb.walk(g.body) if x.get("k") == "mcall" and x["name"] in (LOSSY | {"filter", "rev"})]
    key = g.def_ + "|order-and-length-preserving"
    if bad:
        rep.violation(r3, key, "map_children uses %s: children are dropped or reordered by every tree rewrite" % bad, g.loc)
    else:
        rep.ok(r3, key, "children.iter().map(f).collect()", g.loc)

    # ---- R4
    ck = facts.fn("GraphInline::change_key")
    rk = facts.fn("GraphInline::ref_keys")
    nz = facts.fn("GraphInline::normalize")
    for h in (ck, rk, nz):
        rep.saw_fn(h)
    t_ck = _rec_variants(facts, ck, "GraphInline", "change_key")
    t_rk = _rec_variants(facts, rk, "GraphInline", "ref_keys")
    t_nz = _rec_variants(facts, nz, "GraphInline", "normalize")
    if t_ck is None or t_rk is None or t_nz is None:
        rep.anchor_missing(r4, "match on GraphInline in change_key / ref_keys / normalize")
        return
    gi = facts.adts["liwe::model::graph::GraphInline"]
    n = 0
    for var in gi["variants"]:
        vs_ = fb.last_seg(var["path"])
        nested = any("GraphInline" in fl["ty"] for fl in var["fields"])
        if not nested or vs_ == "Link":
            continue
        n += 1
        idx = t_rk.get(vs_, (False, None))[0]
        for nm, tab, fn_ in (("change_key", t_ck, ck), ("normalize", t_nz, nz)):
            key = "%s|arm:%s|recurses-like-indexer" % (fn_.def_, vs_)
            got = tab.get(vs_, (False, None))[0]
            if nm == "normalize" and vs_ == "Image":
                # C06: formatting keeps the text of images, so the title refresh deliberately does not enter an image's description
                if got:
                    rep.violation(r4, key, "GraphInline::normalize rewrites the description of images (formatting must keep an image's text)", fn_.loc)
                else:
                    rep.ok(r4, key, "normalize leaves image descriptions alone (C06)", fn_.loc, nontrivial=False)
                continue
            if idx and not got:
                rep.violation(r4, key, "links nested in a %s are indexed as references (GraphInline::ref_keys recurses into it) but GraphInline::%s does not recurse into it: "
                              "such links are %s" % (vs_, nm, "not rewritten by a rename" if nm == "change_key" else "never refreshed"), fn_.loc)
            else:
                rep.ok(r4, key, "indexer recurses=%s, %s recurses=%s" % (idx, nm, got), fn_.loc)
    rep.floor(r4, "container inline kinds", n, 8)
    # every other arm that rebuilds its own variant copies the non-text payload (url, title, language ..) position by position: a rename must not touch anything but link keys
    for var in gi["variants"]:
        vs_ = fb.last_seg(var["path"])
        if vs_ == "Link" or len(var["fields"]) < 2:
            continue
        arm = t_ck.get(vs_, (False, None))[1]
        if arm is None or fb.pat_variants(arm["pat"]) == ["_"]:
            continue
        pos = {}
        for lid, p in q.pat_positions(arm["pat"]):
            if ("::%s." % vs_) in p or p.startswith("%s." % vs_) or ("%s." % vs_) in p:
                pos[p.rsplit(".", 1)[-1]] = lid
        rebuilt = [x for x in fb.walk(arm["body"]) if x.get("k") == "call" and x.get("ctor") and (fb.callee(x) or "").endswith("GraphInline::" + vs_)]
        key = "%s|arm:%s|payload-positional" % (ck.def_, vs_)
        if not rebuilt:
            continue            # the arm returns the inline as it is (clone) - nothing is rebuilt
        bad = []
        for i, fl in enumerate(var["fields"]):
            if "GraphInline" in fl["ty"] or i >= len(rebuilt[0]["args"]):
                continue
            lid, _nm = _local_id(rebuilt[0]["args"][i])
            if pos.get(str(i)) is None or lid != pos.get(str(i)):
                bad.append("field %d is `%s`" % (i, fb.show(rebuilt[0]["args"][i])[:30]))
        if bad:
            rep.violation(r4, key, "the rebuilt %s does not keep its payload in place (%s): a rename rewrites something other than link keys - e.g. an image's url and title change places, "
                          "so every picture in the rewritten notes loses its file" % (vs_, "; ".join(bad)), loc(ck, rebuilt[0]))
        else:
            rep.ok(r4, key, "non-text payload copied position by position", loc(ck, rebuilt[0]))
    # Link arm of change_key
    arm = t_ck.get("Link", (False, None))[1]
    key = ck.def_ + "|arm:Link"
    if arm is None:
        rep.violation(r4, key, "GraphInline::change_key has no Link arm", ck.loc)
        return
    c = ctx(ck)
    pos = {}
    for lid, p in q.pat_positions(arm["pat"]):
        pos[p.rsplit(".", 1)[-1]] = lid
    rebuilt = [x for x in fb.walk(arm["body"]) if x.get("k") == "call" and x.get("ctor") and (fb.callee(x) or "").endswith("GraphInline::Link")]
    if not rebuilt:
        rep.violation(r4, key + "|rebuilds", "the Link arm does not rebuild the link", loc(ck, arm["body"]))
        return
    rb = rebuilt[0]
    a = rb["args"]
    # url from updated_key
    if "P2" in fb.show_canon(ck, a[0]) and "P1" not in fb.show_canon(ck, a[0]):
        rep.ok(r4, key + "|url", "url = updated_key", loc(ck, rb))
    else:
        rep.violation(r4, key + "|url", "the rewritten link's destination is `%s`, not the new key" % fb.show(a[0]), loc(ck, rb))
    for i, nm in ((1, "title"), (2, "kind")):
        want = pos.get(str(i))
        lid, _n = _local_id(a[i])
        k2 = key + "|keeps-" + nm
        if want is not None and lid == want:
            rep.ok(r4, k2, "%s copied from the matched link" % nm, loc(ck, rb))
        else:
            rep.violation(r4, k2, "the rewritten link's %s is `%s`, not the matched link's %s" % (nm, fb.show(a[i])[:50], nm), loc(ck, rb))
    # text: piped keeps inlines
    want = pos.get("3")
    tprov = c.vprov(a[3])
    txt = a[3]
    lid, _n = _local_id(txt)
    b = c.binds.get(lid) if lid is not None else None
    keeps_piped = False
    if want is not None and lid == want:
        keeps_piped = True
    elif b and b[0] == "expr" and b[1].get("k") == "match":
        for ivs, iarm in A.arms_of(b[1]):
            if any(fb.last_seg(v) == "WikiLinkPiped" for v in ivs):
                if want is not None and fb.uses_local(iarm["body"], want):
                    keeps_piped = True
    k2 = key + "|piped-text-kept"
    if keeps_piped:
        rep.ok(r4, k2, "a piped wiki link keeps its own text", loc(ck, rb))
    else:
        rep.violation(r4, k2, "the rewritten link's text does not keep the original inlines for piped wiki links: [[old|shown]] becomes [[new|]]", loc(ck, rb))
    # text of the other kinds: preserved (or refreshed to the title) - an empty text is neither
    keeps_regular = False
    if want is not None and lid == want:
        keeps_regular = True
    elif b and b[0] == "expr" and b[1].get("k") == "match":
        for ivs, iarm in A.arms_of(b[1]):
            if any(fb.last_seg(v) in ("Regular", "_") for v in ivs):
                if want is not None and fb.uses_local(iarm["body"], want):
                    keeps_regular = True
    k2 = key + "|regular-text-kept"
    if keeps_regular:
        rep.ok(r4, k2, "a regular link keeps its text", loc(ck, rb))
    else:
        rep.violation(r4, k2, "the rewritten regular link gets an empty text: when the renamed note has no heading to refresh it from, [keep](old) becomes [](new)", loc(ck, rb))
    # guard: only links whose key equals the target
    iffs = [p for p in c.parents(rb) if p.get("k") == "if"]
    k2 = key + "|only-target"
    cond = fb.show_canon(ck, iffs[0]["c"]) if iffs else ""
    if iffs and "P1" in cond and "ref_key" in cond and "is_ref" in cond and "!" not in cond.replace("!=", ""):
        rep.ok(r4, k2, "rewritten only if is_ref() && ref_key() == target", loc(ck, iffs[0]))
    elif _known_target_guard(ck, c, rb):
        rep.ok(r4, k2, "rewritten only where is_ref() and ref_key() == target are known to hold (early exit / condition held in a local)", loc(ck, rb))
    else:
        rep.violation(r4, k2, "the Link arm rewrites links under `%s` (must be is_ref() && ref_key() == target): other links are retargeted" % cond[:80], loc(ck, rb))
    wild = [arm_ for vs, arm_ in A.arms_of(A.matches_on(ck, "GraphInline")[0]) if vs == ["_"]]
    k2 = ck.def_ + "|other-inlines-untouched"
    if wild and fb.show(wild[0]["body"]).strip("{} ") == "self.clone()":
        rep.ok(r4, k2, "_ => self.clone()", loc(ck, wild[0]["body"]))
    elif wild:
        rep.violation(r4, k2, "the catch-all arm of GraphInline::change_key is `%s`, not self.clone()" % fb.show(wild[0]["body"])[:60], loc(ck, wild[0]["body"]))


def run(facts, rep, tier):
    rule_r1_r5(facts, rep)
    rule_r3_r4(facts, rep)
    # the affected set is read from the reference index: it is only as complete as the index
    rep.rule("C08-R7", "= C04-R1 / C04-R2 / C04-R6: rename finds the notes to rewrite through the reference index, so the index must be read through the tombstone filter, the walker must "
                       "reach every node, and re-indexing one note must not drop the other notes' references (a referrer missing from the index keeps a dangling link).")
    from . import c04
    c04.rule_r1(facts, rep, "C08-R7")
    c04.rule_r2(facts, rep, "C08-R7b")
    c04.rule_r6(facts, rep, "C08-R7c")
    rep.rule("C08-R8", "= C13-R4: the link under the cursor is found by comparing positions line first, column second.")
    from . import c13
    c13.rule_r4(facts, rep, "C08-R8")
    rep.rule("C08-R9", "= C15-R3: the links rename rewrites are written with Key::to_rel_link_url and read back with Key::from_rel_link_url / Key::parent - one path algebra (relative_path), "
                       "no string-prefix arithmetic: otherwise a rewritten (or merely re-exported) link resolves to another note.")
    from . import c15
    c15.rule_r3(facts, rep, "C08-R9")
    rep.rule("C08-R10", "= C14-R3 / R5 / R8: the files rename creates and deletes are addressed through Key::to_path / BasePath::key_to_url, which name the file `key + .md` without treating "
                        "dots in a name as extensions (otherwise the rename clobbers an unrelated note and the new name never exists).")
    from . import c14
    c14.rule_r3(facts, rep, "C08-R10")
    c14.rule_r5(facts, rep, "C08-R10b")
    c14.rule_r8(facts, rep, "C08-R10c")
    rep.rule("C08-R11", "= C13-R8: rename starts from the link under the cursor, which is searched in every block / inline that can hold one (child tables hand out all nested content).")
    from . import children
    children.rule_child_tables(facts, rep, "C08-R11")
    rep.rule("C08-R12", "The renamed note's content is unchanged, front matter included: the patch graph knows front matter under the old names only, so the text of the new file is given the "
                        "front matter recorded for the OLD key (Graph::with_front_matter) - otherwise rename deletes the note's `---` block.")
    from . import frontmatter
    frontmatter.rule_rename_carries_front_matter(facts, rep, "C08-R12")
