"""C07 - the outline survives formatting and comes out well-nested (thin structural clauses, stated as such).

Decides: the ordered/bullet kind is carried unchanged through the chain of same-shaped match arms; the projector's
recursive calls pass heading-level arguments of the classes {same, +1, reset 0} that make heading level = nesting depth + 1;
no walker skips a block or sibling (shared with C01-R3/R5); the continuation indent of list items is computed from the
marker that was printed.  Does NOT decide the section splitter's range arithmetic nor how the output re-parses.
"""
from vlib import factbase as fb
from vlib import q
from . import arms as A
from . import c01
from .common import pname, ctx, loc, self_field, str_template, value_leaves


def _kind_of_name(s):
    s = s or ""
    low = s.lower()
    if "ordered" in low or "_num" in low:
        return "ordered"
    if "bullet" in low or low == "left_pad_and_prefix":
        return "bullet"
    return None


def _callees_and_ctors(e):
    out = []
    for x in fb.walk(e):
        if x.get("k") in ("call", "mcall"):
            out.append(fb.last_seg(fb.callee(x) or x.get("name") or ""))
        if x.get("k") == "struct":
            out.append(fb.last_seg(fb.norm(x.get("def") or "")))
        if x.get("k") == "path" and x.get("res") == "def":
            out.append(fb.last_seg(fb.norm(x.get("def") or "")))
    return out


def _row(rep, rid, f, where, src_kind, body, at):
    """One row of the chain: an arm selected for `src_kind` must name only constructs of the same kind."""
    kinds = set(k for k in (_kind_of_name(n) for n in _callees_and_ctors(body)) if k)
    key = "%s|%s|%s" % (f.def_, where, src_kind)
    if kinds == {src_kind}:
        rep.ok(rid, key, "%s -> %s" % (src_kind, src_kind), at)
        return 1
    if not kinds:
        rep.violation(rid, key, "the %s arm of %s no longer names an %s-list construct: the list kind is not carried to the next stage" % (src_kind, where, src_kind), at)
    else:
        rep.violation(rid, key, "list kind crossed in %s: the arm for an %s list builds %s (both constructors have the same type, so this compiles): "
                      "every %s list comes out as the other kind" % (f.def_, src_kind, sorted(kinds), src_kind), at)
    return 1


def rule_r1(facts, rep, rid="C07-R1"):
    rep.rule(rid, "list kind is carried end to end: at every stage of the pipeline the arm selected for an ordered list names only ordered-list "
                  "constructs of the next stage and the arm for a bullet list only bullet-list constructs (reader, SectionsBuilder, GraphBuilder, "
                  "GraphNodePointer::node, add_new_node_and, Projector, GraphBlock::to_markdown, change_list_type is the only crossing)")
    n = 0
    # 1. reader: Tag::List(Some) -> OrderedList, None -> BulletList
    rf = None
    for f in facts.body_fns():
        if f.crate == "liwe" and f.kind != "closure" and "reader" in (f.file or "") and A.matches_on(f, "pulldown_cmark::Tag"):
            rf = f
    if rf is None:
        rep.anchor_missing(rid, "reader fn matching on pulldown_cmark::Tag")
        return
    rep.saw_fn(rf)
    for vs, arm in A.arms_of(A.matches_on(rf, "pulldown_cmark::Tag")[0]):
        if any(fb.last_seg(v) == "List" for v in vs):
            iffs = [x for x in fb.walk(arm["body"]) if x.get("k") == "if"]
            mm = [x for x in fb.walk(arm["body"]) if x.get("k") == "match" and x is not arm["body"]]
            if iffs:
                cond = fb.show(iffs[0]["c"])
                neg = cond.startswith("!") or "is_none" in cond
                t, e = iffs[0]["t"], iffs[0].get("e")
                if "is_some" in cond or "is_none" in cond:
                    some_branch, none_branch = (e, t) if neg else (t, e)
                    n += _row(rep, rid, rf, "Tag::List(start number present)", "ordered", some_branch, loc(rf, iffs[0]))
                    n += _row(rep, rid, rf, "Tag::List(no start number)", "bullet", none_branch, loc(rf, iffs[0]))
                else:
                    rep.undecided(rid, "%s|Tag::List|condition" % rf.def_, "unrecognised list-kind test `%s`" % cond, loc(rf, iffs[0]))
            elif mm:
                for ivs, iarm in A.arms_of(mm[0]):
                    k = "ordered" if any(fb.last_seg(v) == "Some" for v in ivs) else "bullet" if any(fb.last_seg(v) == "None" for v in ivs) else None
                    if k:
                        n += _row(rep, rid, rf, "Tag::List(%s)" % "/".join(fb.last_seg(v) for v in ivs), k, iarm["body"], loc(rf, iarm["body"]))
            else:
                rep.violation(rid, "%s|Tag::List|no-kind-test" % rf.def_, "the reader no longer distinguishes ordered from bullet lists (no test on the start number)", loc(rf, arm["body"]))
    # 2.. stage matches
    stages = [
        ("SectionsBuilder::block", "DocumentBlock"),
        ("GraphBuilder::add_new_node_and", "Node"),
        ("GraphNodePointer as liwe::model::node::NodeIter>::node", "GraphNode"),
        ("Projector::project_node", "Node"),
        ("GraphBlock::to_markdown", "GraphBlock"),
        ("MarkdownWriter::block_events", "GraphBlock"),
    ]
    for fs, enum in stages:
        f = facts.fn(fs)
        rep.saw_fn(f)
        ms = A.matches_on(f, enum)
        if not ms:
            rep.anchor_missing(rid, "match on %s in %s" % (enum, fs))
            continue
        for vs, arm in A.arms_of(ms[0]):
            for v in vs:
                k = _kind_of_name(fb.last_seg(v))
                if k and fb.last_seg(v) in ("OrderedList", "BulletList"):
                    body = arm["body"]
                    if fs == "MarkdownWriter::block_events":
                        # Tag::List(Some(1)) / Tag::List(None): kind is the Option constructor
                        txt = fb.show(body)
                        kinds = set()
                        if "Tag::List(v1::Some" in txt or "List(Some" in txt:
                            kinds.add("ordered")
                        if "Tag::List(v1::None" in txt or "List(None" in txt or "Tag::List(Option::None" in txt:
                            kinds.add("bullet")
                        if not kinds:
                            # the start number reaches Tag::List through a local / a parameter of an inlined helper (`self.list_events(Some(1), items)`)
                            cf_ = ctx(f)
                            for y in fb.walk(body):
                                if y.get("k") == "call" and (fb.callee(y) or "").endswith("Tag::List") and y.get("args"):
                                    pv_ = cf_.vprov(y["args"][0])
                                    if any(a[0] == "call" and a[1] and fb.last_seg(a[1]) == "Some" for a in pv_):
                                        kinds.add("ordered")
                                    if any(a[0] == "def" and fb.last_seg(a[1]) == "None" for a in pv_):
                                        kinds.add("bullet")
                        key = "%s|arm:%s|%s" % (f.def_, fb.last_seg(v), k)
                        n += 1
                        if kinds == {k}:
                            rep.ok(rid, key, "%s -> Tag::List(%s)" % (k, "Some" if k == "ordered" else "None"), loc(f, body))
                        else:
                            rep.violation(rid, key, "event writer emits Tag::List of kind %s for an %s list" % (sorted(kinds), k), loc(f, body))
                        continue
                    if len(vs) > 1:
                        rep.violation(rid, "%s|arm:%s|shared-arm" % (f.def_, fb.last_seg(v)), "ordered and bullet lists share one arm in %s: the kind cannot be carried" % fs, loc(f, body))
                        n += 1
                        continue
                    n += _row(rep, rid, f, "arm:" + fb.last_seg(v), k, body, loc(f, body))
    # 3. GraphBuilder helpers: ordered_list(_and) -> new_ordered_list ; bullet_list(_and) -> new_bullet_list
    for nm, k in (("GraphBuilder::ordered_list", "ordered"), ("GraphBuilder::ordered_list_and", "ordered"), ("GraphBuilder::bullet_list", "bullet"), ("GraphBuilder::bullet_list_and", "bullet")):
        f = facts.fn(nm)
        rep.saw_fn(f)
        n += _row(rep, rid, f, "body", k, f.body, f.loc)
    # 4. NodeIter::is_ordered_list / is_bullet_list and Tree::is_bullet_list test the variant they name
    for f in facts.body_fns():
        if f.kind == "closure" or f.crate != "liwe":
            continue
        nm = fb.last_seg(f.def_)
        if nm in ("is_ordered_list", "is_bullet_list") and ("NodeIter" in f.def_ or "Tree" in f.def_ or "GraphNode" in f.def_):
            k = _kind_of_name(nm)
            pats = []
            for x in fb.walk(f.body):
                if x.get("k") == "match":
                    for a in x["arms"]:
                        val = fb.show(a["body"]).strip("{} ")
                        if val == "true":
                            pats += fb.pat_variants(a["pat"])
                if x.get("k") == "call" and (x.get("m") or "").endswith("matches"):
                    pass
            # nested Some(Node::X)
            names = []
            for x in fb.walk(f.body, with_pats=True):
                if fb.is_pat(x) and x.get("def"):
                    names.append(fb.last_seg(fb.norm(x["def"])))
            kinds = set(kk for kk in (_kind_of_name(nn) for nn in names) if kk)
            key = "%s|tests-own-kind" % f.def_
            n += 1
            if kinds == {k}:
                rep.ok(rid, key, "%s tests %s" % (nm, k), f.loc)
            else:
                rep.violation(rid, key, "%s tests list kind(s) %s" % (nm, sorted(kinds)), f.loc)
    rep.floor(rid, "chain rows", n, 20)


def _strip_casts(e):
    while e is not None and e.get("k") in ("cast",) or (e is not None and e.get("k") == "block" and not e.get("stmts") and e.get("e") is not None):
        e = e.get("e")
    return e


def _is_level_field(e):
    e = _strip_casts(e)
    return e is not None and e.get("k") == "field" and e.get("name") == "header_level" and (e.get("e") or {}).get("name") == "self"


def _is_one(e):
    e = _strip_casts(e)
    return e is not None and e.get("k") == "lit" and str(e.get("v", "")).split(":", 1)[-1].rstrip("usize8") in ("1",)


def _level_class(e):
    """Class of a heading-level argument: same / +1 / reset0 / other.  `+1` in any spelling: `l + 1`, `1 + l`, `l.saturating_add(1)`, `l.checked_add(1)..`,
    with casts anywhere (`l as u8 + 1`, `(l + 1) as u8`)."""
    e0 = _strip_casts(e)
    if _is_level_field(e0):
        return "same"
    if e0 is not None and e0.get("k") == "binary" and e0.get("op") == "+" and ((_is_level_field(e0["l"]) and _is_one(e0["r"])) or (_is_one(e0["l"]) and _is_level_field(e0["r"]))):
        return "+1"
    if e0 is not None and e0.get("k") == "mcall" and e0["name"] in ("saturating_add", "wrapping_add", "checked_add", "add") and _is_level_field(e0["recv"]) and e0.get("args") and _is_one(e0["args"][0]):
        return "+1"
    if e0 is not None and e0.get("k") == "lit" and str(e0.get("v", "")).split(":", 1)[-1].rstrip("usize8") == "0":
        return "reset0"
    return "other:" + fb.show(e).replace(" ", "")


def _direct_recursions(scope):
    """`self.project_node(x)` / `self.project_list_item(x)` on `self` itself: the projector is handed on as it is - the level stays the same, as with `self.with(self.header_level)`."""
    out = []
    for x in fb.walk(scope):
        if x.get("k") == "mcall" and x["name"] in ("project_node", "project_list_item"):
            r = x["recv"]
            while r is not None and r.get("k") in ("addrof", "unary"):
                r = r.get("e")
            if r is not None and r.get("k") == "path" and r.get("res") == "local" and r.get("name") == "self":
                out.append(x)
    return out


def rule_r2(facts, rep, rid="C07-R2"):
    rep.rule(rid, "heading level = nesting depth + 1: in Projector::project_node the Section arm emits Header(level+1) and recurses into its children "
                  "with level+1; the trailing sibling step and the Document arm keep the level; Quote and list arms restart at 0; project() starts at 0; "
                  "with() copies its argument into header_level")
    f = facts.fn("Projector::project_node")
    rep.saw_fn(f)
    ms = A.matches_on(f, "Node")
    if not ms:
        rep.anchor_missing(rid, "match on Node in Projector::project_node")
        return
    expect = {"Document": "same", "Section": "+1", "Quote": "reset0", "BulletList": "reset0", "OrderedList": "reset0"}
    n = 0
    for vs, arm in A.arms_of(ms[0]):
        for v in vs:
            vs_ = fb.last_seg(v)
            if vs_ not in expect:
                continue
            withs = [x for x in fb.walk(arm["body"]) if x.get("k") == "mcall" and x["name"] == "with" and (fb.callee(x) or "").endswith("Projector::with")]
            key = "%s|arm:%s|child-level" % (f.def_, vs_)
            n += 1
            direct = _direct_recursions(arm["body"])
            if not withs and not direct:
                rep.violation(rid, key, "the %s arm does not recurse through with(level)" % vs_, loc(f, arm["body"]))
                continue
            cls = set(_level_class(w["args"][0]) for w in withs) | ({"same"} if direct else set())
            if not withs:
                withs = direct
            if cls == {expect[vs_]}:
                rep.ok(rid, key, "children projected with level class `%s`" % expect[vs_], loc(f, withs[0]))
            else:
                rep.violation(rid, key, "children of a %s are projected with heading level `%s` instead of `%s`: headings under it come out at the wrong depth "
                              "(skipped or repeated levels)" % (vs_, sorted(cls), expect[vs_]), loc(f, withs[0]))
            if vs_ == "Section":
                hdr = [x for x in fb.walk(arm["body"]) if x.get("k") == "call" and (fb.callee(x) or "").endswith("GraphBlock::Header")]
                key = "%s|arm:Section|emitted-level" % f.def_
                n += 1
                t = fb.show(hdr[0]["args"][0]).replace(" ", "") if hdr else ""
                if hdr and _level_class(hdr[0]["args"][0]) == "+1":
                    rep.ok(rid, key, "Header(header_level + 1, ..)", loc(f, hdr[0]))
                else:
                    rep.violation(rid, key, "a section's heading is emitted with level `%s`, not header_level + 1" % t, loc(f, hdr[0]) if hdr else f.loc)
    # trailing sibling recursion keeps the level
    c = ctx(f)
    sib = []
    for x in fb.walk(f.body):
        if x.get("k") == "mcall" and x["name"] == "with":
            ps = c.parents(x)
            if not any(p in ms for p in ps):
                sib.append(x)
    key = f.def_ + "|sibling-level"
    n += 1
    sib_direct = [x for x in _direct_recursions(f.body) if not any(p in ms for p in c.parents(x))]
    if not sib and sib_direct:
        rep.ok(rid, key, "next sibling projected by the same projector (same level)", loc(f, sib_direct[0]))
    elif sib and set(_level_class(w["args"][0]) for w in sib) == {"same"}:
        rep.ok(rid, key, "next sibling projected at the same level", loc(f, sib[0]))
    else:
        rep.violation(rid, key, "the next sibling is projected with level `%s`, not the same level: later sections drift in depth" % [
            _level_class(w["args"][0]) for w in sib], f.loc)
    # project_list_item: sub-blocks restart at 0
    g = facts.fn("Projector::project_list_item")
    rep.saw_fn(g)
    withs = [x for x in fb.walk(g.body) if x.get("k") == "mcall" and x["name"] == "with"]
    for x in _direct_recursions(g.body):
        # `self.project_list_item(next)`: the items of one list share the projector
        key = "%s|with:%s" % (g.def_, x["name"])
        n += 1
        if x["name"] == "project_list_item":
            rep.ok(rid, key, "project_list_item called on the same projector (same level)", loc(g, x))
        else:
            rep.violation(rid, key, "the blocks of a list item are projected at the level of the list, not from 0 (heading levels restart inside items)", loc(g, x))
    for i, w in enumerate(withs):
        cg_ = ctx(g)
        tgt = None
        for p in cg_.parents(w):
            if p.get("k") == "mcall" and p["name"] in ("project_node", "project_list_item"):
                tgt = p["name"]
                break
        key = "%s|with:%s" % (g.def_, tgt)
        n += 1
        want = "reset0" if tgt == "project_node" else "same"
        got = _level_class(w["args"][0])
        if got == want or (tgt == "project_list_item" and got in ("same", "reset0")):
            rep.ok(rid, key, "%s called with level class `%s`" % (tgt, got), loc(g, w))
        else:
            rep.violation(rid, key, "list item %s projected with level `%s` (heading levels restart inside items)" % (tgt, got), loc(g, w))
    # project(): starts at 0; with(): copies its argument
    p = facts.fn("Projector::project")
    st = [x for x in fb.walk(p.body) if x.get("k") == "struct" and fb.norm(x.get("def", "")).endswith("Projector")]
    key = p.def_ + "|starts-at-0"
    n += 1
    ok0 = any(fl["name"] == "header_level" and fb.show(fl["e"]) == "0" for s in st for fl in s["fields"])
    if ok0:
        rep.ok(rid, key, "Projector{header_level: 0, ..}", p.loc)
    else:
        rep.violation(rid, key, "projection does not start at heading level 0 (first heading would not be level 1)", p.loc)
    okp = any(fl["name"] == "parent" and ("param", pname(p, 1)) in ctx(p).vprov(fl["e"]) for s in st for fl in s["fields"])
    key = p.def_ + "|parent-from-argument"
    if okp:
        rep.ok(rid, key, "parent copied from the argument", p.loc, nontrivial=False)
    else:
        rep.violation(rid, key, "Projector.parent is not the `parent` argument", p.loc)
    w = facts.fn("Projector::with")
    st = [x for x in fb.walk(w.body) if x.get("k") == "struct" and fb.norm(x.get("def", "")).endswith("Projector")]
    key = w.def_ + "|copies-argument"
    n += 1
    okw = any(fl["name"] == "header_level" and ("param", pname(w, 1)) in ctx(w).vprov(fl["e"]) and not any(a[0] == "binary" for a in ctx(w).vprov(fl["e"])) for s in st for fl in s["fields"])
    if okw:
        rep.ok(rid, key, "with(l) sets header_level = l", w.loc)
    else:
        rep.violation(rid, key, "Projector::with does not store its argument unchanged as header_level", w.loc)
    rep.floor(rid, "level obligations", n, 11)



def _lit_is_one(z):
    return z.get("k") == "lit" and str(z.get("v", "")).split(":", 1)[-1].rstrip("usize") in ("1",)


def _str_lits(e):
    """String literals an expression can evaluate to (`"- "`, `if c { "- " } else { "  " }`); None if it is not literal-valued."""
    while e is not None and e.get("k") in ("block",) and not e.get("stmts"):
        e = e.get("e")
    while e is not None and e.get("k") in ("addrof", "unary"):
        e = e.get("e")
    if e is None:
        return None
    if e.get("k") == "lit":
        v = str(e.get("v", ""))
        if v.startswith(("s:", "c:")):
            return [v.split(":", 1)[1]]
        return None
    if e.get("k") == "if" and e.get("e") is not None:
        a, b = _str_lits(e.get("t")), _str_lits(e.get("e"))
        if a is not None and b is not None:
            return a + b
    if e.get("k") == "match":
        out = []
        for arm in e.get("arms", []):
            a = _str_lits(arm.get("body"))
            if a is None:
                return None
            out += a
        return out
    return None


def _line_emissions(g):
    """Places where a list printer writes a content line (the `&str` item of its `lines()` loop) into its output, as
    ([node], [(node, why)] for those not directly preceded by a literal blank).  Two idioms: a format! template (`"{} {}\n"`: the template
    must contain a literal blank) and piecewise appends (`push_str(marker); push_str(line)`: the piece appended just before is literal and
    ends with a blank)."""
    c = ctx(g)
    line_ids = set()
    def binds(p):
        if isinstance(p, dict):
            if p.get("k") == "p_bind" and (p.get("ty") or "").replace("&", "").strip() == "str":
                line_ids.add(p["id"])
            for v in p.values():
                binds(v)
        elif isinstance(p, list):
            for v in p:
                binds(v)
    for x in fb.walk(g.body):
        if x.get("k") == "match" and x.get("src") == "ForLoopDesugar":
            for y in fb.walk(x):
                if y.get("k") == "match":
                    for arm in y.get("arms", []):
                        binds(arm.get("pat"))
    emits, bad = [], []

    def is_line(e):
        return any(y.get("k") == "path" and y.get("res") == "local" and y.get("id") in line_ids for y in fb.walk(e))
    for blk in [x for x in fb.walk(g.body) if x.get("k") == "block"]:
        seq = list(blk.get("stmts", [])) + ([blk["e"]] if blk.get("e") is not None else [])
        prev = None
        for st in seq:
            if st.get("k") == "mcall" and st["name"] in ("push_str", "push") and st.get("args"):
                a = st["args"][0]
                if is_line(a):
                    emits.append(st)
                    tmpl = [y for y in fb.walk(a) if y.get("k") == "lit" and str(y.get("v", "")).startswith("bs:")]
                    if tmpl:
                        if " " not in str(tmpl[0]["v"])[3:]:
                            bad.append((st, "template without a blank"))
                    else:
                        lits = _str_lits(prev["args"][0]) if prev is not None else None
                        if (lits is None or not all(l.endswith(" ") for l in lits)) and prev is not None:
                            # the same through whatever builds the piece: every value it can take is a string that ends in a literal blank
                            # (`push_str(if n == 0 { &first_prefix } else { &rest_prefix })` with both built by `format!("{} ", ..)`)
                            tl = [str_template(c, lf) for lf in value_leaves(c, prev["args"][0])]
                            if tl and all(t_ and isinstance(t_[-1], str) and t_[-1].endswith(" ") for t_ in tl):
                                lits = [" "]
                        if lits is None or not all(l.endswith(" ") for l in lits):
                            bad.append((st, "the piece appended before the line is %s" % ("`%s`" % fb.show(prev["args"][0])[:40] if prev is not None else "missing")))
                prev = st
            else:
                prev = None
    return emits, bad


def rule_r4(facts, rep, rid="C07-R4"):
    rep.rule(rid, "continuation lines of a list item are indented by the width of the marker actually printed (the pad is computed from the same "
                  "prefix value as the first line), the first line gets the marker, and both list printers number / mark every item")
    f = facts.fn("model::graph::left_pad_and_prefix_num")
    rep.saw_fn(f)
    c = ctx(f)
    reps = [x for x in fb.walk(f.body) if x.get("k") == "mcall" and x["name"] == "repeat"]
    key = f.def_ + "|pad-from-prefix"
    if reps and any(any(a[0] == "call" and a[1] and a[1].endswith(("String::len", "str::len")) for a in c.vprov(r["args"][0])) or "prefix.len()" in fb.show(r["args"][0]) for r in reps):
        rep.ok(rid, key, "continuation pad = \" \".repeat(prefix.len())", loc(f, reps[0]))
    else:
        rep.violation(rid, key, "the continuation indent of ordered-list items is not computed from the printed marker's width: for some item numbers "
                      "the item's later lines fall out of the item", f.loc)
    # marker and text are separated by a literal blank in every line template (`{} {}`): with `{}{}` a marker as wide as the column glues to the text (`100.step`)
    for nm in ("model::graph::left_pad_and_prefix_num", "model::graph::left_pad_and_prefix"):
        g = facts.fn(nm)
        rep.saw_fn(g)
        key = g.def_ + "|marker-text-separator"
        emits, bad = _line_emissions(g)
        if not emits:
            rep.violation(rid, key, "%s no longer formats `<marker> <line>` lines" % nm, g.loc)
        elif bad:
            rep.violation(rid, key, "a line of %s is written without a literal blank between the marker / pad and the text (%s): as soon as the marker fills its column "
                          "(item 100.) it is glued to the text and the line is no longer a list item" % (fb.last_seg(nm), bad[0][1]), loc(g, bad[0][0]))
        else:
            rep.ok(rid, key, "%d place(s) where a content line is written, each directly after a literal blank" % len(emits), g.loc)
    gb = facts.fn("GraphBlock::to_markdown")
    for vs, arm in A.arms_of(A.matches_on(gb, "GraphBlock")[0]):
        for v in vs:
            if fb.last_seg(v) == "OrderedList":
                key = gb.def_ + "|arm:OrderedList|numbering"
                en = [x for x in fb.walk(arm["body"]) if x.get("k") == "mcall" and x["name"] == "enumerate"]
                call = [x for x in fb.walk(arm["body"]) if x.get("k") == "call" and (fb.callee(x) or "").endswith("left_pad_and_prefix_num")]
                t = fb.show(call[0]["args"][1]).replace(" ", "") if call else ""
                a1 = call[0]["args"][1] if call else None
                plus_one = a1 is not None and a1.get("k") == "binary" and a1.get("op") == "+" and sorted([a1["l"].get("k"), a1["r"].get("k")]) == ["lit", "path"] and \
                    any(_lit_is_one(z) for z in (a1["l"], a1["r"])) and any(z.get("k") == "path" and z.get("res") == "local" and ctx(gb).pos.get(z.get("id"), "").startswith("cp0>tuple.0") for z in (a1["l"], a1["r"]))
                if en and plus_one:
                    rep.ok(rid, key, "items numbered enumerate() + 1", loc(gb, arm["body"]))
                else:
                    rep.violation(rid, key, "ordered-list items are numbered `%s`, not position + 1" % t, loc(gb, arm["body"]))


def rule_r6(facts, rep, rid="C07-R6"):
    """A heading (and a table cell) is written on one line, while GraphInline::SoftBreak / LineBreak print as a newline.  The outline survives only because
    the reader never produces break inlines (a break inside a paragraph / setext heading becomes the text ` `): a break inline inside a heading would end the
    heading at the break and turn the rest into a paragraph."""
    made = []
    for f in facts.body_fns():
        if f.crate != "liwe" or "::tests::" in f.def_ or "::test::" in f.def_:
            continue
        for x in fb.walk(f.body):
            if x.get("k") == "call" and x.get("ctor") and (fb.callee(x) or "").endswith(("DocumentInline::SoftBreak", "DocumentInline::LineBreak")):
                made.append((f, x))
            if x.get("k") == "path" and fb.norm(x.get("def") or "").endswith(("GraphInline::SoftBreak", "GraphInline::LineBreak")) and x.get("res") != "local":
                # a unit variant used as a value (not in a pattern): constructing the graph-level break
                made.append((f, x))
    # the printers themselves mention the variants only in patterns; to_graph_inline converts Document -> Graph breaks (reachable only if the reader made one)
    made = [(f, x) for f, x in made if not f.def_.endswith("DocumentInline::to_graph_inline")]
    key = "reader|no-break-inlines"
    if made:
        f, x = made[0]
        rep.violation(rid, key, "%s builds a break inline (`%s`): inside a heading it is printed as a newline, so `Line one\\nline two\\n====` comes back as the heading `Line one` plus a "
                      "paragraph `line two` (the outline changes)" % (fb.last2(f.def_), fb.show(x)[:50]), loc(f, x))
    else:
        rep.ok(rid, key, "no DocumentInline::SoftBreak / LineBreak is constructed outside the Document->Graph conversion: breaks reach the printers as the text ` `")


def run(facts, rep, tier):
    rule_r1(facts, rep)
    rule_r2(facts, rep)
    # C07-R3 = C01-R3 / C01-R5 (no block or sibling is skipped), evaluated under this property's id
    c01.rule_r3(facts, rep, rid="C07-R3")
    c01.rule_r5(facts, rep, rid="C07-R3b")
    rule_r4(facts, rep)
    # C07-R5 = C01-R10: a block after a list of empty items must not become a child of the list ("every block stays ... at the same nesting depth")
    c01.rule_r10(facts, rep, rid="C07-R5")
    rep.rule("C07-R3c", "= C01-R7 / C01-R8: no lossy adapter and no unaudited trimming in the printers that decide blank lines and indentation of nested blocks "
             "(a block that loses its blank line or its indent leaves its item and changes depth).")
    c01.rule_r7(facts, rep, rid="C07-R3c")
    c01.rule_r8(facts, rep, rid="C07-R3d")
    rep.rule("C07-R6", "Single-line containers: no break inline (printed as a newline) is ever produced by the reader, so a heading's text stays on the heading's line.")
    rule_r6(facts, rep)
    c01.rule_r12(facts, rep, rid="C07-R3e")
    rep.rule("C07-R7", "= C01-R14: headings keep their text - the parser extensions enabled are exactly the audited ones (heading attributes `{..}`, smart punctuation etc. would take "
             "characters out of a heading's text).")
    from . import reader_opts
    reader_opts.rule_reader_options(facts, rep, "C07-R7")
    rep.rule("C07-R8", "= C04-R5b: a heading's or item's text is a line with exactly one owner (Arena::add_line stores and returns a freshly drawn id on every exit): shared lines are blanked "
             "when ANOTHER note is re-read, and the outline of this note comes out with empty headings.")
    from . import arena
    arena.rule_fresh_ids(facts, rep, "C07-R8")
