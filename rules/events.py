"""Event pairing in the cmark event writer (shared by C03 / C01): pulldown-cmark-to-cmark keeps a stack of open tags; an `End` that does not match the innermost open `Start` makes
`cmark()` return Err(UnexpectedEvent), which MarkdownWriter::write unwraps - formatting a note that reaches that arm panics (and `iwe normalize` dies for the whole library).
So, per lexical block of every fn that builds events: the `Event::Start(Tag::V ..)` / `Event::End(TagEnd::W ..)` constructions, in source order, form a balanced sequence
with V == W at every close."""
from vlib import factbase as fb
from .common import ctx, loc


def _variant(e):
    while e is not None and e.get("k") in ("addrof", "unary", "cast"):
        e = e["e"]
    if e is None:
        return None
    if e.get("k") == "struct":
        return fb.last_seg(fb.norm(e.get("def", "")))
    if e.get("k") == "call":
        return fb.last_seg(fb.norm(fb.callee(e) or ""))
    if e.get("k") == "path":
        return fb.last_seg(fb.norm(e.get("def") or ""))
    return None


def rule_event_pairing(facts, rep, rid):
    n = 0
    for f in facts.body_fns():
        if f.crate != "liwe" or f.kind == "closure" or "::tests::" in f.def_ or "::test::" in f.def_:
            continue
        evs = [x for x in fb.walk(f.body) if x.get("k") == "call" and (fb.callee(x) or "").endswith(("Event::Start", "Event::End")) and "pulldown_cmark" in (fb.callee(x) or "") and x.get("args")]
        if not evs:
            continue
        rep.saw_fn(f)
        c = ctx(f)
        groups = {}
        for x in evs:
            blk = next((p for p in c.parents(x) if p.get("k") == "block"), f.body)
            groups.setdefault(id(blk), []).append(x)
        gi = 0
        for _bid, xs in sorted(groups.items(), key=lambda kv: min((y.get("s") or [0])[0] for y in kv[1])):
            xs.sort(key=lambda y: (y.get("s") or [0])[0])
            stack = []
            prob = None
            for x in xs:
                v = _variant(x["args"][0])
                if (fb.callee(x) or "").endswith("Event::Start"):
                    stack.append((v, x))
                else:
                    if not stack:
                        prob = (x, "`End(%s)` without an open tag in its block" % v)
                        break
                    top, _sx = stack.pop()
                    if top != v:
                        prob = (x, "`Start(%s)` is closed by `End(%s)`" % (top, v))
                        break
            if prob is None and stack:
                prob = (stack[-1][1], "`Start(%s)` is never closed in its block" % stack[-1][0])
            n += 1
            key = "%s|event-pairing|%d" % (f.def_, gi)
            gi += 1
            if prob:
                rep.violation(rid, key, "%s in %s: the serializer answers an unbalanced event stream with Err(UnexpectedEvent), which the writer unwraps - rendering any note that reaches this "
                              "arm panics" % (prob[1], fb.last2(f.def_)), loc(f, prob[0]))
            else:
                rep.ok(rid, key, "%d start/end constructions, balanced and matching" % len(xs), loc(f, xs[0]), nontrivial=False)
    rep.floor(rid, "blocks that build start/end events", n, 15)
