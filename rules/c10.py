"""C10 - list/section conversions keep content and undo each other (thin structural clauses).

Decides: change_list_type's arm->constructor map is an involution on the list kinds and the identity elsewhere, and it copies id and
children; every tree transformer rewrites only under id_eq(target) (or parent-of-target) and maps all children recursively on the
other edge; map_children preserves order and length; wrap_into_list / unwrap_list are tree inverses (wrap nests the node as the only
child of a new list, unwrap splices the list's children in place, in order); each action offers itself on exactly the condition
under which it produces changes, applies the transformer to the selected scope and updates only the source note.
Does NOT decide invertibility at the Markdown level (adjacent lists merging, heading levels after re-parse).
"""
from vlib import factbase as fb
from vlib import q
from . import arms as A
from .common import ctx, loc

LOSSY = {"filter", "filter_map", "skip", "take", "step_by", "take_while", "skip_while", "nth", "last", "find", "find_map", "dedup", "truncate", "rev", "pop", "remove", "retain"}


def _tree_lits(e):
    return [x for x in fb.walk(e) if x.get("k") == "struct" and fb.norm(x.get("def", "")).endswith("model::tree::Tree")]


def _field(s, name):
    for fl in s["fields"]:
        if fl["name"] == name:
            return fl["e"]
    return None


def _is_self_field(e, name):
    while e is not None and e.get("k") in ("addrof", "unary"):
        e = e["e"]
    if e is not None and e.get("k") == "mcall" and e["name"] == "clone":
        e = e["recv"]
    return e is not None and e.get("k") == "field" and e["name"] == name and e["e"].get("k") == "path" and e["e"].get("name") == "self"


def _param_ids(f):
    out = {}
    for p in f.params:
        for name, lid in fb.pat_bindings(p["pat"]):
            out[lid] = name
    return out


def _guard_as_branch(b, i):
    """`if C { ..; return A; } rest..; tail` (statement i of block b, no else) read as `if C { ..; A } else { rest..; tail }`; a negated guard `if !C { return B } A` as
    `if C { A } else { B }`.  None when statement i is not such a guard."""
    st = b["stmts"][i]
    if st.get("k") != "if" or st.get("e") is not None or b.get("e") is None:
        return None
    t = st.get("t") or {}
    ts = t.get("stmts") or []
    if t.get("k") != "block" or t.get("e") is not None or not ts or ts[-1].get("k") != "ret" or ts[-1].get("e") is None:
        return None
    then_b = {"k": "block", "stmts": ts[:-1], "e": ts[-1]["e"], "ln": t.get("ln"), "s": t.get("s")}
    else_b = {"k": "block", "stmts": b["stmts"][i + 1:], "e": b["e"], "ln": b["e"].get("ln"), "s": b["e"].get("s")}
    c = st["c"]
    while c.get("k") == "paren" and c.get("e") is not None:
        c = c["e"]
    if c.get("k") == "unary" and c.get("op") == "!":
        c, then_b, else_b = c["e"], else_b, then_b
    return {"k": "if", "c": c, "t": then_b, "e": else_b, "ln": st.get("ln"), "s": st.get("s"), "ty": b["e"].get("ty")}


def _top_if(f):
    """The fn-level `if <cond> { A } else { B }` that is the fn's value (or first statement); an early-return guard is read as that if/else."""
    b = f.body
    while b is not None and b.get("k") == "block":
        cands = [s for s in b.get("stmts", []) if s.get("k") == "if"]
        if b.get("e") is not None and b["e"].get("k") == "if":
            return b["e"]
        if cands:
            i = b["stmts"].index(cands[0])
            g = _guard_as_branch(b, i)
            if g is not None and i == 0:
                return g
        if b.get("e") is not None and b["e"].get("k") == "block":
            b = b["e"]
            continue
        if cands:
            return cands[0]
        return None
    return b if b is not None and b.get("k") == "if" else None


def _guard_kind(f, cond):
    """'self-is-target' for self.id_eq(<param>), 'parent-of-target' for children.any(|c| c.id_eq(<param>)) / parent_of(<param>)."""
    params = _param_ids(f)
    t = cond
    calls = [x for x in fb.walk(t) if x.get("k") == "mcall" and x["name"] in ("id_eq", "parent_of")]
    if not calls or (t.get("k") == "unary" and t.get("op") == "!"):
        return None
    c0 = calls[0]
    arg = c0["args"][0]
    while arg.get("k") in ("addrof", "unary"):
        arg = arg["e"]
    if not (arg.get("k") == "path" and arg.get("id") in params):
        return None
    recv = c0["recv"]
    if c0["name"] == "parent_of":
        return "parent-of-target"
    if recv.get("k") == "path" and recv.get("name") == "self" and t is c0:
        return "self-is-target"
    if any(x.get("k") == "mcall" and x["name"] == "any" for x in fb.walk(t)):
        return "parent-of-target"
    return None


def _is_recursive_map_children(f, e):
    """e is (a block around) self.map_children(|child| child.<f>(same args))."""
    x = e
    while x is not None and x.get("k") == "block" and not x.get("stmts") and x.get("e") is not None:
        x = x["e"]
    if x is None or x.get("k") != "mcall" or x["name"] != "map_children":
        return False
    if not (x["recv"].get("k") == "path" and x["recv"].get("name") == "self"):
        return False
    params = _param_ids(f)
    pnames = [n for n in params.values() if n != "self"]
    for y in fb.walk(x["args"][0]):
        if y.get("k") == "mcall" and fb.callee(y) == f.def_:
            got = []
            for a in y["args"]:
                while a.get("k") in ("addrof", "unary"):
                    a = a["e"]
                if a.get("k") == "mcall" and a["name"] == "clone":
                    a = a["recv"]
                got.append(a.get("name") if a.get("k") == "path" else None)
            return got == pnames
    return False


def rule_r1(facts, rep, rid="C10-R1"):
    rep.rule(rid, "change_list_type is an involution on the tree: the arm->constructor map of its inner match, restricted to the list kinds, is {Bullet->Ordered, Ordered->Bullet} "
                  "and the identity elsewhere (composed with itself = identity); id and children are copied from self")
    f = facts.fn("Tree::change_list_type")
    rep.saw_fn(f)
    iff = _top_if(f)
    if iff is None or _guard_kind(f, iff["c"]) != "self-is-target":
        rep.violation(rid, f.def_ + "|guard", "change_list_type does not rewrite under `if self.id_eq(node_id)`", f.loc)
        return
    ms = [x for x in fb.walk(iff["t"]) if x.get("k") == "match" and x.get("src") == "Normal"]
    lits = _tree_lits(iff["t"])
    if not ms or not lits:
        rep.anchor_missing(rid, "match on Node / Tree literal in change_list_type")
        return
    mp = {}
    for vs, arm in A.arms_of(ms[0]):
        body = arm["body"]
        while body.get("k") == "block" and not body.get("stmts") and body.get("e") is not None:
            body = body["e"]
        if body.get("k") == "call" and body.get("ctor"):
            tgt = fb.last_seg(fb.callee(body))
        elif fb.show(body).replace(" ", "") == "self.node.clone()":
            tgt = "<same>"
        elif body.get("k") == "mcall" and body.get("name") in ("clone", "to_owned") and (body.get("recv") or {}).get("k") == "path" and \
                arm["pat"].get("k") == "p_bind" and "sub" not in arm["pat"] and body["recv"].get("id") == arm["pat"].get("id"):
            tgt = "<same>"          # `other => other.clone()`: the catch-all binds the scrutinee itself
        else:
            tgt = "?" + fb.show(body)[:40]
        for v in vs:
            mp[fb.last_seg(v) if v != "_" else "_"] = tgt
    key = f.def_ + "|kind-map"

    def app(k):
        t = mp.get(k, mp.get("_"))
        return k if t == "<same>" else t
    kinds = [fb.last_seg(v["path"]) for v in facts.adts["liwe::model::node::Node"]["variants"]]
    bad = [k for k in kinds if app(app(k)) != k]
    swap = app("BulletList") == "OrderedList" and app("OrderedList") == "BulletList"
    ident = [k for k in kinds if k not in ("BulletList", "OrderedList") and app(k) != k]
    if not bad and swap and not ident:
        rep.ok(rid, key, "map %s; composed with itself = identity on all %d node kinds" % (mp, len(kinds)), loc(f, ms[0]))
    else:
        rep.violation(rid, key, "change_list_type's kind map %s is not the bullet<->ordered involution (not restored after two applications: %s; non-list kinds changed: %s): "
                      "changing a list's type twice does not give the note back" % (mp, bad, ident), loc(f, ms[0]))
    key = f.def_ + "|copies-id-and-children"
    t = lits[0]
    if _is_self_field(_field(t, "id"), "id") and _is_self_field(_field(t, "children"), "children"):
        rep.ok(rid, key, "Tree{id: self.id, children: self.children.clone(), ..}", loc(f, t))
    else:
        rep.violation(rid, key, "the retyped list is built with id `%s` / children `%s`: items are lost or re-attached" % (fb.show(_field(t, "id")), fb.show(_field(t, "children"))[:60]), loc(f, t))


def rule_r2(facts, rep, rid="C10-R2"):
    rep.rule(rid, "only the target is rewritten: each tree transformer is `if <self is the target | self is the target's parent> { rewrite } else { self.map_children(|c| c.same_fn(same args)) }`; "
                  "map_children copies id and node and maps children with iter().map(f).collect() (no filter/skip/take/rev)")
    n = 0
    for nm, want in (("Tree::wrap_into_list", "self-is-target"), ("Tree::unwrap_list", "parent-of-target"), ("Tree::change_list_type", "self-is-target"),
                     ("Tree::replace", "self-is-target"), ("Tree::update_node", "self-is-target"), ("Tree::mark_node", "parent-of-target")):
        f = facts.fn(nm)
        rep.saw_fn(f)
        n += 1
        key = f.def_ + "|guarded-rewrite"
        iff = _top_if(f)
        if iff is None:
            rep.violation(rid, key, "%s has no fn-level if/else on the target" % nm, f.loc)
            continue
        gk = _guard_kind(f, iff["c"])
        if gk != want:
            rep.violation(rid, key, "%s rewrites under `%s` (expected %s): nodes other than the target are rewritten, or the target is not" % (nm, fb.show(iff["c"])[:70], want), loc(f, iff))
            continue
        if iff.get("e") is None or not _is_recursive_map_children(f, iff["e"]):
            rep.violation(rid, key, "the non-target edge of %s is `%s`, not self.map_children(|child| child.%s(<same arguments>)): the rest of the note is changed or dropped" % (
                nm, fb.show(iff.get("e"))[:80], fb.last_seg(f.def_)), loc(f, iff))
            continue
        rep.ok(rid, key, "if %s { rewrite } else { map_children(recursive, same arguments) }" % gk, loc(f, iff))
    rep.floor(rid, "tree transformers", n, 6)
    g = facts.fn("Tree::map_children")
    rep.saw_fn(g)
    lits = _tree_lits(g.body)
    key = g.def_ + "|shape"
    okm = False
    if lits:
        t = lits[0]
        from .common import through_lets
        ch = through_lets(ctx(g), _field(t, "children"))
        names = []
        r = ch
        while r is not None and r.get("k") == "mcall":
            names.append(r["name"])
            r = r["recv"]
        okm = (_is_self_field(_field(t, "id"), "id") and _is_self_field(_field(t, "node"), "node") and names == ["collect", "map", "iter"]
               and _is_self_field(r, "children"))
    if okm:
        rep.ok(rid, key, "Tree{id: self.id, node: self.node.clone(), children: self.children.iter().map(f).collect()}", g.loc)
    else:
        rep.violation(rid, key, "map_children is no longer an order- and length-preserving map over self.children that copies id and node", g.loc)


def rule_r3(facts, rep, rid="C10-R3"):
    rep.rule(rid, "wrap/unwrap are tree inverses: wrap_into_list returns a BulletList node whose only child is the whole target subtree; unwrap_list replaces the list child by "
                  "that list's children, spliced at the same position inside the ordered loop over the parent's children, every other child being kept (recursively)")
    f = facts.fn("Tree::wrap_into_list")
    rep.saw_fn(f)
    iff = _top_if(f)
    key = f.def_ + "|nests-whole-subtree"
    okw = False
    if iff is not None:
        for t in _tree_lits(iff["t"]):
            nd = _field(t, "node")
            ch = fb.show(_field(t, "children")).replace(" ", "")
            if nd.get("k") == "call" and fb.last_seg(fb.callee(nd) or "") == "BulletList" and ch.endswith("[self.clone()]))") or ch in ("vec![self.clone()]",):
                okw = True
            elif nd.get("k") == "call" and fb.last_seg(fb.callee(nd) or "") == "BulletList" and "self.clone()" in ch and ch.count("self.clone()") == 1 and ".children" not in ch:
                okw = True
    if okw:
        rep.ok(rid, key, "Tree{node: BulletList, children: [self.clone()]}", loc(f, iff))
    else:
        rep.violation(rid, key, "wrap_into_list does not nest the whole target subtree as the only child of a new bullet list: part of the section is lost or duplicated", f.loc)
    g = facts.fn("Tree::unwrap_list")
    rep.saw_fn(g)
    iff = _top_if(g)
    key = g.def_ + "|splices-in-place"
    oku = False
    why = "no fn-level if"
    if iff is not None:
        loops = [x for x in fb.walk(iff["t"]) if x.get("k") == "loop"]
        why = "no loop over the children"
        if loops:
            l = loops[0]
            inner = [x for x in fb.walk(l) if x.get("k") == "if" and any(y.get("k") == "mcall" and y["name"] == "id_eq" for y in fb.walk(x["c"]))]
            why = "no per-child id_eq test"
            if inner:
                i0 = inner[0]
                ext = [x for x in fb.walk(i0["t"]) if x.get("k") == "mcall" and x["name"] in ("extend", "append")]
                psh = [x for x in fb.walk(i0.get("e") or {"k": "block"}) if x.get("k") == "mcall" and x["name"] == "push"]
                skip = [x for x in fb.walk(l) if x.get("k") == "continue"]
                it = [x for x in fb.walk(iff["t"]) if x.get("k") == "match" and x.get("src") == "ForLoopDesugar"]
                lossy = [y["name"] for x in it[:1] for y in fb.walk(x["e"]) if y.get("k") == "mcall" and y["name"] in LOSSY]
                ext_arg = fb.show_canon(g, ext[0]["args"][0]).replace(" ", "") if ext else ""
                tested = fb.show_canon(g, i0["c"]).replace(" ", "")
                if ext and psh and not skip and not lossy and ext_arg in ("b0.children.clone()", "b0.children.iter().cloned()", "b0.children.to_vec()") and tested == "b0.id_eq(P1)":
                    rec = any(y.get("k") == "mcall" and fb.callee(y) == g.def_ for y in fb.walk(psh[0]))
                    if rec:
                        oku = True
                    else:
                        why = "non-target children are not pushed through the recursive call"
                else:
                    why = "target edge must extend with child.children, other edge must push (extend=%d push=%d continue=%d adapters=%s)" % (len(ext), len(psh), len(skip), lossy)
    if oku:
        rep.ok(rid, key, "for child in children { if child is the list { extend(child.children) } else { push(child.unwrap_list(..)) } }", g.loc)
    else:
        rep.violation(rid, key, "unwrap_list does not splice the list's children in place of the list, in order, keeping every other child: %s" % why, g.loc)


SCOPES = [
    # (provider, transformer, scope selector that must head both `action` and `changes`)
    ("ListChangeType", "change_list_type", "get_surrounding_list_id"),
    ("ListToSections", "unwrap_list", "get_top_level_surrounding_list_id"),
    ("SectionToList", "wrap_into_list", "is_header"),
]


def rule_r4(facts, rep, rid="C10-R4"):
    rep.rule(rid, "each conversion action offers itself on exactly the condition under which it produces changes (same scope selector in `action` and `changes`), applies its transformer to "
                  "the selected scope id (not to the cursor node), on collect(<source key>), and emits exactly one Update for the source key")
    for prov, xf, sel in SCOPES:
        fa = facts.fn("%s as iwes::router::server::action::ActionProvider>::action" % prov)
        fc = facts.fn("%s as iwes::router::server::action::ActionProvider>::changes" % prov)
        rep.saw_fn(fa)
        rep.saw_fn(fc)

        def selectors(f):
            return sorted(set(x["name"] for x in fb.walk(f.body) if x.get("k") == "mcall" and (fb.callee(x) or "").startswith("liwe::model::tree::Tree::")
                              and x["name"] not in ("iter", "find", "get", xf, "is_bullet_list")))
        sa, sc = selectors(fa), selectors(fc)
        key = "%s|offer-equals-apply" % prov
        if sa == sc and sel in sa:
            rep.ok(rid, key, "both select the scope with %s" % sa, fa.loc)
        else:
            rep.violation(rid, key, "%s is offered under %s but applied under %s (expected %s in both): the action is offered where it cannot be applied (resolve fails) or changes a different scope" % (prov, sa, sc, sel), fa.loc)
        c = ctx(fc)
        calls = [x for x in fb.walk(fc.body) if x.get("k") == "mcall" and x["name"] == xf and (fb.callee(x) or "").endswith("Tree::" + xf)]
        key = "%s|transformer-on-scope" % prov
        if len(calls) != 1:
            rep.violation(rid, key, "%s::changes calls Tree::%s %d times (expected once)" % (prov, xf, len(calls)), fc.loc)
        else:
            call = calls[0]
            arg = call["args"][0]
            b = c.binds.get(arg.get("id")) if arg.get("k") == "path" else None
            # the argument must be the parameter of the closure fed by the scope selector
            okb = False
            if b and b[0] == "expr":
                src = b[1]
                okb = any(y.get("k") == "mcall" and y["name"] == sel for y in fb.walk(src))
            recv_ok = call["recv"].get("k") == "mcall" and call["recv"]["name"] == "collect"
            if okb and recv_ok:
                rep.ok(rid, key, "collect(&key).%s(<scope id selected by %s>)" % (xf, sel), loc(fc, call))
            else:
                rep.violation(rid, key, "Tree::%s is applied to `%s` on `%s`: not the scope selected by %s on the source note's tree" % (xf, fb.show(arg), fb.show(call["recv"])[:50], sel), loc(fc, call))
        ups = [x for x in fb.walk(fc.body) if x.get("k") == "struct" and fb.norm(x.get("def", "")).endswith("action::Update")]
        others = [x for x in fb.walk(fc.body) if x.get("k") == "struct" and fb.norm(x.get("def", "")).endswith(("action::Create", "action::Remove"))]
        key = "%s|single-update-of-source" % prov
        oks = False
        if len(ups) == 1 and not others:
            ke = _field(ups[0], "key")
            kb = ke
            while kb.get("k") in ("addrof", "unary"):
                kb = kb["e"]
            if kb.get("k") == "mcall" and kb["name"] == "clone":
                kb = kb["recv"]
            bd = c.binds.get(kb.get("id")) if kb.get("k") == "path" else None
            if bd and bd[0] == "expr" and any(y.get("k") == "mcall" and y["name"] == "key_of" for y in fb.walk(bd[1])):
                oks = True
            elif any(a[0] == "call" and fb.last_seg(a[1]) == "key_of" for a in c.vprov(ke)):
                oks = True      # the same value through a constructor helper's parameter (`Change::update(key.clone(), ..)`)
        if oks:
            rep.ok(rid, key, "vec![Update{key: key_of(target), ..}]", fc.loc)
        else:
            rep.violation(rid, key, "%s::changes must produce exactly one Update, for the note that contains the target (updates=%d, creates/removes=%d)" % (prov, len(ups), len(others)), fc.loc)
    # scope selectors themselves
    t = facts.fn("Tree::get_surrounding_list_id")
    rep.saw_fn(t)
    txt = fb.show_canon(t, t.body, maxdepth=30).replace(" ", "")
    key = t.def_ + "|nearest-list-parent"
    if txt.startswith(("{if(self.is_list()&&self.parent_of(P1)){returnself.id}", "{if(self.parent_of(P1)&&self.is_list()){returnself.id}")):
        rep.ok(rid, key, "returns the list that is the direct parent of the item", t.loc)
    else:
        rep.violation(rid, key, "get_surrounding_list_id no longer returns the list directly containing the item", t.loc)
    t = facts.fn("Tree::get_top_level_surrounding_list_id")
    rep.saw_fn(t)
    txt = fb.show_canon(t, t.body, maxdepth=30).replace(" ", "")
    key = t.def_ + "|outermost-list"
    if txt.startswith("{if(self.contains(P1)&&self.is_list()){returnself.id}") or txt.startswith("{if(self.is_list()&&self.contains(P1)){returnself.id}"):
        rep.ok(rid, key, "returns the first (outermost) list on the path to the node", t.loc)
    else:
        rep.violation(rid, key, "get_top_level_surrounding_list_id no longer returns the outermost list containing the node", t.loc)
    t = facts.fn("Tree::is_header")
    rep.saw_fn(t)
    txt = fb.show_canon(t, t.body, maxdepth=30).replace(" ", "")
    key = t.def_ + "|sections-outside-lists"
    body_ = txt.rstrip("}").rstrip(";")
    below = ("ifself.is_list(){returnfalse}" in txt and body_.endswith("self.children.iter().any(|c0|c0.is_header(P1))")) or \
        body_.endswith("(!self.is_list()&&self.children.iter().any(|c0|c0.is_header(P1)))")      # the list test folded into the tail: `!is_list() && children.any(..)`
    if ("if(self.is_section()&&self.id_eq(P1)){returntrue}" in txt or "if(self.id_eq(P1)&&self.is_section()){returntrue}" in txt) and below:
        rep.ok(rid, key, "true for a section with that id, never below a list", t.loc)
    else:
        rep.violation(rid, key, "Tree::is_header no longer selects exactly the sections that are not inside a list", t.loc)


def rule_r6(facts, rep, rid="C10-R6"):
    rep.rule(rid, "section -> list -> section is the identity only if the list that replaces the section is re-parsed under the section's own parent. Markdown gives a "
                  "list that follows a sibling section to that sibling (a heading owns everything up to the next heading), so `Section to list` must not be offered for - or must "
                  "treat specially - a section that has a preceding sibling section: its offer condition has to look at the target's position, not only at `is_header`.")
    for part in ("action", "changes"):
        f = facts.fn("SectionToList as iwes::router::server::action::ActionProvider>::%s" % part)
        rep.saw_fn(f)
        key = "%s|offer-looks-at-position-among-siblings" % f.def_
        # every Tree / context query that takes part in the offer condition (filter closures, if conditions in front of the result)
        tests = set()
        for x in fb.walk(f.body):
            if x.get("k") == "mcall" and x["name"] in ("filter", "and_then", "take_if") and x.get("args") and x["args"][0].get("k") == "closure":
                for y in fb.calls_in(x["args"][0]["body"]):
                    tests.add(fb.last_seg(fb.callee(y) or y.get("name") or "?"))
            if x.get("k") == "if":
                for y in fb.calls_in(x["c"]):
                    tests.add(fb.last_seg(fb.callee(y) or y.get("name") or "?"))
        tests -= {"clone", "deref", "borrow", "as_ref"}
        positional = [t for t in tests if t not in ("is_header", "is_section", "is_some", "is_none")]
        if positional:
            rep.ok(rid, key, "the offer condition also consults %s" % sorted(positional), f.loc)
        else:
            rep.violation(rid, key, "`Section to list` is offered on `%s` alone: for a section that follows a sibling section (`# t / ## a / text / ## b / text`, action on `## b`) the new list "
                          "is written after `## a`'s text, re-parsed as part of `## a`, and `List to sections` brings it back one level deeper (`### b`) - the round trip does not restore "
                          "the note" % (" && ".join(sorted(tests)) or "no test"), f.loc)


def run(facts, rep, tier):
    rule_r1(facts, rep)
    rule_r2(facts, rep)
    rule_r3(facts, rep)
    rule_r4(facts, rep)
    rule_r6(facts, rep)
    rep.rule("C10-R5", "= C15-R1 restricted to the three conversion actions: the rewritten note is rendered with to_markdown(&<its own key>.parent(), <configured options>), so block references keep "
                       "resolving and a second application starts from the same text.")
    from . import c15
    c15.rule_r1(facts, _Conv(rep), "C10-R5")
    rep.rule("C10-R7", "= C01-R7 / C01-R8: the converted note is re-rendered by the printers; no lossy adapter decides blank lines between an item's blocks and no unaudited "
             "trimming touches content lines (the inverse action starts from that text).")
    from . import c01 as _c01
    _c01.rule_r7(facts, rep, rid="C10-R7")
    _c01.rule_r8(facts, rep, rid="C10-R7b")
    _c01.rule_r12(facts, rep, rid="C10-R7c")
    rep.rule("C10-R7d", "= C07-R4: the list printers the converted note goes through write a literal blank between marker and text and pad continuation lines by the marker's width "
             "(item 100 of a converted list must still be an item when the inverse action re-reads it).")
    from . import c07 as _c07
    _c07.rule_r4(facts, rep, rid="C10-R7d")
    rep.rule("C10-R8", "One set of markdown options: Server::new gives the database a copy of the configured options and keeps the configuration itself unmodified, and the two "
             "markdown_options() accessors return those fields - an action must not re-render the note with default options (refs_extension dropped from every block reference).")
    from . import options
    options.rule_one_options(facts, rep, "C10-R8")
    rep.rule("C10-R9", "Only the targeted part is rewritten - the front matter stays: the whole-file edit an action resolves to gets the note's recorded front matter back "
             "(Graph::with_front_matter on every Update before to_document_change); Updates built elsewhere are rendered by Graph::to_markdown / export_key.")
    from . import frontmatter
    frontmatter.rule_updates_carry_front_matter(facts, rep, "C10-R9")
    rep.rule("C10-R10", "= C09-R11 for the three conversions: every scope selector whose None makes changes give up also gates the offer.")
    from . import offers
    offers.rule_offer_implies_changes(facts, rep, "C10-R10", only=("ListChangeType", "ListToSections", "SectionToList"))
    rep.rule("C10-R11", "= C04-R3 for the title cache: a conversion re-renders every link of the note with the title cached for its target, so the single-key update has to replace "
             "that entry on every edit - insert on Some, remove on None - or a conversion overwrites the author's link text with the heading of an earlier version of the target.")
    from . import c04 as _c04
    from .c01 import _Only
    _c04.rule_r3(facts, _Only(rep, "cache:keys_to_ref_text"), "C10-R11")

class _Conv:
    """Forwards only the instances located in the list/section conversion actions."""
    NAMES = ("ListChangeType", "ListToSections", "SectionToList")

    def __init__(self, rep):
        self.rep = rep
        self.stats = rep.stats

    def _keep(self, key):
        return any(n in key for n in self.NAMES)

    def ok(self, rule, key, detail="", loc=None, nontrivial=True):
        if self._keep(key):
            self.rep.ok(rule, key, detail, loc, nontrivial)

    def violation(self, rule, key, detail, loc=None):
        if self._keep(key):
            self.rep.violation(rule, key, detail, loc)

    def undecided(self, rule, key, detail, loc=None):
        if self._keep(key):
            self.rep.undecided(rule, key, detail, loc)

    def floor(self, *a, **k):
        pass

    def anchor_missing(self, rule, what):
        self.rep.anchor_missing(rule, what)

    def saw_fn(self, fn):
        self.rep.saw_fn(fn)

    def rule(self, rid, text):
        pass
