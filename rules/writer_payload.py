"""The table-cell writer copies a link's / image's destination and title into the cmark tag position by position (shared by C01 / C06): `GraphInline::Image(url, title, ..)` ->
`Tag::Image { dest_url: url, title: title, .. }`, the same for `Link`.  Both are `String`s, so a swapped pair of pattern bindings compiles - and every image in a table loses its file."""
from vlib import factbase as fb
from vlib import q
from . import arms as A
from .common import ctx, loc

WANT = {"Image": {"dest_url": "0", "title": "1"}, "Link": {"dest_url": "0", "title": "1"}}


def rule_writer_payload(facts, rep, rid):
    f = facts.fn("MarkdownWriter::inlines_to_events")
    rep.saw_fn(f)
    c = ctx(f)
    ms = A.matches_on(f, "GraphInline")
    if not ms:
        rep.anchor_missing(rid, "match on GraphInline in MarkdownWriter::inlines_to_events")
        return
    n = 0
    for vs, arm in A.arms_of(ms[0]):
        for v in vs:
            vn = fb.last_seg(v or "_")
            if vn not in WANT:
                continue
            pos = {}
            for lid, p in q.pat_positions(arm["pat"]):
                pos[lid] = p.rsplit(".", 1)[-1]
            tags = [x for x in fb.walk(arm["body"]) if x.get("k") == "struct" and fb.norm(x.get("def", "")).endswith("Tag::" + vn)]
            for i, t in enumerate(tags):
                n += 1
                key = "%s|arm:%s|tag:%d|payload-positional" % (f.def_, vn, i)
                bad = []
                for fl in t.get("fields", []):
                    want = WANT[vn].get(fl["name"])
                    if want is None:
                        continue
                    e = fl["e"]
                    ids = [y["id"] for y in fb.walk(e) if y.get("k") == "path" and y.get("res") == "local" and y["id"] in pos]
                    got = sorted(set(pos[i_] for i_ in ids))
                    if not got:
                        # through locals: `let dest = url.clone(); .. dest_url: dest.into()`
                        got = sorted(set(str(a[1]).rsplit(".", 1)[-1] for a in c.vprov(e) if a[0] == "patpos" and ("%s." % vn) in str(a[1])))
                    if got != [want]:
                        bad.append("%s is taken from position %s of GraphInline::%s (expected %s)" % (fl["name"], "/".join(got) or "?", vn, want))
                if bad:
                    rep.violation(rid, key, "; ".join(bad) + ": destination and title change places when a table is written", loc(f, t))
                else:
                    rep.ok(rid, key, "dest_url <- .0, title <- .1", loc(f, t))
    rep.floor(rid, "Tag::Image / Tag::Link constructions in the table-cell writer", n, 2)
