"""C12 - every request gets exactly one response and the server keeps serving."""
from vlib import factbase as fb
from vlib import q
from .common import ctx, loc
from . import panics

RESPOND = "iwes::router::Router::respond"
SEND = "iwes::router::Router::send"
CATCH = ("std::panic::catch_unwind", "core::panic::catch_unwind")
PANIC_PREFIX = ("core::panicking::", "std::rt::begin_panic", "std::rt::panic_", "std::panicking::begin_panic")


def _handler_defs(facts):
    """Request handlers = pub methods of Server reachable from the dispatcher (read from the call graph, not a name list)."""
    out = set()
    for f in facts.fn_list:
        if f.impl_self == "iwes::router::server::Server" and f.kind == "method" and not f.impl_trait:
            n = fb.last_seg(f.def_)
            if n.startswith("handle_") or n == "resolve_completion":
                out.add(f.def_)
    return out


def rule_r1(facts, rep, rid="C12-R1"):
    f = facts.fn("Router::on_request")
    rep.saw_fn(f)
    cfg = f.cfg
    resp = [bb for bb, t in cfg.calls(lambda p: p == RESPOND)]
    rets = cfg.return_blocks()
    key = f.def_ + "|at-least-one-response-on-every-path"
    if not resp:
        rep.violation(rid, key, "the dispatcher never calls Router::respond", f.loc)
        return
    w = cfg.path_avoiding(0, rets, resp)
    if w is not None:
        # describe the offending path by the calls on it
        calls = []
        for bb in w:
            t = cfg.blocks[bb]["term"]
            if t["k"] == "call":
                calls.append("%s@%s" % (fb.last2(fb.norm(t.get("res") or t.get("f") or "?")), t.get("ln")))
        interesting = [c for c in calls if not c.startswith(("PartialEq::", "cmp::", "Deref::", "String::", "str::"))][:8]
        rep.violation(rid, key, "there is a path from entry to a normal return that passes no Router::respond: the request is never answered "
                      "(path through %s ... returns at line %s)" % (", ".join(interesting), cfg.blocks[w[-1]]["term"].get("ln")), f.loc)
    else:
        rep.ok(rid, key, "%d respond site(s); every entry->return path passes one" % len(resp), f.loc)
    key = f.def_ + "|at-most-one-response-on-every-path"
    dbl = [(a, b) for a in resp for b in resp if a != b and cfg.reaches(a, b)]
    if dbl:
        a, b = dbl[0]
        rep.violation(rid, key, "a path passes two respond sites (lines %s and %s): the request would be answered twice" % (cfg.blocks[a]["term"].get("ln"), cfg.blocks[b]["term"].get("ln")), f.loc)
    else:
        rep.ok(rid, key, "no respond site reaches another", f.loc)
    # every respond in the dispatcher answers *this* request's id
    c = ctx(f)
    for i, call in enumerate(x for x in fb.calls_in(f.body, into_closures=True) if fb.callee(x) == RESPOND):
        ment = c.mentions(call)
        k2 = "%s|response-carries-request-id|%d" % (f.def_, i)
        if ("field", "id") in ment and (("param", "request") in ment or any(a[0] == "call" and a[1] and a[1].endswith("Response::new_err") for a in ment) or ("field", "id") in ment):
            rep.ok(rid, k2, "", loc(f, call))
        else:
            rep.violation(rid, k2, "response is not built from request.id", loc(f, call))
    # explicit panics / aborts on the dispatcher's own paths (outside a catch_unwind closure)
    guarded_closures = _catch_closures(f)
    n = 0
    for node, parents in fb.walk_with_parents(f.body):
        if node.get("k") in ("call", "mcall") and (fb.callee(node) or "").startswith(PANIC_PREFIX):
            if any(p in guarded_closures for p in parents):
                continue
            if node.get("m") and "assert" in node["m"]:
                continue
            n += 1
            rep.violation(rid, "%s|explicit-panic-outside-guard|%d" % (f.def_, n - 1), "the dispatcher panics on this path (%s) instead of answering: the worker thread dies and the "
                          "client never gets a response (e.g. an unknown method must be answered with MethodNotFound)" % (node.get("m") or "panic"), loc(f, node))
    if n == 0:
        rep.ok(rid, f.def_ + "|no-explicit-panic-outside-guard", "", f.loc)


def _catch_closures(f):
    out = []
    for x in fb.walk(f.body):
        if x.get("k") == "call" and fb.callee(x) in CATCH:
            for y in fb.walk(x):
                if y.get("k") == "closure":
                    out.append(y)
                    break
    return out


def rule_r2(facts, rep, rid="C12-R2"):
    f = facts.fn("Router::on_request")
    cg = facts.callgraph
    handlers = _handler_defs(facts)
    if len(handlers) < 10:
        rep.anchor_missing(rid, "request handlers of Server (found %d)" % len(handlers))
        return
    reach = cg.reachable_from([f.def_])
    used = sorted(h for h in handlers if h in reach)
    rep.floor(rid, "handlers reachable from the dispatcher", len(used), 12)
    catches = _catch_closures(f)
    key = f.def_ + "|worker-panic-becomes-error-response"
    if not catches:
        rep.violation(rid, key, "the dispatcher runs the handlers without std::panic::catch_unwind: any panic below a handler (%d handlers reachable) kills the "
                      "worker thread and the request is never answered" % len(used), f.loc)
        return
    # every handler call reachable from the dispatcher must be reachable only through the guarded closure(s)
    guarded_defs = set()
    for cl in catches:
        guarded_defs.add(fb.norm(cl["def"]))
    g_reach = cg.reachable_from(list(guarded_defs))
    # handlers called by the dispatcher's own body outside the guard
    outside = []
    for node, parents in fb.walk_with_parents(f.body):
        if node.get("k") in ("call", "mcall"):
            cal = fb.rcallee(node)
            if cal and cal != f.def_ and not any(p in catches for p in parents):
                r2 = cg.reachable_from([cal]) if cal in cg.local else set()
                hit = [h for h in handlers if h in r2 or h == cal]
                if hit and fb.callee(node) not in CATCH:
                    outside.append((cal, hit[0], node))
    missing = [h for h in used if h not in g_reach]
    if outside or missing:
        why = []
        if outside:
            why.append("handler %s is reached outside the catch_unwind closure via %s" % (fb.last2(outside[0][1]), fb.last2(outside[0][0])))
        if missing:
            why.append("handlers not under the guard: %s" % [fb.last2(m) for m in missing[:4]])
        rep.violation(rid, key, "; ".join(why), loc(f, outside[0][2]) if outside else f.loc)
    else:
        rep.ok(rid, key, "all %d handlers run inside a catch_unwind closure; its Err edge is covered by C12-R1 (every path to return passes respond)" % len(used), f.loc)


def rule_r3(facts, rep, rid="C12-R3"):
    """Panic sites on the response path itself (outside any guard): dispatcher body outside the catch closure, respond, send."""
    f = facts.fn("Router::on_request")
    catches = _catch_closures(f)
    tab = panics.table()
    sites = panics.sites_of(facts, f)
    # keep only sites lexically outside the guarded closures: decide by span containment
    spans = [c["s"] for c in catches]
    n = 0
    for fnname in ("Router::on_request", "Router::respond", "Router::send"):
        g = facts.fn(fnname, required=(fnname != "Router::send"))
        if g is None:
            continue          # `send` inlined into its callers: its site is looked up there (panics.lookup)
        rep.saw_fn(g)
        inside_spans = spans if g is f else []
        for s in panics.sites_of(facts, g):
            # find node span by location: sites carry only loc; recompute containment through line numbers of the closures
            if g is f and _site_in_spans(g, s, catches):
                continue
            n += 1
            if s.auto:
                rep.ok(rid, s.key, "local guard: " + s.auto, s.loc)
                continue
            ent = panics.lookup(facts, tab, s)
            cls = (ent or {}).get("props", {}).get("C12", ent or {})
            if not ent:
                rep.violation(rid, s.key, "panic site `%s` on the response path, outside the catch_unwind guard: a panic here means no response" % s.detail, s.loc)
            elif cls.get("class") == "finding":
                rep.violation(rid, s.key, "%s `%s`: %s" % (s.kind, s.detail, cls.get("reason")), s.loc)
            else:
                rep.ok(rid, s.key, "%s: %s" % (cls.get("class"), cls.get("reason")), s.loc)
    rep.floor(rid, "panic sites on the unguarded response path", n, 1)


def _site_in_spans(fn, site, closures):
    """Is the site's source line inside one of the closures (by line range of the closure body)?"""
    try:
        line = int(site.loc.rsplit(":", 1)[1])
    except ValueError:
        return False
    for c in closures:
        lines = [x.get("ln") for x in fb.walk(c) if x.get("ln")]
        if lines and min(lines) <= line <= max(lines):
            return True
    return False


def rule_r4(facts, rep, rid="C12-R4"):
    # dispatch arms agree on their shape: deserialize -> handler -> to_value ; no unwrap on the deserialisation result
    f = facts.fn("Router::on_request")
    hosts = [f]
    cg = facts.callgraph
    # the dispatch table may live in a helper called by the dispatcher
    direct = set(cg.edges.get(f.def_, ()))
    for cl in facts.closures_of.get(f.def_, []):
        direct |= set(cg.edges.get(cl.def_, ()))
    for d in sorted(direct):
        g = facts.fns.get(d)
        if g is not None and g.impl_self == "iwes::router::Router" and g.body is not None and g is not f and g.kind == "method":
            hosts.append(g)
    for cl in facts.closures_of.get(f.def_, []):
        pass
    arms = []
    host = None
    for h in hosts:
        for node in fb.walk(h.body):
            if node.get("k") == "match":
                lits = [(fb.pat_variants(a["pat"]), a) for a in node["arms"]]
                strs = [(v[0][6:], a) for v, a in lits if v and v[0].startswith("lit:s:")]
                if len(strs) >= 8:
                    arms = strs
                    host = h
                    wild = [a for v, a in lits if v and v[0] == "_"]
    if not arms:
        rep.anchor_missing(rid, "dispatch table (match on request.method with string arms)")
        return
    rep.saw_fn(host)
    c = ctx(host)
    rep.floor(rid, "dispatch arms", len(arms), 13)
    handlers = _handler_defs(facts)
    for method, arm in arms:
        ment = c.mentions(arm["body"])
        hs = [a[1] for a in ment if a[0] == "call" and a[1] in handlers]
        de = any(a[0] == "call" and a[1] and a[1].endswith("Deserialize::deserialize") for a in ment)
        tv = q.has_call(ment, "serde_json::to_value")
        unw = [x for x in fb.walk(arm["body"]) if x.get("k") == "mcall" and x["name"] in ("unwrap", "expect") and (fb.callee(x["recv"]) or "").endswith("Deserialize::deserialize")]
        key = "%s|arm:%s" % (host.def_, method)
        probs = []
        if not de:
            probs.append("params are not deserialised")
        if len(hs) != 1:
            probs.append("calls %d handlers (%s)" % (len(hs), [fb.last_seg(h) for h in hs]))
        if not tv:
            probs.append("result is not serialised with to_value")
        if unw:
            probs.append("deserialisation result is unwrapped (malformed params would panic instead of producing an error response)")
        if probs:
            rep.violation(rid, key, "; ".join(probs), "%s:%s" % (host.file, arm.get("ln")))
        else:
            rep.ok(rid, key, "deserialize -> %s -> to_value" % fb.last_seg(hs[0]), "%s:%s" % (host.file, arm.get("ln")))
    # unknown methods: wildcard arm must not panic
    # (covered by R1's explicit-panic rule when the table is in the dispatcher; re-check in a helper)
    if host is not f:
        for node in fb.walk(host.body):
            if node.get("k") in ("call", "mcall") and (fb.callee(node) or "").startswith(PANIC_PREFIX) and not (node.get("m") and "assert" in node["m"]):
                guarded = bool(_catch_closures(f))
                if not guarded:
                    rep.violation(rid, host.def_ + "|unknown-method-panics", "unknown method panics without a guard", loc(host, node))
    # executeCommand deserialisation must not be unwrapped either
    for h in hosts:
        for x in fb.walk(h.body):
            if x.get("k") == "mcall" and x["name"] in ("unwrap", "expect") and (fb.callee(x["recv"]) or "").endswith("Deserialize::deserialize"):
                inside = any(x in list(fb.walk(a["body"])) for _, a in arms)
                if not inside:
                    guarded = h is f and _site_line_in(f, x, _catch_closures(f))
                    k2 = "%s|params-unwrapped|%s" % (h.def_, fb.last_seg(fb.norm(x["recv"].get("def", "?"))))
                    if guarded or (h is not f and _catch_closures(f)):
                        rep.ok(rid, k2, "unwrap on deserialised params, but under the catch_unwind guard (answered with an error)", loc(h, x))
                    else:
                        rep.violation(rid, k2, "request params are unwrapped after deserialisation outside any guard: malformed params kill the worker without a response", loc(h, x))
    # notification loop: only `exit` ends it
    n = facts.fn("Router::on_notification")
    rep.saw_fn(n)
    trues = []
    for node, parents in fb.walk_with_parents(n.body):
        if node.get("k") == "lit" and node.get("v") == "bool:true":
            conds = [p for p in parents if p.get("k") == "if"]
            okx = any(any(y.get("k") == "lit" and y.get("v") == "s:exit" for y in fb.walk(p["c"])) for p in conds)
            # the same decision as an arm of the method dispatch: `"exit" => return true`
            child = node
            for p in reversed(parents):
                if p.get("k") == "match":
                    for arm in p.get("arms", []):
                        if any(y is child for y in fb.walk(arm["body"])) and fb.pat_variants(arm["pat"]) == ["lit:s:exit"]:
                            okx = True
                child = p
            trues.append(okx)
    if trues and all(trues):
        rep.ok(rid, n.def_ + "|only-exit-stops-the-loop", "", n.loc)
    else:
        rep.violation(rid, n.def_ + "|only-exit-stops-the-loop", "on_notification can return true for something other than `exit` (or never does)", n.loc)
    r = facts.fn("Router::run")
    rep.saw_fn(r)
    m = ctx(r).mentions(r.body)
    if any(a[0] == "call" and a[1] in CATCH for a in m) and q.has_call(m, "Router::handle_message"):
        rep.ok(rid, r.def_ + "|loop-survives-panics", "handle_message runs under catch_unwind in the message loop", r.loc)
    else:
        rep.violation(rid, r.def_ + "|loop-survives-panics", "the message loop no longer guards handle_message with catch_unwind: one panic ends the server", r.loc)


# ------------------------------------------------------------------------------------------ R5 lock discipline

LOCK_ACQ = ("RwLock::read", "RwLock::write", "Mutex::lock", "RwLock<T>::read", "RwLock<T>::write", "Mutex<T>::lock")
POISON_OK = ("unwrap_or_else",)


def _is_server_lock_acq(x):
    """`<..>.server.read()/write()/lock()` on the router's shared state."""
    if x.get("k") != "mcall" or x["name"] not in ("read", "write", "lock"):
        return False
    cal = fb.callee(x) or ""
    if not (cal.endswith(LOCK_ACQ) or "RwLock" in cal or "Mutex" in cal):
        return False
    # the lock that guards the server state, whatever the field is called: receiver type RwLock<..Server> / Mutex<..Server> (through Arc / refs)
    rt = fb.tnorm(x.get("rty") or "") + " " + fb.tnorm(x.get("rtya") or "")
    return ("RwLock<" in rt or "Mutex<" in rt) and "router::server::Server" in rt


def rule_r5(facts, rep, rid="C12-R5"):
    from .common import ctx, chain_up
    acq_fns = {}
    for f in facts.body_fns():
        if f.crate != "iwes" or f.kind == "closure" or "::tests::" in f.def_:
            continue
        sites = [x for x in fb.walk(f.body) if _is_server_lock_acq(x)]
        if sites:
            acq_fns[f.def_] = (f, sites)
    rep.floor(rid, "acquisitions of the shared server lock", sum(len(v[1]) for v in acq_fns.values()), 3)
    cg = facts.callgraph
    # (a) poison recovery at every acquisition
    for d, (f, sites) in sorted(acq_fns.items()):
        rep.saw_fn(f)
        c = ctx(f)
        counts = {}
        for x in sites:
            i = counts.get(x["name"], 0)
            counts[x["name"]] = i + 1
            key = "%s|%s:%d|poison-recovery" % (d, x["name"], i)
            ups = chain_up(c, x)
            nxt = ups[0] if ups else None
            ok_rec = False
            how = "result used as `%s`" % (fb.show(nxt)[:60] if nxt else "?")
            if nxt is not None and nxt["name"] in ("unwrap_or_else", "unwrap_or_default", "map_err", "or_else"):
                if "into_inner" in fb.show(nxt["args"][0]) if nxt["args"] else False:
                    ok_rec = True
            # `match lock.read() { Ok(g) => .., Err(p) => p.into_inner() }`
            par = c.parents(x)
            if par and par[0].get("k") == "match" and "into_inner" in fb.show(par[0]):
                ok_rec = True
            if ok_rec:
                rep.ok(rid, key, "poisoning is recovered from (PoisonError::into_inner)", "%s:%s" % (f.file, x.get("ln")))
            else:
                rep.violation(rid, key, "the shared server lock is taken with `%s` (%s): a handler that panics under the write guard poisons the lock — note content can do that, see the "
                              "C11 inventory — and from then on every acquisition at this site fails, so every later %s is lost or answered with an error although the server state is intact" % (
                                  x["name"], how, "request" if x["name"] == "read" else "edit notification"), "%s:%s" % (f.file, x.get("ln")))
    # (b) no re-entrant acquisition while a guard is held
    acq_reach = {}
    for d in acq_fns:
        acq_reach[d] = True
    for f in facts.body_fns():
        if f.crate != "iwes" or f.kind == "closure":
            continue
        if f.def_ not in acq_reach:
            reach = cg.reachable_from([f.def_])
            if any(a in reach for a in acq_fns if a != f.def_):
                acq_reach[f.def_] = False   # acquires transitively
    for d, (f, sites) in sorted(acq_fns.items()):
        c = ctx(f)
        for x in sites:
            # scope of the guard: the enclosing `let` statement's following siblings, or the enclosing expression statement
            par = c.parents(x)
            scope_nodes = []
            let = next((p for p in par if p.get("k") == "let"), None)
            if let is not None:
                blk = next((p for p in c.parents(let) if p.get("k") == "block"), None)
                if blk is not None:
                    seq = list(blk.get("stmts", [])) + ([blk["e"]] if blk.get("e") is not None else [])
                    after = False
                    for st in seq:
                        if after:
                            scope_nodes.append(st)
                        if st is let:
                            after = True
            else:
                top = x
                for p in par:
                    if p.get("k") == "block":
                        break
                    top = p
                scope_nodes.append(top)
            bad = []
            for sn in scope_nodes:
                for y in fb.walk(sn):
                    if y is x:
                        continue
                    if _is_server_lock_acq(y) and y is not x and let is not None:
                        bad.append(("acquires it again directly", y))
                    if y.get("k") in ("mcall", "call"):
                        cal = fb.rcallee(y) or fb.callee(y)
                        if cal in acq_reach and cal != d or (cal == d and y.get("k") == "mcall"):
                            bad.append(("calls %s, which %s" % (fb.last2(cal), "acquires the lock" if acq_reach.get(cal) else "reaches an acquisition"), y))
            key = "%s|%s:%d|no-reentrant-acquisition" % (d, x["name"], [y for y in sites if y["name"] == x["name"]].index(x))
            if bad:
                why, y = bad[0]
                rep.violation(rid, key, "while the guard from `%s.%s()` is held, %s %s: std's RwLock is not re-entrant — if a writer (an edit notification) queues between the two "
                              "acquisitions, the second blocks behind the writer and the writer behind the first: the request is never answered and the message loop hangs" % (
                                  "self.server", x["name"], f.def_.rsplit("::", 1)[-1], why), "%s:%s" % (f.file, y.get("ln")))
            else:
                rep.ok(rid, key, "no call made under the guard reaches another acquisition (%d statement(s) in scope)" % len(scope_nodes), "%s:%s" % (f.file, x.get("ln")))


# ------------------------------------------------------------------------------------------ R6 where request workers run

DEDICATED = ("std::thread::spawn", "std::thread::Builder::spawn", "std::thread::scope", "std::thread::Scope::spawn")
POOLS = ("rayon::spawn", "rayon_core::spawn", "rayon::scope", "rayon_core::scope", "rayon::ThreadPool::spawn", "rayon_core::ThreadPool::spawn", "rayon::join", "rayon::spawn_fifo", "rayon_core::spawn_fifo")


def rule_r6(facts, rep, rid="C12-R6"):
    from .common import ctx
    cg = facts.callgraph
    onreq = facts.fn("Router::on_request")
    n = 0
    for f in facts.body_fns():
        if f.crate != "iwes" or f.kind == "closure":
            continue
        c = None
        for x in fb.walk(f.body):
            if x.get("k") == "mcall" and fb.callee(x) == onreq.def_:
                c = c or ctx(f)
                ps = c.parents(x)
                clos = [p for p in ps if p.get("k") == "closure"]
                n += 1
                key = "%s|request-worker-dispatch" % f.def_
                if not clos:
                    rep.violation(rid, key, "Router::on_request is called inline on the message loop: a slow request delays every later notification and request", "%s:%s" % (f.file, x.get("ln")))
                    continue
                host = None
                for p in ps[ps.index(clos[0]) + 1:]:
                    if p.get("k") in ("call", "mcall") and clos[0] in p.get("args", []):
                        host = p
                        break
                cal = (fb.rcallee(host) or fb.callee(host) or "?") if host else "?"
                if cal in DEDICATED:
                    rep.ok(rid, key, "each request runs on its own thread (%s)" % fb.last2(cal), "%s:%s" % (f.file, x.get("ln")))
                else:
                    # is the pool also needed while the write lock is held?  (rayon par_iter below the notification path)
                    notif = facts.fn("Router::on_notification")
                    reach = cg.reachable_from([notif.def_])
                    uses_pool = sorted(r for r in reach if r.startswith(("rayon::iter::", "rayon::slice::", "rayon_core::")))[:2]
                    rep.violation(rid, key, "request workers are started with `%s` instead of a dedicated thread: they block in server.read() while occupying pool workers, and the edit handler "
                                  "that holds the write lock itself needs that pool (%s) -> with enough concurrent requests nobody can make progress: requests are never answered and the "
                                  "message loop hangs" % (fb.last2(cal), ", ".join(fb.last2(u) for u in uses_pool) or "rayon"), "%s:%s" % (f.file, x.get("ln")))
    rep.floor(rid, "dispatch sites of Router::on_request", n, 1)


def _site_line_in(fn, node, closures):
    for c in closures:
        if any(y is node for y in fb.walk(c)):
            return True
    return False


def run(facts, rep, tier):
    rep.rule("C12-R1", "Response discipline of the dispatcher (MIR CFG of Router::on_request): every path from entry to a normal return passes "
             "at least one Router::respond and no respond site reaches another; responses carry request.id; the dispatcher does not "
             "panic on its own paths (unknown method, ...).")
    rep.rule("C12-R2", "A worker panic becomes an error response: all request handlers reachable from the dispatcher run inside a closure passed to "
             "std::panic::catch_unwind (none is reachable outside it); the Err edge responds (by R1).")
    rep.rule("C12-R3", "Audited inventory of panic sites on the response path itself (dispatcher outside the guard, respond, send).")
    rep.rule("C12-R4", "Dispatch arms agree on deserialize -> exactly one handler -> to_value with no unwrap of the deserialisation result; "
             "only `exit` stops the loop; the loop guards handle_message with catch_unwind.")
    rule_r1(facts, rep)
    rule_r2(facts, rep)
    rule_r3(facts, rep)
    rule_r4(facts, rep)
    rep.rule("C12-R5", "Lock discipline on the shared server state: every acquisition recovers from poisoning (a panicking edit handler must not turn every later request into an "
             "error), and no fn calls, while it holds a guard, anything that acquires the lock again (re-entrant read + queued writer = deadlock, no response).")
    rule_r5(facts, rep)
    rep.rule("C12-R6", "Request workers run on dedicated threads (std::thread::spawn): they block on the server lock, so they must not occupy the bounded rayon pool that the edit path "
             "needs while it holds the write lock.")
    rule_r6(facts, rep)
    rep.rule("C12-R7", "= C09-R1 (retry loop): a request handler that loops until a free name is found must draw a new candidate in every iteration, else one unlucky library state makes "
             "completion / extract requests spin forever under the read lock.")
    from . import c09
    from .c06 import _MultiOnly
    c09.rule_r1(facts, _MultiOnly(rep, ("retry-loop-draws-fresh-candidate", "fresh-candidate")), "C12-R7")
    rep.rule("C12-R8", "= C03-R2b: a request worker whose recursion never ends overflows its stack, which aborts the whole process (catch_unwind does not help): tree transformers "
             "behind the code actions recurse over the untouched children only.")
    from . import c03
    c03.rule_r2b(facts, rep, "C12-R8")
    rep.rule("C12-R9", "= C09-R2 / C10-R2: the tree transformers behind the code actions stop at the target (`if id_eq(target) { replacement } else { recurse }`): descending "
             "into the replacement recurses forever when it contains the target.")
    from . import c09 as _c09, c10 as _c10
    _c09.rule_r2(facts, rep, "C12-R9")
    _c10.rule_r2(facts, rep, "C12-R9b")
